// C04 — decoding untrusted bytes never crashes, hangs or over-allocates.
package c04

import (
	"bytes"
	"context"
	"encoding/hex"
	"fmt"
	"os"
	"reflect"
	"regexp"
	"runtime"
	"runtime/debug"
	"runtime/metrics"
	"sort"
	"strconv"
	"strings"
	"sync/atomic"
	"syscall"
	"testing"
	"time"

	hio "github.com/hprose/hprose-golang/v3/io"
	"github.com/hprose/hprose-golang/v3/rpc/codec/jsonrpc"
	"github.com/hprose/hprose-golang/v3/rpc/core"
	"pgregory.net/rapid"
	"verif/hp/ev"
	"verif/hp/uni"
)

func TestMain(m *testing.M) {
	time.Local = time.FixedZone("VERIF", 8*3600)
	if _, child := ev.ChildPayload(); child {
		// a worker: bound the address space so that an absurd allocation fails promptly instead of
		// being granted lazily by the kernel (4 GiB; the Go runtime needs well under 1 GiB itself)
		lim := syscall.Rlimit{Cur: 4 << 30, Max: 4 << 30}
		syscall.Setrlimit(syscall.RLIMIT_AS, &lim)
		debug.SetGCPercent(400)
		runtime.GOMAXPROCS(1)
	}
	for _, st := range uni.Structs {
		hio.Register(reflect.New(st).Interface())
	}
	ev.Main(m, "C04")
}

// ---------------------------------------------------------------- the entries under test

var destTypes = []reflect.Type{
	uni.TIface, reflect.TypeOf(int(0)), reflect.TypeOf(int8(0)), reflect.TypeOf(uint64(0)), reflect.TypeOf(float64(0)), reflect.TypeOf(false), reflect.TypeOf(""),
	reflect.TypeOf([]byte(nil)), reflect.TypeOf([4]byte{}), reflect.TypeOf((*int)(nil)), reflect.TypeOf((**string)(nil)),
	reflect.TypeOf([]int(nil)), reflect.TypeOf([]string(nil)), reflect.TypeOf([]interface{}(nil)), reflect.TypeOf([][]byte(nil)), reflect.TypeOf([][]int(nil)), reflect.TypeOf([3]int{}), reflect.TypeOf([2]string{}),
	reflect.TypeOf(map[string]int(nil)), reflect.TypeOf(map[string]interface{}(nil)), reflect.TypeOf(map[interface{}]interface{}(nil)), reflect.TypeOf(map[int]string(nil)), reflect.TypeOf(map[string][]string(nil)),
	reflect.TypeOf(uni.Plain{}), reflect.TypeOf((*uni.Plain)(nil)), reflect.TypeOf([]uni.Plain(nil)), reflect.TypeOf(uni.Rec{}), reflect.TypeOf(uni.Tree{}), reflect.TypeOf(uni.WithIface{}), reflect.TypeOf(uni.WithTime{}),
	reflect.TypeOf(uni.AllScalars{}), reflect.TypeOf(uni.AllPtrs{}), reflect.TypeOf(uni.AllSlices{}), reflect.TypeOf(struct{ A, B string }{}),
	uni.TTime, uni.TUUID, uni.TBigIntP, uni.TBigFloatP, uni.TBigRatP, uni.TListPtr, reflect.TypeOf(complex128(0)), reflect.TypeOf(uni.MyBytes(nil)), reflect.TypeOf(uni.MyInt8(0)),
}

type outcome struct {
	panic   string
	allocs  uint64
	elapsed time.Duration
}

var allocSample = []metrics.Sample{{Name: "/gc/heap/allocs:bytes"}}

func allocated() uint64 {
	metrics.Read(allocSample)
	return allocSample[0].Value.Uint64()
}

func measure(f func()) (o outcome) {
	before := allocated()
	t0 := time.Now()
	func() {
		defer func() {
			if e := recover(); e != nil {
				o.panic = fmt.Sprint(e)
			}
		}()
		f()
	}()
	o.elapsed = time.Since(t0)
	o.allocs = allocated() - before
	return
}

var rpcService *core.Service
var rpcJSONService *core.Service

type reqCtx struct{}

func init() {
	mk := func() *core.Service {
		s := core.NewService()
		s.AddFunction(func(name string) string { return "hello " + name }, "hello")
		s.AddFunction(func(a int, b float64, c []string, d map[string]interface{}, e *uni.Plain) (int, error) { return a, nil }, "mixed")
		s.AddFunction(func(prefix string, parts ...string) string { return prefix + strings.Join(parts, ",") }, "join")
		s.AddFunction(func(x interface{}) interface{} { return x }, "echo")
		s.AddFunction(func(ctx context.Context, n int) int { return n }, "ctxfn")
		s.AddMissingMethod(func(name string, args []interface{}) ([]interface{}, error) { return args, nil })
		return s
	}
	rpcService = mk()
	rpcJSONService = mk()
	rpcJSONService.Codec = jsonrpc.NewServiceCodec(nil)
}

var clientReturnTypes = [][]reflect.Type{
	{uni.TIface}, {reflect.TypeOf("")}, {reflect.TypeOf(0), reflect.TypeOf("")}, {reflect.TypeOf([]string(nil))}, {reflect.TypeOf(uni.Plain{})}, {reflect.TypeOf(map[string]int(nil)), reflect.TypeOf((*uni.Plain)(nil)), reflect.TypeOf(0.0)}, {},
}

// IfaceKey is comparable as a type, but a value whose member holds a list or a map cannot be hashed.
type IfaceKey struct {
	X interface{} `hprose:"x"`
}

func init() { hio.RegisterName("IfaceKey", (*IfaceKey)(nil)) }

// entries: name -> function decoding the input in one way
type entry struct {
	name string
	run  func(data []byte, variant int)
	n    int // number of variants (destination types etc.)
}

var entries = []entry{
	{"unmarshal", func(data []byte, v int) {
		p := reflect.New(destTypes[v%len(destTypes)])
		hio.Formatter{Simple: v/len(destTypes)%2 == 0}.Unmarshal(data, p.Interface())
	}, 2 * len(destTypes)},
	{"reader", func(data []byte, v int) {
		p := reflect.New(destTypes[v%len(destTypes)])
		hio.Formatter{Simple: v/len(destTypes)%2 == 0}.UnmarshalFromReader(bytes.NewReader(data), p.Interface())
	}, 2 * len(destTypes)},
	// the decoder settings that change what an interface{} destination receives: struct values instead of pointers,
	// big longs, float32/big reals, string-keyed maps, the interface-slice list type
	{"settings", func(data []byte, v int) {
		dests := []reflect.Type{uni.TIface, reflect.TypeOf(map[interface{}]interface{}(nil)), reflect.TypeOf([]interface{}(nil)), reflect.TypeOf(map[interface{}]string(nil)), reflect.TypeOf(map[string]interface{}(nil))}
		p := reflect.New(dests[v%len(dests)])
		dec := hio.NewDecoder(data).Simple(v/len(dests)%2 == 0)
		k := v / (2 * len(dests))
		dec.StructType = hio.StructType(k % 2)
		dec.LongType = hio.LongType((k / 2) % 3)
		dec.RealType = hio.RealType((k / 6) % 3)
		dec.MapType = hio.MapType((k / 18) % 2)
		dec.Decode(p.Interface())
	}, 5 * 2 * 36},
	{"service-handle", func(data []byte, v int) {
		sc := core.NewServiceContext(rpcService)
		rpcService.Handle(core.WithContext(context.Background(), sc), data)
	}, 1},
	{"client-decode", func(data []byte, v int) {
		cc := core.NewClientContext()
		cc.ReturnType = clientReturnTypes[v%len(clientReturnTypes)]
		core.NewClientCodec().Decode(data, cc)
	}, len(clientReturnTypes)},
	{"jsonrpc-service", func(data []byte, v int) {
		sc := core.NewServiceContext(rpcJSONService)
		rpcJSONService.Handle(core.WithContext(context.Background(), sc), data)
	}, 1},
	{"jsonrpc-client", func(data []byte, v int) {
		cc := core.NewClientContext()
		cc.ReturnType = clientReturnTypes[v%len(clientReturnTypes)]
		jsonrpc.NewClientCodec(nil).Decode(data, cc)
	}, len(clientReturnTypes)},
}

func entryByName(n string) *entry {
	for i := range entries {
		if entries[i].name == n {
			return &entries[i]
		}
	}
	return nil
}

const allocBase = 1 << 20
const allocPerByte = 256

// judge returns "" or the problem with this outcome.
func judge(o outcome, inputLen int) string {
	switch {
	case o.panic != "":
		return "panic: " + o.panic
	case o.allocs > allocBase+allocPerByte*uint64(inputLen):
		return fmt.Sprintf("allocated %d bytes for a %d-byte input (bound 1 MiB + 256 x length)", o.allocs, inputLen)
	case o.elapsed > 5*time.Second:
		return fmt.Sprintf("took %v", o.elapsed)
	}
	return ""
}

// ---------------------------------------------------------------- corpus and mutations

var hproseCorpus = []string{
	`n`, `t`, `5`, `i123;`, `i-2147483648;`, `l12345678901234567890;`, `d3.14;`, `d-1e300;`, `N`, `I+`, `I-`, `e`, `ua`, `u你`, `s5"hello"`, `s2"你好"`, `s2"😀"`,
	`b3"abc"`, `b""`, `g{3f257da1-0b85-48d6-8f5c-6cd13d2d60c9}`, `D20081123Z`, `T131415.123;`, `D20081123T131415.123456789Z`,
	`a3{123}`, `a2{s2"ab"r1;}`, `a{}`, `a2{a1{1}a{}}`, `a3{b1"x"nb""}`, `m2{s1"a"1s1"b"2}`, `m1{1s2"xy"}`, `m{}`, `m1{a1{1}2}`, `m1{m{}1}`,
	`c5"Plain"3{s1"a"s1"b"s1"c"}o0{7s2"xy"d1.5;}`, `a2{c5"Plain"3{s1"a"s1"b"s1"c"}o0{7s2"xy"d1.5;}o0{8r5;d2.5;}}`,
	`c3"Rec"2{s1"v"s4"next"}o0{1o0{2n}}`, `c3"Rec"2{s1"v"s4"next"}o0{1r3;}`, `c4"Nope"2{s1"p"s1"q"}o0{12}`,
	`c9"WithIface"3{s1"x"s1"l"s1"m"}o0{c5"Plain"3{s1"a"s1"b"s1"c"}o1{1ubd2;}a2{1r6;}m1{s1"k"r6;}}`,
	`s8"中文中文中文中文"`, `a2{s4"中文中文"s3"😀a"}`, `s6"éééééé"`, `s12"aé中😀aé中😀aé"`, `m1{s4"中文中文"s4"😀😀"}`,
	`m1{c8"IfaceKey"1{s1"x"}o0{a1{1}}s1"v"}`, `m2{c8"IfaceKey"1{s1"x"}o0{5}s1"v"o0{m1{1a{}}}s1"w"}`, `m1{c9"WithIface"3{s1"x"s1"l"s1"m"}o0{a1{1}nn}s1"v"}`, `m2{c9"WithIface"3{s1"x"s1"l"s1"m"}o0{5nn}s1"v"o0{m1{1a{}}nn}s1"w"}`, `m1{a2{12}s1"v"}`,
	`m3{s1"a"7s1"b"s2"xy"s1"c"d1.5;}`, `a2{d1.5;d2.5;}`, `a2{a2{d0;d1;}d2;}`, `s3"1/3"`, `a3{s2"ab"s2"cd"r2;}`,
}

var requestCorpus = []string{
	`Cs5"hello"a1{s5"world"}z`, `Cs5"hello"z`, `Cs5"mixed"a5{1d2.5;a2{s1"x"s1"y"}m1{s1"k"1}c5"Plain"3{s1"a"s1"b"s1"c"}o0{7s2"xy"d1.5;}}z`,
	`Cs4"join"a3{s1"<"s1"a"s1"b"}z`, `Cs4"join"a1{s1"<"}z`, `Cs4"echo"a1{m1{s1"k"a2{12}}}z`, `Cs5"ctxfn"a1{5}z`, `Cs7"unknown"a2{12}z`,
	`Cs5"hello"a1{s8"中文中文中文中文"}z`, `Hm1{s2"id"s3"abc"}Cs5"hello"a1{s5"world"}z`, `Hm1{s6"simple"t}Cs5"hello"a1{s5"world"}z`, `z`, `Cs1"~"z`, `Cs5"HELLO"a1{r0;}z`,
}

var responseCorpus = []string{
	`Rs11"hello world"z`, `Rs8"中文中文中文中文"z`, `Rnz`, `Ra2{1s2"ab"}z`, `Rc5"Plain"3{s1"a"s1"b"s1"c"}o0{7s2"xy"d1.5;}z`, `Es5"error"z`, `Hm1{s6"simple"t}Rs2"ab"z`, `Hm1{s1"k"a1{1}}Ra3{m1{s1"a"1}c5"Plain"3{s1"a"s1"b"s1"c"}o0{7s2"xy"d1.5;}d2.5;}z`, `z`, `Ra2{s2"ab"r1;}z`,
}

var jsonRequestCorpus = []string{
	`{"jsonrpc":"2.0","method":"hello","params":["world"],"id":1}`, `{"jsonrpc":"2.0","method":"mixed","params":[1,2.5,["x"],{"k":1},{"a":7,"b":"xy","c":1.5}],"id":2}`,
	`{"jsonrpc":"2.0","method":"join","params":["<","a","b"],"id":3}`, `{"jsonrpc":"2.0","method":"join","params":[],"id":3}`, `{"jsonrpc":"2.0","method":"hello","params":["a","b","c"],"id":4}`,
	`{"jsonrpc":"2.0","method":"unknown","params":[1,2],"id":5,"headers":{"x":1}}`, `{"jsonrpc":"2.0","method":"echo","params":[{"k":[1,2]}],"id":6}`, `{}`, `{"jsonrpc":"2.0","method":"ctxfn","params":[1,2,3,4]}`,
}

var jsonResponseCorpus = []string{
	`{"jsonrpc":"2.0","result":"hello world","id":1}`, `{"jsonrpc":"2.0","result":[1,"ab"],"id":2}`, `{"jsonrpc":"2.0","result":{"a":7,"b":"xy","c":1.5},"id":3}`, `{"jsonrpc":"2.0","error":{"code":-32601,"message":"x"},"id":4}`,
	`{"jsonrpc":"2.0","result":null,"id":5,"headers":{"h":[1]}}`, `{"jsonrpc":"2.0","result":5,"id":6}`, `{}`,
}

func corpusFor(e string) []string {
	switch e {
	case "service-handle":
		return requestCorpus
	case "client-decode":
		return responseCorpus
	case "jsonrpc-service":
		return append(append([]string{}, jsonRequestCorpus...), requestCorpus[:3]...)
	case "jsonrpc-client":
		return jsonResponseCorpus
	}
	return hproseCorpus
}

var alphabet = []byte(`0123456789-;"{}abcdefgilmnorstuzDEHINRT+.eCxé` + "\x00\xff\xf0\x80")

var numRe = regexp.MustCompile(`[0-9]+`)

var hostileNumbers = []string{"-1", "0", "1", "2147483647", "2147483648", "4294967296", "9223372036854775807", "9223372036854775808", "18446744073709551615", "100000000000", "-9223372036854775808", "99999999999999999999",
	"100000000", "600000000", "9223372036854775800"}

// mutations enumerates: every truncation, every single-byte deletion, substitutions and insertions from
// the alphabet, and grammar-aware replacements of every number (counts, lengths, indices, values).
// wideMutants (filled by mutations) are the few mutants that run in every variant in the quick tier as well:
// numbers without digits, whose handling differs per destination type.
var wideMutants = map[string]bool{}

func mutations(s string, full bool, entryName string) []string {
	out := []string{s} // the unchanged stream first: it runs in every variant in both tiers
	b := []byte(s)
	for k := 0; k < len(b); k++ {
		out = append(out, string(b[:k]))
		out = append(out, string(append(append([]byte{}, b[:k]...), b[k+1:]...)))
	}
	step := 1
	if !full {
		step = 5
	}
	for k := 0; k <= len(b); k++ {
		for ai := (k * 7) % step; ai < len(alphabet); ai += step {
			c := alphabet[ai]
			if k < len(b) {
				m := append([]byte{}, b...)
				m[k] = c
				out = append(out, string(m))
			}
			ins := append(append(append([]byte{}, b[:k]...), c), b[k:]...)
			out = append(out, string(ins))
		}
	}
	hostile := hostileNumbers
	if !full {
		hostile = []string{"-1", "2147483648", "100000000000", "99999999999999999999", "9223372036854775807", "100000000"}
		if entryName == "reader" {
			// the open finding count-trusted-in-reader-mode turns each of the huge counts into a 10 s hang or a
			// worker death; the quick tier keeps two of them, the thorough tier all twelve
			hostile = []string{"-1", "2147483648"}
		}
	}
	for _, loc := range numRe.FindAllStringIndex(s, -1) {
		orig, _ := strconv.Atoi(s[loc[0]:loc[1]])
		// (a number without digits, a bare sign: `i;`, `l-;`, `a{`)
		for _, h := range append([]string{strconv.Itoa(orig + 1), strconv.Itoa(orig - 1), strconv.Itoa(orig * 2), strconv.Itoa(orig + 100), "", "-", "+"}, hostile...) {
			out = append(out, s[:loc[0]]+h+s[loc[1]:])
			if h == "" || h == "-" {
				wideMutants[s[:loc[0]]+h+s[loc[1]:]] = true
			}
		}
	}
	// structural: duplicate / drop braces and quotes, swap adjacent bytes, repeat the stream
	out = append(out, s+s, s+"z", "a2{"+s+s+"}", strings.Repeat("a1{", 200)+s, strings.Repeat("m1{1", 100)+s, strings.Repeat(s, 20))
	for k := 0; k+1 < len(b); k++ {
		m := append([]byte{}, b...)
		m[k], m[k+1] = m[k+1], m[k]
		out = append(out, string(m))
	}
	return out
}

// ---------------------------------------------------------------- the worker (child process)

// payload: "<entry>|<corpus index>|<start>|<full>". The worker prints one line per input that violates the
// property and "DONE <count>" at the end; before each input it records "<index> <hex input> <variant>" in the side file.
func TestWorker(t *testing.T) {
	payload, ok := ev.ChildPayload()
	if !ok {
		t.Skip("child only")
	}
	f := strings.Split(payload, "|")
	e := entryByName(f[0])
	ci, _ := strconv.Atoi(f[1])
	start, _ := strconv.Atoi(f[2])
	full := f[3] == "1"
	muts := mutations(corpusFor(e.name)[ci], full, e.name)
	side, _ := os.OpenFile(os.Getenv("VERIF_WORKER_SIDE"), os.O_CREATE|os.O_RDWR|os.O_TRUNC, 0o644)
	count := 0
	// per-input watchdog: a decode that is still running after 10 s (they normally take microseconds) is a hang
	var startedAt int64
	go func() {
		for {
			time.Sleep(500 * time.Millisecond)
			if at := atomic.LoadInt64(&startedAt); at != 0 && time.Since(time.Unix(0, at)) > 10*time.Second {
				fmt.Println("HANG")
				os.Exit(3)
			}
		}
	}()
	for i := start; i < len(muts); i++ {
		in := []byte(muts[i])
		nv := e.n
		vs := []int{i % nv, (i*7 + 3) % nv, (i*13 + 5) % nv}
		if full || i == 0 || wideMutants[muts[i]] {
			vs = vs[:0]
			for v := 0; v < nv; v++ {
				vs = append(vs, v)
			}
		}
		for _, v := range vs {
			if side != nil {
				rec := fmt.Sprintf("%d %s %d\n", i, hex.EncodeToString(in), v)
				side.WriteAt([]byte(rec), 0)
				side.Truncate(int64(len(rec)))
			}
			atomic.StoreInt64(&startedAt, time.Now().UnixNano())
			o := measure(func() { e.run(in, v) })
			atomic.StoreInt64(&startedAt, 0)
			count++
			if p := judge(o, len(in)); p != "" {
				fmt.Printf("PROBLEM %d %d %s %s\n", i, v, hex.EncodeToString(in), strings.ReplaceAll(p, "\n", " "))
			}
		}
	}
	fmt.Printf("DONE %d %d\n", count, len(muts))
}

type finding struct {
	key   string
	match func(entry string, input []byte, variant int, problem string) bool
}

var countRe = regexp.MustCompile(`-?[0-9]+`)

// announcesBeyondInput: some number in the input is negative or larger than the input is long
func announcesBeyondInput(in []byte) bool {
	for _, m := range countRe.FindAll(in, -1) {
		n, err := strconv.ParseInt(string(m), 10, 64)
		if err != nil || n < 0 || n > int64(len(in)) {
			return true
		}
	}
	return false
}

var allocSig = regexp.MustCompile(`out of memory|makeslice|allocation size out of range|^allocated [0-9]+ bytes|slice bounds out of range|^took |cannot allocate|still running after 10 s`)

var findings = []finding{
	// decoding from an io.Reader, AND the input announces a count or length that is negative or beyond the input,
	// AND the failure is an allocation failure / allocation-size panic / over-allocation / bounds panic on that count
	{"count-trusted-in-reader-mode", func(entry string, input []byte, variant int, problem string) bool {
		return entry == "reader" && announcesBeyondInput(input) && allocSig.MatchString(strings.TrimPrefix(strings.TrimPrefix(problem, "panic: "), "process death: "))
	}},
}

var bigExponentRe = regexp.MustCompile(`d-?[0-9.]*[eE]\+?[0-9]{6,}`)

// holdsBigInt: the destination type is or contains (up to three levels) a *big.Int
func holdsBigInt(t reflect.Type, depth int) bool {
	if t == uni.TBigIntP || t == uni.TBigIntP.Elem() {
		return true
	}
	if depth == 0 {
		return false
	}
	switch t.Kind() {
	case reflect.Ptr, reflect.Slice, reflect.Array, reflect.Map:
		return holdsBigInt(t.Elem(), depth-1)
	case reflect.Struct:
		for i := 0; i < t.NumField(); i++ {
			if holdsBigInt(t.Field(i).Type, depth-1) {
				return true
			}
		}
	}
	return false
}

func init() {
	findings = append(findings, finding{"double-exponent-into-bigint", func(entry string, input []byte, variant int, problem string) bool {
		// a double token with an exponent of six or more digits, AND a destination holding a *big.Int, AND the
		// failure is the size of that integer (over-allocation or the time it takes)
		return (entry == "unmarshal" || entry == "reader") && bigExponentRe.Match(input) && holdsBigInt(destTypes[variant%len(destTypes)], 3) &&
			(strings.HasPrefix(problem, "allocated ") || strings.HasPrefix(problem, "took "))
	}})
	for i, t := range destTypes {
		if t == uni.TBigIntP {
			reproducers["double-exponent-into-bigint"] = repro{"unmarshal", i, `d1e100000000;`}
		}
	}
}

func classify(entry string, input []byte, variant int, problem string) string {
	for _, k := range findings {
		if ev.S.Known(k.key) && k.match(entry, input, variant, problem) {
			return k.key
		}
	}
	return ""
}

func variantName(e *entry, v int) string {
	switch e.name {
	case "unmarshal", "reader":
		return fmt.Sprintf("%s simple=%v", destTypes[v%len(destTypes)], v/len(destTypes)%2 == 0)
	case "settings":
		k := v / 10
		return fmt.Sprintf("dest#%d simple=%v struct=%d long=%d real=%d map=%d", v%5, v/5%2 == 0, k%2, (k/2)%3, (k/6)%3, (k/18)%2)
	case "client-decode", "jsonrpc-client":
		return fmt.Sprint(clientReturnTypes[v%len(clientReturnTypes)])
	}
	return ""
}

var triage = map[string]int{}

func report(t *testing.T, sub string, e *entry, input []byte, variant int, problem string) {
	canon := fmt.Sprintf("entry=%s %s input=%q", e.name, variantName(e, variant), input)
	if key := classify(e.name, input, variant, problem); key != "" {
		ev.S.Exclude(key, canon+" => "+problem)
		return
	}
	if os.Getenv("VERIF_TRIAGE") != "" {
		sig := regexp.MustCompile(`[0-9]+`).ReplaceAllString(problem, "N")
		if triage[e.name+sig] < 3 {
			fmt.Printf("TRIAGE %s | %s\n", problem, canon)
		}
		triage[e.name+sig]++
		return
	}
	ev.S.Violation(sub, "TestMutations", canon, problem, map[string]interface{}{"entry": e.name, "variant": variant, "input_hex": hex.EncodeToString(input)})
	t.Fatalf("%s\n=> %s", canon, problem)
}

var problemRe = regexp.MustCompile(`(?m)^PROBLEM ([0-9]+) ([0-9]+) ([0-9a-f]*) (.*)$`)
var doneRe = regexp.MustCompile(`(?m)^DONE ([0-9]+) ([0-9]+)$`)

// TestMutations: parent. Enumerates (entry, corpus stream) work items, runs each in worker processes and
// continues behind any input that kills a worker.
func TestMutations(t *testing.T) {
	full := ev.Thorough()
	item := 0
	for ei := range entries {
		e := &entries[ei]
		for ci := range corpusFor(e.name) {
			item++
			if item%ev.S.NShards != ev.S.Shard {
				continue
			}
			start := 0
			for attempts := 0; attempts < 60; attempts++ {
				side := fmt.Sprintf("%s/worker-%d.side", ev.S.OutDir, item)
				os.Setenv("VERIF_WORKER_SIDE", side)
				fl := "0"
				if full {
					fl = "1"
				}
				ev.S.Begin("mutations", fmt.Sprintf("entry=%s corpus=%q from=%d", e.name, corpusFor(e.name)[ci], start))
				out, abnormal := ev.InChild("TestWorker", fmt.Sprintf("%s|%d|%d|%s", e.name, ci, start, fl), 20*time.Minute)
				for _, m := range problemRe.FindAllStringSubmatch(out, -1) {
					in, _ := hex.DecodeString(m[3])
					v, _ := strconv.Atoi(m[2])
					report(t, "mutations", e, in, v, m[4])
				}
				if d := doneRe.FindStringSubmatch(out); d != nil && !abnormal {
					n, _ := strconv.Atoi(d[1])
					ev.S.Class("decodes", int64(n))
					ev.S.Bump("mutations", int64(n))
					ev.S.Class("entry="+e.name, int64(n))
					break
				}
				// the worker died: the side file names the input that killed it
				rec, _ := os.ReadFile(side)
				var idx, v int
				var hx string
				fmt.Sscanf(string(rec), "%d %s %d", &idx, &hx, &v)
				in, _ := hex.DecodeString(hx)
				sigLine := "no diagnostic"
				for _, l := range strings.Split(out, "\n") {
					if l == "HANG" {
						sigLine = "the decode was still running after 10 s (hang)"
						break
					}
					if strings.HasPrefix(l, "fatal error") || strings.HasPrefix(l, "runtime:") || strings.HasPrefix(l, "panic:") || strings.Contains(l, "signal: killed") {
						sigLine = l
						break
					}
				}
				ev.S.Class("worker-deaths", 1)
				report(t, "mutations", e, in, v, "process death: "+sigLine)
				start = idx + 1
			}
			for _, mu := range []string{} {
				_ = mu
			}
			muts := mutations(corpusFor(e.name)[ci], full, e.name)
			ev.S.Case("mutations", fmt.Sprintf("entry=%s corpus=%q mutations=%d", e.name, corpusFor(e.name)[ci], len(muts)), true, "mutation-sets")
		}
	}
	ev.S.Exhaustive("mutations", true)
}

// ---------------------------------------------------------------- random bytes (in-process, recoverable problems only)

func TestRandomBytes(t *testing.T) {
	gen := rapid.SliceOfN(rapid.OneOf(rapid.SampledFrom(alphabet), rapid.Byte()), 0, 64)
	ev.Check(t, "random-bytes", ev.N(60000, 1500000), func(rt *rapid.T) {
		in := gen.Draw(rt, "bytes")
		ei := rapid.IntRange(0, len(entries)-1).Draw(rt, "entry")
		e := &entries[ei]
		v := rapid.IntRange(0, e.n-1).Draw(rt, "variant")
		if riskyAlloc(in) {
			rt.Skip("announces a count beyond the input: exercised in worker processes")
		}
		canon := fmt.Sprintf("entry=%s %s input=%q", e.name, variantName(e, v), in)
		ev.S.Begin("random-bytes", canon)
		o := measure(func() { e.run(in, v) })
		nt := len(in) >= 2 && strings.IndexByte("0123456789ilduseNItfnbgDTamcorCHRE{", in[0]) >= 0
		ev.S.Case("random-bytes", canon, nt, "entry="+e.name)
		if p := judge(o, len(in)); p != "" {
			if key := classify(e.name, in, v, p); key != "" {
				ev.S.Exclude(key, canon+" => "+p)
				return
			}
			if os.Getenv("VERIF_TRIAGE") != "" {
				sig := regexp.MustCompile(`[0-9]+`).ReplaceAllString(p, "N")
				if triage[e.name+sig] < 3 {
					fmt.Printf("TRIAGE %s | %s\n", p, canon)
				}
				triage[e.name+sig]++
				return
			}
			ev.S.Violation("random-bytes", "TestRandomBytes", canon, p, map[string]interface{}{"entry": e.name, "variant": v, "input_hex": hex.EncodeToString(in)})
			rt.Fatalf("%s\n=> %s", canon, p)
		}
	})
}

var bigNumRe = regexp.MustCompile(`[0-9]{6,}`)

// riskyAlloc: the input contains a number with six or more digits (a count or length far beyond a 64-byte input).
func riskyAlloc(in []byte) bool { return bigNumRe.Match(in) }

// TestReplay re-executes one recorded input in a worker process.
func TestReplay(t *testing.T) {
	var rec struct {
		Entry   string `json:"entry"`
		Variant int    `json:"variant"`
		Hex     string `json:"input_hex"`
	}
	if _, ok := ev.ReplayCase(&rec); !ok {
		t.Skip("no explicit replay case")
	}
	if _, child := ev.ChildPayload(); child {
		return
	}
	out, abnormal := ev.InChild("TestReplayChild", rec.Entry+"|"+strconv.Itoa(rec.Variant)+"|"+rec.Hex, 2*time.Minute)
	if abnormal || strings.Contains(out, "PROBLEM") {
		t.Fatalf("still fails:\n%s", out[max(0, len(out)-1500):])
	}
}

func TestReplayChild(t *testing.T) {
	payload, ok := ev.ChildPayload()
	if !ok || strings.Count(payload, "|") != 2 || entryByName(strings.Split(payload, "|")[0]) == nil || len(strings.Split(payload, "|")) != 3 {
		t.Skip("child only")
	}
	f := strings.Split(payload, "|")
	if _, err := strconv.Atoi(f[1]); err != nil {
		t.Skip("not a replay payload")
	}
	e := entryByName(f[0])
	v, _ := strconv.Atoi(f[1])
	in, _ := hex.DecodeString(f[2])
	o := measure(func() { e.run(in, v) })
	if p := judge(o, len(in)); p != "" {
		fmt.Println("PROBLEM " + p)
	}
}

func TestFinding(t *testing.T) {
	key := ev.FindingKey()
	if r, ok := reproducers[key]; ok {
		e := entryByName(r.entry)
		out, abnormal := ev.InChild("TestReplayChild", r.entry+"|"+strconv.Itoa(r.variant)+"|"+hex.EncodeToString([]byte(r.input)), 2*time.Minute)
		_ = e
		ev.FindingResult(key, abnormal || strings.Contains(out, "PROBLEM"), fmt.Sprintf("%s %q", r.entry, r.input))
		return
	}
	t.Skip("no open finding " + key)
}

type repro struct {
	entry   string
	variant int
	input   string
}

var reproducers = map[string]repro{
	"count-trusted-in-reader-mode": {"reader", 0, `a99999999999999999999{1}`},
}

var _ = sort.Strings
