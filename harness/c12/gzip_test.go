package c12

import (
	"bytes"
	"compress/gzip"
	"fmt"
	"net"
	"net/http"
	"net/http/httptest"
	"strings"
	"testing"
	"time"

	"github.com/hprose/hprose-golang/v3/rpc"
	"github.com/hprose/hprose-golang/v3/rpc/core"
	"pgregory.net/rapid"
	"verif/hp/echo"
	"verif/hp/ev"
	"verif/hp/tp"
)

// TestCompressingFrontEnd: the service sits behind a front end that compresses responses for clients that
// say they accept gzip (what a reverse proxy with compression switched on does). Whatever the client's
// compression setting, the caller must get the bytes the service produced, not their compressed form.
func gzipFrontEnd(inner http.Handler) http.Handler {
	return http.HandlerFunc(func(w http.ResponseWriter, r *http.Request) {
		if !strings.Contains(r.Header.Get("Accept-Encoding"), "gzip") {
			inner.ServeHTTP(w, r)
			return
		}
		rec := httptest.NewRecorder()
		inner.ServeHTTP(rec, r)
		for k, v := range rec.Header() {
			if k != "Content-Length" {
				w.Header()[k] = v
			}
		}
		var buf bytes.Buffer
		zw := gzip.NewWriter(&buf)
		zw.Write(rec.Body.Bytes())
		zw.Close()
		w.Header().Set("Content-Encoding", "gzip")
		w.Header().Set("Vary", "Accept-Encoding")
		w.Header().Set("Content-Length", fmt.Sprint(buf.Len()))
		w.WriteHeader(rec.Code)
		w.Write(buf.Bytes())
	})
}

func TestCompressingFrontEnd(t *testing.T) {
	setup() // registers the http client transport of this shard
	svc := echo.New()
	l, err := net.Listen("tcp", "127.0.0.1:0")
	if err != nil {
		if tp.ResourceError(err) {
			t.Skip("no port")
		}
		t.Fatal(err)
	}
	srv := &http.Server{}
	if err := svc.Bind(srv); err != nil {
		t.Fatal(err)
	}
	srv.Handler = gzipFrontEnd(srv.Handler)
	go srv.Serve(l)
	defer srv.Close()
	clients := map[bool]*core.Client{}
	for _, on := range []bool{false, true} {
		c := core.NewClient("http://" + l.Addr().String() + "/")
		c.Timeout = 20 * time.Second
		if tp.FastHTTPClient() {
			rpc.FastHTTPTransport(c).SetCompression(on)
		} else {
			rpc.HTTPTransport(c).SetCompression(on)
		}
		clients[on] = c
	}
	ev.Check(t, "compressing-front-end", ev.N(300, 6000), func(rt *rapid.T) {
		on := rapid.Bool().Draw(rt, "clientCompression")
		respLen := genLen(rt, "resp", 300000)
		reqLen := 12 + genLen(rt, "req", 5000)
		text := rapid.Bool().Draw(rt, "compressibleContent")
		seed := rapid.Uint32().Draw(rt, "seed")
		canon := fmt.Sprintf("http client (fasthttp=%v, compression=%v) behind a compressing front end: request %d bytes, response %d bytes, compressible=%v seed=%d", tp.FastHTTPClient(), on, reqLen, respLen, text, seed)
		ev.S.Begin("compressing-front-end", canon)
		var req, want []byte
		if text {
			// a request that is echoed: highly compressible text
			req = []byte("D" + strings.Repeat(fmt.Sprintf("line %d of the payload\n", seed%97), respLen/24+1))
			want = req
		} else {
			req = echo.Request(reqLen, respLen, seed, seed+1)
			want = echo.Gen(seed, respLen)
		}
		got, err := tp.Raw(clients[on], req)
		problem := ""
		switch {
		case err != nil:
			problem = fmt.Sprintf("the call failed: %v", err)
		case len(want) == 0 && string(got) == "Rnz":
			// an empty response of the IO layer is replaced by the null result (the library's convention)
		case !bytes.Equal(got, want):
			problem = fmt.Sprintf("the service produced %d bytes %s, the caller received %d bytes %s", len(want), head(want), len(got), head(got))
		}
		ev.S.Case("compressing-front-end", canon, on, fmt.Sprintf("front-end-client-compression=%v", on), fmt.Sprintf("fasthttp-client=%v", tp.FastHTTPClient()))
		report(rt, "compressing-front-end", "TestCompressingFrontEnd", canon, problem)
	})
}

func head(b []byte) string {
	if len(b) > 12 {
		b = b[:12]
	}
	return fmt.Sprintf("(% x…)", b)
}
