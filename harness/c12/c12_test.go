// C12 — transports deliver exactly the bytes that were sent, or nothing.
package c12

import (
	"bufio"
	"bytes"
	"context"
	"fmt"
	"github.com/fasthttp/websocket"
	"github.com/hprose/hprose-golang/v3/rpc"
	"io"
	"net"
	"net/http"
	"net/url"
	"os"
	"strings"
	"sync"
	"testing"
	"time"

	"github.com/hprose/hprose-golang/v3/rpc/core"
	"pgregory.net/rapid"
	"verif/hp/echo"
	"verif/hp/ev"
	"verif/hp/peer"
	"verif/hp/tp"
	"verif/hp/wire"
)

func TestMain(m *testing.M) { ev.Main(m, "C12") }

const udpMax = 65507 - 8

type endpoint struct {
	kind   string
	svc    *echo.Service
	server *tp.Server
	client *core.Client
	// wrapped (tcp, unix, udp): a client whose OnConnect hook returns a pass-through wrapper around the
	// connection, as a TLS, metering or logging hook would: the transport then holds a plain net.Conn, not
	// the concrete connection type
	wrapped *core.Client
}

type passThrough struct{ net.Conn }

func wrapConn(c net.Conn) net.Conn { return passThrough{c} }

var (
	endpoints []*endpoint
	byKind    = map[string]*endpoint{}
)

func setup() {
	if endpoints != nil {
		return
	}
	for _, kind := range tp.Kinds {
		s := echo.New()
		srv, err := tp.Start(kind, s.Service)
		if err != nil {
			panic(err)
		}
		ep := &endpoint{kind: kind, svc: s, server: srv, client: srv.Client(20 * time.Second)}
		switch kind {
		case "tcp", "unix":
			ep.wrapped = srv.Client(20 * time.Second)
			rpc.SocketTransport(ep.wrapped).OnConnect = wrapConn
		case "udp":
			ep.wrapped = srv.Client(20 * time.Second)
			rpc.UDPTransport(ep.wrapped).OnConnect = wrapConn
		}
		endpoints = append(endpoints, ep)
		byKind[kind] = ep
	}
}

// boundary-biased lengths up to max
func genLen(rt *rapid.T, label string, max int) int {
	boundaries := []int{0, 1, 2, 3, 4, 5, 7, 8, 9, 11, 12, 13, 16, 255, 256, 257, 1011, 1012, 1013, 1020, 1023, 1024, 1025, 1036, 2048, 4083, 4084, 4095, 4096, 4097,
		8191, 8192, 8193, 16384, 32767, 32768, 65487, 65491, 65495, 65498, 65499, 65500, 65503, 65507, 65508, 65535, 65536, 65537, 131072, 262143, 262144, 1 << 20, 1<<20 + 1}
	var ok []int
	for _, b := range boundaries {
		if b <= max {
			ok = append(ok, b)
		}
	}
	switch rapid.IntRange(0, 5).Draw(rt, label+"Mode") {
	case 0, 1:
		b := rapid.SampledFrom(ok).Draw(rt, label+"Boundary") + rapid.IntRange(-2, 2).Draw(rt, label+"Delta")
		if b < 0 {
			b = 0
		}
		if b > max {
			b = max
		}
		return b
	case 2:
		return rapid.IntRange(0, 64).Draw(rt, label+"Small")
	case 3:
		return rapid.IntRange(0, 5000).Draw(rt, label+"Mid")
	default:
		return rapid.IntRange(0, max).Draw(rt, label)
	}
}

func fill(kind string, content string, n int, seed uint32) []byte {
	switch content {
	case "zeros":
		return make([]byte, n)
	case "ff":
		return bytes.Repeat([]byte{0xff}, n)
	case "too-large-text":
		return []byte((strings.Repeat(core.RequestEntityTooLarge, n/len(core.RequestEntityTooLarge)+1))[:n])
	case "header-lookalike":
		// valid frame headers of every transport announcing large bodies, repeated
		unit := append(wire.SocketHeader(1<<20, 1, false), wire.UDPHeader(60000, 1, false)...)
		unit = append(unit, wire.WSHeader(1, true)...)
		return bytes.Repeat(unit, n/len(unit)+1)[:n]
	}
	return echo.Gen(seed, n)
}

type rtCase struct {
	ep       *endpoint
	reqLen   int
	respLen  int
	content  string
	seed     uint32
	overUDP  bool
	echoMode bool
	wrapped  bool
}

func (c rtCase) String() string {
	w := ""
	if c.wrapped {
		w = " connection wrapped by an OnConnect hook"
	}
	return fmt.Sprintf("%s request=%d bytes (%s) response=%d bytes seed=%d fasthttp-client=%v%s", c.ep.kind, c.reqLen, c.content, c.respLen, c.seed, tp.FastHTTPClient(), w)
}

func (c rtCase) build() (req, wantResp []byte) {
	if c.echoMode {
		req = fill(c.ep.kind, c.content, c.reqLen, c.seed)
		if len(req) >= 4 && string(req[:4]) == string(echo.Magic) {
			req[0] ^= 1
		}
		if len(req) > 0 && req[0] == 'C' {
			req[0] = 'D'
		}
		return req, produced(req)
	}
	req = echo.Request(c.reqLen, c.respLen, c.seed+1, c.seed)
	copy(req[12:], fill(c.ep.kind, c.content, c.reqLen-12, c.seed))
	return req, produced(echo.Gen(c.seed+1, c.respLen))
}

// produced: Service.Handle replaces an empty response of the IO chain by an encoded null.
func produced(b []byte) []byte {
	if len(b) == 0 {
		return []byte("Rnz")
	}
	return b
}

func firstDiff(a, b []byte) string {
	n := len(a)
	if len(b) < n {
		n = len(b)
	}
	for i := 0; i < n; i++ {
		if a[i] != b[i] {
			return fmt.Sprintf("lengths %d vs %d, first difference at offset %d (%#x vs %#x)", len(a), len(b), i, a[i], b[i])
		}
	}
	return fmt.Sprintf("lengths %d vs %d, common prefix equal", len(a), len(b))
}

var serial sync.Mutex

// mine spreads enumerated cases over the shards.
var enumK int

func mine() bool {
	enumK++
	return ev.S.NShards <= 1 || enumK%ev.S.NShards == ev.S.Shard
}

func report(rt interface{ Fatalf(string, ...interface{}) }, sub, test, canon, problem string) {
	if problem == "" {
		return
	}
	if key := classify(canon, problem); key != "" {
		ev.S.Exclude(key, canon+" => "+problem)
		return
	}
	if os.Getenv("VERIF_TRIAGE") != "" {
		fmt.Printf("TRIAGE %s | %s\n", strings.ReplaceAll(problem, "\n", " // "), canon)
		return
	}
	ev.S.Violation(sub, test, canon, problem, nil)
	rt.Fatalf("%s\n=> %s", canon, problem)
}

func classify(canon, problem string) string { return "" }

// sentinel: a small exact round trip on the same client
func sentinel(ep *endpoint, seed uint32) string {
	req := echo.Request(40, 33, seed+7, seed+9)
	ep.svc.Take()
	resp, err := tp.Raw(ep.client, req)
	seen, _, _ := ep.svc.Take()
	if err != nil {
		return fmt.Sprintf("the next small request on the same client failed: %v", err)
	}
	if len(seen) != 1 || !bytes.Equal(seen[0], req) {
		return fmt.Sprintf("the next small request on the same client reached the service changed (%d deliveries)", len(seen))
	}
	if !bytes.Equal(resp, echo.Gen(seed+7, 33)) {
		return fmt.Sprintf("the next small response on the same client came back changed: %s", firstDiff(echo.Gen(seed+7, 33), resp))
	}
	return ""
}

func TestRoundTrip(t *testing.T) {
	setup()
	ev.Check(t, "round-trip", ev.N(4000, 2000000), func(rt *rapid.T) {
		c := rtCase{ep: rapid.SampledFrom(endpoints).Draw(rt, "endpoint")}
		max := 1<<20 + 8
		if ev.Thorough() && rapid.IntRange(0, 40).Draw(rt, "huge") == 0 {
			max = 9 << 20
		}
		if c.ep.kind == "udp" {
			max = udpMax + 12
		}
		c.reqLen = genLen(rt, "req", max)
		c.respLen = genLen(rt, "resp", max)
		c.content = rapid.SampledFrom([]string{"random", "random", "zeros", "ff", "header-lookalike", "too-large-text"}).Draw(rt, "content")
		c.seed = rapid.Uint32().Draw(rt, "seed")
		c.echoMode = c.reqLen < 12 || rapid.IntRange(0, 5).Draw(rt, "echo") == 0
		if c.echoMode {
			c.respLen = c.reqLen
		}
		c.overUDP = c.ep.kind == "udp" && (c.reqLen > udpMax || c.respLen > udpMax)
		c.wrapped = c.ep.wrapped != nil && rapid.IntRange(0, 2).Draw(rt, "wrappedConn") == 0
		canon := c.String()
		ev.S.Begin("round-trip", canon)
		serial.Lock()
		defer serial.Unlock()
		req, want := c.build()
		c.ep.svc.Take()
		client := c.ep.client
		if c.wrapped {
			client = c.ep.wrapped
		}
		resp, err := tp.Raw(client, req)
		seen, _, _ := c.ep.svc.Take()
		problem := ""
		switch {
		case c.overUDP:
			// beyond what a datagram carries: an error, and the service saw nothing or the exact request
			if err == nil {
				problem = fmt.Sprintf("a message beyond the datagram limit was answered without error (%d response bytes, expected %d)", len(resp), len(want))
			} else if len(seen) > 1 || (len(seen) == 1 && !bytes.Equal(seen[0], req)) {
				problem = fmt.Sprintf("over-limit request reached the service changed: %s", firstDiff(req, seen[0]))
			}
		case err != nil:
			problem = fmt.Sprintf("request within the transport's limit failed: %v", err)
		case len(seen) != 1:
			problem = fmt.Sprintf("the service was handed %d requests for one submitted", len(seen))
		case !bytes.Equal(seen[0], req):
			problem = "the service was handed different bytes than the client submitted: " + firstDiff(req, seen[0])
		case !bytes.Equal(resp, want):
			problem = "the caller received different bytes than the service produced: " + firstDiff(want, resp)
		}
		if problem == "" && rapid.IntRange(0, 3).Draw(rt, "sentinel") == 0 || c.overUDP && problem == "" {
			if c.overUDP {
				time.Sleep(5 * time.Millisecond)
			}
			problem = sentinel(c.ep, c.seed)
			if problem != "" && c.overUDP {
				problem = "after an over-limit message: " + problem
			}
		}
		big := "small"
		if c.reqLen > 4096 || c.respLen > 4096 {
			big = "multi-buffer"
		}
		ev.S.Case("round-trip", canon, c.reqLen > 0 || c.respLen > 0, "rt="+c.ep.kind, "content="+c.content, "size="+big, fmt.Sprintf("over-datagram=%v", c.overUDP), fmt.Sprintf("echo=%v", c.echoMode))
		report(rt, "round-trip", "TestRoundTrip", canon, problem)
	})
}

// TestEveryLength sweeps every length in the boundary windows, both directions, on every transport.
func TestEveryLength(t *testing.T) {
	setup()
	windows := [][2]int{{0, 40}, {250, 260}, {1000, 1040}, {4080, 4100}, {8180, 8200}, {65480, 65540}}
	if ev.Thorough() {
		windows = [][2]int{{0, 300}, {990, 1060}, {2040, 2060}, {4070, 4110}, {8170, 8210}, {16370, 16400}, {32750, 32790}, {65470, 65560}, {131060, 131090}, {1<<20 - 20, 1<<20 + 20}}
	}
	shard, nshards := ev.S.Shard, ev.S.NShards
	k := 0
	for _, ep := range endpoints {
		for _, w := range windows {
			for n := w[0]; n <= w[1]; n++ {
				for _, dir := range []string{"request", "response"} {
					k++
					if nshards > 1 && k%nshards != shard {
						continue
					}
					c := rtCase{ep: ep, content: "random", seed: uint32(n*2654435761) + 17}
					if dir == "request" {
						c.reqLen, c.respLen = n, 5
						if n < 12 {
							c.echoMode, c.respLen = true, n
						}
					} else {
						c.reqLen, c.respLen = 12, n
					}
					over := ep.kind == "udp" && n > udpMax
					canon := fmt.Sprintf("%s %s of exactly %d bytes", ep.kind, dir, n)
					ev.S.Begin("every-length", canon)
					req, want := c.build()
					ep.svc.Take()
					resp, err := tp.Raw(ep.client, req)
					seen, _, _ := ep.svc.Take()
					problem := ""
					switch {
					case over:
						if err == nil {
							problem = "a message beyond the datagram limit was answered without error"
						} else {
							time.Sleep(2 * time.Millisecond)
							if p := sentinel(ep, c.seed); p != "" {
								problem = "after an over-limit message: " + p
							}
						}
					case err != nil:
						problem = fmt.Sprintf("failed: %v", err)
					case len(seen) != 1 || !bytes.Equal(seen[0], req):
						problem = fmt.Sprintf("the service was handed %d requests; %s", len(seen), firstDiff(req, append(seen, nil)[0]))
					case !bytes.Equal(resp, want):
						problem = "the caller received different bytes than the service produced: " + firstDiff(want, resp)
					}
					ev.S.Case("every-length", canon, n > 0, "sweep="+ep.kind)
					report(t, "every-length", "TestEveryLength", canon, problem)
				}
			}
		}
	}
	ev.S.Exhaustive("every-length", true)
}

// TestConcurrentPayloads: different payloads in flight at once on one client; nobody may receive bytes
// of another message.
func TestConcurrentPayloads(t *testing.T) {
	setup()
	ev.Check(t, "concurrent-payloads", ev.N(300, 60000), func(rt *rapid.T) {
		ep := rapid.SampledFrom(endpoints).Draw(rt, "endpoint")
		n := rapid.IntRange(2, 10).Draw(rt, "n")
		max := 200000
		if ep.kind == "udp" {
			// keep what is in flight at once below the socket buffers: datagrams that do not fit are dropped by the kernel
			max = 100000 / n
		}
		cases := make([]rtCase, n)
		for i := range cases {
			cases[i] = rtCase{ep: ep, reqLen: 12 + genLen(rt, "req", max-12), respLen: genLen(rt, "resp", max), content: "random", seed: rapid.Uint32().Draw(rt, "seed")}
		}
		canon := fmt.Sprintf("%s %d concurrent raw requests, first: %s", ep.kind, n, cases[0])
		ev.S.Begin("concurrent-payloads", canon)
		serial.Lock()
		defer serial.Unlock()
		ep.svc.Take()
		problems := make([]string, n)
		lost := make([]bool, n)
		reqs := make([][]byte, n)
		var wg sync.WaitGroup
		for i := range cases {
			req, want := cases[i].build()
			reqs[i] = req
			wg.Add(1)
			go func(i int) {
				defer wg.Done()
				resp, err := tp.Raw(ep.client, req)
				if err != nil && ep.kind == "udp" && core.IsTimeoutError(err) {
					lost[i] = true // a dropped datagram is "nothing"
				} else if err != nil {
					problems[i] = fmt.Sprintf("request %d failed: %v", i, err)
				} else if !bytes.Equal(resp, want) {
					problems[i] = fmt.Sprintf("caller %d received bytes that are not its response: %s", i, firstDiff(want, resp))
				}
			}(i)
		}
		wg.Wait()
		seen, _, _ := ep.svc.Take()
		problem := ""
		for _, p := range problems {
			if p != "" {
				problem = p
				break
			}
		}
		nLost := 0
		for _, l := range lost {
			if l {
				nLost++
			}
		}
		if nLost > 0 {
			ev.S.Class("udp-datagram-lost", int64(nLost))
		}
		if problem == "" {
			if len(seen) > n || len(seen) < n-nLost {
				problem = fmt.Sprintf("%d requests submitted (%d timed out), the service was handed %d", n, nLost, len(seen))
			} else {
				left := map[string]int{}
				for _, r := range reqs {
					left[string(r)]++
				}
				for _, s := range seen {
					if left[string(s)] == 0 {
						problem = fmt.Sprintf("the service was handed a %d-byte request nobody submitted", len(s))
						break
					}
					left[string(s)]--
				}
			}
		}
		ev.S.Case("concurrent-payloads", canon, true, "concurrent="+ep.kind)
		report(rt, "concurrent-payloads", "TestConcurrentPayloads", canon, problem)
	})
}

// ---- hand-crafted frames against the real server

func dialStream(ep *endpoint) (net.Conn, error) {
	u, _ := url.Parse(ep.server.URL)
	if ep.kind == "unix" {
		return net.DialTimeout("unix", u.Path, 2*time.Second)
	}
	return net.DialTimeout("tcp", u.Host, 2*time.Second)
}

// readSocketFrame reads one frame with a deadline; ok=false on timeout/close.
func readSocketFrame(c net.Conn, d time.Duration) (index int, body []byte, errFlag, ok bool) {
	c.SetReadDeadline(time.Now().Add(d))
	h := make([]byte, 12)
	if _, err := io.ReadFull(c, h); err != nil {
		return
	}
	length, index, errFlag, crc := wire.ParseSocketHeader(h)
	if !crc {
		return
	}
	body = make([]byte, length)
	if _, err := io.ReadFull(c, body); err != nil {
		return
	}
	return index, body, errFlag, true
}

func waitSeen(s *echo.Service, d time.Duration) [][]byte {
	deadline := time.Now().Add(d)
	var all [][]byte
	for {
		seen, _, _ := s.Take()
		all = append(all, seen...)
		if len(all) > 0 || time.Now().After(deadline) {
			return all
		}
		time.Sleep(time.Millisecond)
	}
}

// TestSocketHeaderBits: every single-bit corruption of a frame header sent to the real service over tcp
// and unix; nothing may be delivered and no success response may come back.
func TestSocketHeaderBits(t *testing.T) {
	setup()
	for _, kind := range []string{"tcp", "unix"} {
		ep := byKind[kind]
		for _, bodyLen := range []int{12, 40, 300} {
			for bit := 0; bit < 96; bit++ {
				if !mine() {
					continue
				}
				canon := fmt.Sprintf("%s frame with body of %d bytes, header bit %d flipped", kind, bodyLen, bit)
				ev.S.Begin("socket-header-bits", canon)
				serial.Lock()
				req := echo.Request(bodyLen, 20, 5, uint32(bit))
				frame := wire.SocketFrame(3, req, false)
				frame[bit/8] ^= 1 << uint(bit%8)
				ep.svc.Take()
				problem := ""
				c, err := dialStream(ep)
				if err != nil {
					serial.Unlock()
					t.Fatalf("dial: %v", err)
				}
				c.Write(frame)
				_, body, errFlag, ok := readSocketFrame(c, 150*time.Millisecond)
				seen := waitSeen(ep.svc, 20*time.Millisecond)
				c.Close()
				if len(seen) > 0 {
					problem = fmt.Sprintf("the service was handed a %d-byte request from a frame with a corrupted header: %s", len(seen[0]), firstDiff(req, seen[0]))
				} else if ok && !errFlag {
					problem = fmt.Sprintf("a success response (%d bytes) came back for a frame with a corrupted header", len(body))
				}
				serial.Unlock()
				ev.S.Case("socket-header-bits", canon, true, "header-bits="+kind)
				report(t, "socket-header-bits", "TestSocketHeaderBits", canon, problem)
			}
		}
		if p := sentinel(ep, 99); p != "" {
			report(t, "socket-header-bits", "TestSocketHeaderBits", kind+" after all corrupted frames", p)
		}
	}
	ev.S.Exhaustive("socket-header-bits", true)
}

// TestSocketDeclaredLength: declared length larger than what is sent before the peer closes or stalls:
// never delivered.
func TestSocketDeclaredLength(t *testing.T) {
	setup()
	for _, kind := range []string{"tcp", "unix"} {
		ep := byKind[kind]
		for _, actual := range []int{0, 1, 11, 12, 100, 1012, 1013, 5000} {
			for _, extra := range []int{1, 2, 12, 13, 1024, 100000} {
				for _, ending := range []string{"close", "half-close", "stall"} {
					if !mine() {
						continue
					}
					canon := fmt.Sprintf("%s frame declaring %d bytes, %d sent, then %s", kind, actual+extra, actual, ending)
					ev.S.Begin("socket-declared-length", canon)
					serial.Lock()
					ep.svc.Take()
					body := echo.Gen(uint32(actual+extra), actual)
					c, err := dialStream(ep)
					if err != nil {
						serial.Unlock()
						t.Fatalf("dial: %v", err)
					}
					c.Write(append(wire.SocketHeader(actual+extra, 1, false), body...))
					switch ending {
					case "close":
						c.Close()
					case "half-close":
						if cw, ok := c.(interface{ CloseWrite() error }); ok {
							cw.CloseWrite()
						}
					}
					seen := waitSeen(ep.svc, 30*time.Millisecond)
					c.Close()
					problem := ""
					if len(seen) > 0 {
						problem = fmt.Sprintf("the service was handed %d bytes although only %d of the declared %d were sent", len(seen[0]), actual, actual+extra)
					}
					serial.Unlock()
					ev.S.Case("socket-declared-length", canon, true, "declared="+kind+"/"+ending)
					report(t, "socket-declared-length", "TestSocketDeclaredLength", canon, problem)
				}
			}
		}
		// bodies over 1 MiB are read incrementally: the same must hold around that boundary
		for _, declared := range []int{1 << 20, 1<<20 + 1, 1<<20 + 4096, 3 << 20} {
			for _, missing := range []int{1, 100, declared / 2} {
				for _, ending := range []string{"close", "half-close"} {
					if !mine() {
						continue
					}
					actual := declared - missing
					canon := fmt.Sprintf("%s frame declaring %d bytes, %d sent, then %s", kind, declared, actual, ending)
					ev.S.Begin("socket-declared-length", canon)
					serial.Lock()
					ep.svc.Take()
					body := echo.Gen(uint32(declared+missing), actual)
					c, err := dialStream(ep)
					if err != nil {
						serial.Unlock()
						t.Fatalf("dial: %v", err)
					}
					c.Write(append(wire.SocketHeader(declared, 1, false), body...))
					if ending == "close" {
						c.Close()
					} else if cw, ok := c.(interface{ CloseWrite() error }); ok {
						cw.CloseWrite()
					}
					seen := waitSeen(ep.svc, 60*time.Millisecond)
					c.Close()
					problem := ""
					if len(seen) > 0 {
						problem = fmt.Sprintf("the service was handed %d bytes although only %d of the declared %d were sent", len(seen[0]), actual, declared)
					}
					serial.Unlock()
					ev.S.Case("socket-declared-length", canon, true, "declared="+kind+"/large/"+ending)
					report(t, "socket-declared-length", "TestSocketDeclaredLength", canon, problem)
				}
			}
		}
		// declared == actual is delivered exactly
		for _, n := range []int{0, 1, 12, 1012, 1013, 70000, 1 << 20, 1<<20 + 1, 3 << 20} {
			canon := fmt.Sprintf("%s hand-made frame declaring and carrying %d bytes", kind, n)
			ev.S.Begin("socket-declared-length", canon)
			serial.Lock()
			ep.svc.Take()
			body := echo.Gen(uint32(n), n)
			if n > 0 && body[0] == 'C' {
				body[0] = 'D'
			}
			c, _ := dialStream(ep)
			c.Write(wire.SocketFrame(9, body, false))
			idx, resp, errFlag, ok := readSocketFrame(c, 2*time.Second)
			seen := waitSeen(ep.svc, 50*time.Millisecond)
			c.Close()
			problem := ""
			if !ok || errFlag || idx != 9 || !bytes.Equal(resp, produced(body)) || len(seen) != 1 || !bytes.Equal(seen[0], body) {
				problem = fmt.Sprintf("a well-formed hand-made frame was not echoed exactly (ok=%v err=%v index=%d, %d deliveries, %s)", ok, errFlag, idx, len(seen), firstDiff(body, resp))
			}
			serial.Unlock()
			ev.S.Case("socket-declared-length", canon, true, "declared="+kind+"/exact")
			report(t, "socket-declared-length", "TestSocketDeclaredLength", canon, problem)
		}
	}
	ev.S.Exhaustive("socket-declared-length", true)
}

// TestUDPDatagrams: header bit flips and every combination of declared versus actual length, with a
// second "client" whose earlier long datagram must never show up in what the service is handed.
func TestUDPDatagrams(t *testing.T) {
	setup()
	ep := byKind["udp"]
	u, _ := url.Parse(ep.server.URL)
	addr, _ := net.ResolveUDPAddr("udp", u.Host)
	dial := func() *net.UDPConn {
		c, err := net.DialUDP("udp", nil, addr)
		if err != nil {
			t.Fatalf("dial udp: %v", err)
		}
		return c
	}
	readResp := func(c *net.UDPConn, d time.Duration) (index int, body []byte, errFlag, ok bool) {
		c.SetReadDeadline(time.Now().Add(d))
		buf := make([]byte, 65536)
		n, err := c.Read(buf)
		if err != nil || n < 8 {
			return
		}
		length, index, errFlag, crc := wire.ParseUDPHeader(buf[:8])
		if !crc || length != n-8 {
			return index, buf[8:n], errFlag, false
		}
		return index, buf[8:n], errFlag, true
	}
	secret := bytes.Repeat([]byte("SECRET-OF-CLIENT-A/"), 3000)[:50000]
	plant := func() {
		a := dial()
		defer a.Close()
		a.Write(wire.UDPFrame(1, secret, false))
		readResp(a, 500*time.Millisecond)
		ep.svc.Take()
	}
	// header bit flips
	for _, bodyLen := range []int{12, 200} {
		for bit := 0; bit < 64; bit++ {
			if !mine() {
				continue
			}
			canon := fmt.Sprintf("udp datagram with body of %d bytes, header bit %d flipped", bodyLen, bit)
			ev.S.Begin("udp-datagrams", canon)
			serial.Lock()
			ep.svc.Take()
			req := echo.Request(bodyLen, 20, 5, uint32(bit))
			frame := wire.UDPFrame(3, req, false)
			frame[bit/8] ^= 1 << uint(bit%8)
			c := dial()
			c.Write(frame)
			_, body, errFlag, ok := readResp(c, 60*time.Millisecond)
			seen := waitSeen(ep.svc, 10*time.Millisecond)
			c.Close()
			problem := ""
			if len(seen) > 0 {
				problem = fmt.Sprintf("the service was handed a %d-byte request from a datagram with a corrupted header: %s", len(seen[0]), firstDiff(req, seen[0]))
			} else if ok && !errFlag {
				problem = fmt.Sprintf("a success response (%d bytes) came back for a datagram with a corrupted header", len(body))
			}
			serial.Unlock()
			ev.S.Case("udp-datagrams", canon, true, "udp=header-bit")
			report(t, "udp-datagrams", "TestUDPDatagrams", canon, problem)
		}
	}
	// declared versus actual
	lens := []int{0, 1, 7, 8, 12, 13, 100, 1000, 30000, 65499}
	for _, actual := range lens {
		for _, declared := range append([]int{actual - 1, actual + 1, actual + 8, 65535}, lens...) {
			if declared < 0 || declared > 65535 {
				continue
			}
			if !mine() {
				continue
			}
			canon := fmt.Sprintf("udp datagram declaring %d bytes and carrying %d (after another client's 50000-byte datagram)", declared, actual)
			ev.S.Begin("udp-datagrams", canon)
			serial.Lock()
			plant()
			body := echo.Gen(uint32(actual*7+declared), actual)
			if actual > 0 && body[0] == 'C' {
				body[0] = 'D'
			}
			if actual >= 4 && string(body[:4]) == string(echo.Magic) {
				body[1] = 'x'
			}
			c := dial()
			c.Write(append(wire.UDPHeader(declared, 2, false), body...))
			_, resp, errFlag, ok := readResp(c, 80*time.Millisecond)
			seen := waitSeen(ep.svc, 15*time.Millisecond)
			c.Close()
			problem := ""
			switch {
			case declared == actual:
				if len(seen) != 1 || !bytes.Equal(seen[0], body) || !ok || errFlag || !bytes.Equal(resp, produced(body)) {
					problem = fmt.Sprintf("a consistent datagram was not echoed exactly (%d deliveries, ok=%v err=%v)", len(seen), ok, errFlag)
				}
			case len(seen) > 0:
				what := "truncated"
				if len(seen[0]) > actual {
					what = "padded"
					if bytes.Contains(seen[0], []byte("SECRET-OF-CLIENT-A")) {
						what = "completed with bytes of another client's datagram"
					}
				}
				problem = fmt.Sprintf("the service was handed %d bytes, %s, from a datagram that declared %d and carried %d", len(seen[0]), what, declared, actual)
			case ok && !errFlag:
				problem = fmt.Sprintf("a success response came back for a datagram that declared %d bytes and carried %d", declared, actual)
			}
			serial.Unlock()
			ev.S.Case("udp-datagrams", canon, true, fmt.Sprintf("udp=declared-%s", cmp(declared, actual)))
			report(t, "udp-datagrams", "TestUDPDatagrams", canon, problem)
		}
	}
	if p := sentinel(ep, 77); p != "" {
		report(t, "udp-datagrams", "TestUDPDatagrams", "udp after all malformed datagrams", p)
	}
	ev.S.Exhaustive("udp-datagrams", true)
}

func cmp(a, b int) string {
	switch {
	case a < b:
		return "smaller"
	case a > b:
		return "larger"
	}
	return "equal"
}

// TestHTTPBodies: Content-Length larger than the body actually sent, chunked bodies, exact bodies, on
// the net/http and fasthttp servers (and the plain-http side of the websocket handlers).
func TestHTTPBodies(t *testing.T) {
	setup()
	for _, kind := range []string{"http", "fasthttp", "ws", "wsfast"} {
		ep := byKind[kind]
		u, _ := url.Parse(ep.server.URL)
		for _, actual := range []int{0, 1, 12, 100, 4000, 70000} {
			for _, decl := range []string{"exact", "chunked", "larger+1", "larger+100", "larger+100000", "exact/limit-below", "chunked/limit-below", "chunked/limit-just-below"} {
				for _, ending := range []string{"close", "half-close"} {
					limit := 0
					if i := strings.Index(decl, "/limit-"); i > 0 {
						// the service's MaxRequestLength is set below the body size: nothing or the exact bytes
						limit = actual / 2
						if strings.HasSuffix(decl, "just-below") {
							limit = actual - 1
						}
						if actual < 12 {
							continue
						}
					}
					if (strings.HasPrefix(decl, "exact") || strings.HasPrefix(decl, "chunked")) && ending == "close" {
						continue
					}
					if !mine() {
						continue
					}
					canon := fmt.Sprintf("%s server: POST carrying %d body bytes, length declared %s, then %s", kind, actual, decl, ending)
					ev.S.Begin("http-bodies", canon)
					serial.Lock()
					ep.svc.Take()
					if limit > 0 {
						ep.svc.MaxRequestLength = limit
						decl = decl[:strings.Index(decl, "/")]
					}
					body := echo.Gen(uint32(actual*3+len(decl)), actual)
					if actual > 0 && body[0] == 'C' {
						body[0] = 'D'
					}
					if actual >= 4 && string(body[:4]) == string(echo.Magic) {
						body[1] = 'x'
					}
					c, err := net.DialTimeout("tcp", u.Host, 2*time.Second)
					if err != nil {
						serial.Unlock()
						t.Fatalf("dial: %v", err)
					}
					var req bytes.Buffer
					fmt.Fprintf(&req, "POST / HTTP/1.1\r\nHost: %s\r\n", u.Host)
					switch decl {
					case "exact":
						fmt.Fprintf(&req, "Content-Length: %d\r\n\r\n", actual)
						req.Write(body)
					case "chunked":
						req.WriteString("Transfer-Encoding: chunked\r\n\r\n")
						for off := 0; off < actual; off += 1000 {
							end := off + 1000
							if end > actual {
								end = actual
							}
							fmt.Fprintf(&req, "%x\r\n", end-off)
							req.Write(body[off:end])
							req.WriteString("\r\n")
						}
						req.WriteString("0\r\n\r\n")
					default:
						var extra int
						fmt.Sscanf(decl, "larger+%d", &extra)
						fmt.Fprintf(&req, "Content-Length: %d\r\n\r\n", actual+extra)
						req.Write(body)
					}
					c.Write(req.Bytes())
					if ending == "close" {
						c.Close()
					} else {
						c.(*net.TCPConn).CloseWrite()
					}
					status, respBody := 0, []byte(nil)
					if ending != "close" {
						c.SetReadDeadline(time.Now().Add(500 * time.Millisecond))
						if resp, err := http.ReadResponse(bufio.NewReader(c), nil); err == nil {
							status = resp.StatusCode
							respBody, _ = io.ReadAll(resp.Body)
							resp.Body.Close()
						}
					}
					seen := waitSeen(ep.svc, 30*time.Millisecond)
					c.Close()
					problem := ""
					if limit > 0 {
						ep.svc.MaxRequestLength = 0x7FFFFFFF
						if len(seen) > 0 && !bytes.Equal(seen[0], body) {
							problem = fmt.Sprintf("with MaxRequestLength=%d the service was handed %d bytes of a %d-byte body (status %d): %s", limit, len(seen[0]), actual, status, firstDiff(body, seen[0]))
						}
					} else if decl == "exact" || decl == "chunked" {
						if len(seen) != 1 || !bytes.Equal(seen[0], body) || status != 200 || !bytes.Equal(respBody, produced(body)) {
							d := ""
							if len(seen) == 1 {
								d = firstDiff(body, seen[0])
							}
							problem = fmt.Sprintf("a complete body was not delivered and echoed exactly (status %d, %d deliveries %s)", status, len(seen), d)
						}
					} else if len(seen) > 0 {
						problem = fmt.Sprintf("the service was handed %d bytes (status %d) although the body ended after %d of the declared bytes: %s", len(seen[0]), status, actual, firstDiff(body, seen[0]))
					}
					serial.Unlock()
					ev.S.Case("http-bodies", canon, true, "http-body="+kind+"/"+decl)
					report(t, "http-bodies", "TestHTTPBodies", canon, problem)
				}
			}
		}
	}
	ev.S.Exhaustive("http-bodies", true)
}

// TestWebSocketFragments: a conforming websocket peer that is not the hprose client: it sends each request as a
// message split into fragments of 1..7 bytes (the 4-byte index header then straddles frames), and messages shorter
// than the header. The service must be handed exactly the body, the answer must carry the request's index, and a
// message without a complete header must never be delivered or answered as a success.
func TestWebSocketFragments(t *testing.T) {
	setup()
	for _, kind := range []string{"ws", "wsfast"} {
		ep := byKind[kind]
		for _, frag := range []int{1, 2, 3, 4, 5, 7, 64, 4096} {
			for _, bodyLen := range []int{0, 1, 3, 12, 100, 5000} {
				if !mine() {
					continue
				}
				canon := fmt.Sprintf("%s: request of %d body bytes sent as websocket fragments of %d bytes", kind, bodyLen, frag)
				ev.S.Begin("ws-fragments", canon)
				serial.Lock()
				body := echo.Gen(uint32(bodyLen*31+frag), bodyLen)
				if bodyLen > 0 && body[0] == 'C' {
					body[0] = 'D'
				}
				if bodyLen >= 4 && string(body[:4]) == string(echo.Magic) {
					body[1] = 'x'
				}
				ep.svc.Take()
				problem := ""
				d := websocket.Dialer{Subprotocols: []string{"hprose"}, HandshakeTimeout: 2 * time.Second, WriteBufferSize: frag}
				c, _, err := d.Dial(ep.server.URL, nil)
				if err != nil {
					serial.Unlock()
					t.Fatalf("ws dial: %v", err)
				}
				const index = 0x01020304
				w, err := c.NextWriter(websocket.BinaryMessage)
				if err == nil {
					_, err = w.Write(wire.WSFrame(index, body, false))
					if err == nil {
						err = w.Close()
					}
				}
				if err != nil {
					problem = "harness: cannot send: " + err.Error()
				}
				c.SetReadDeadline(time.Now().Add(time.Second))
				mt, msg, rerr := c.ReadMessage()
				seen := waitSeen(ep.svc, 20*time.Millisecond)
				c.Close()
				switch {
				case problem != "":
				case len(seen) != 1 || !bytes.Equal(seen[0], body):
					d := ""
					if len(seen) > 0 {
						d = firstDiff(body, seen[0])
					}
					problem = fmt.Sprintf("the service was handed %d requests for one fragmented message; %s", len(seen), d)
				case rerr != nil || mt != websocket.BinaryMessage || len(msg) < 4:
					problem = fmt.Sprintf("no answer to a fragmented request: %v", rerr)
				default:
					idx, errFlag := wire.ParseWSHeader(msg[:4])
					if idx != index || errFlag || !bytes.Equal(msg[4:], produced(body)) {
						problem = fmt.Sprintf("the answer carries index %#x (error flag %v, %d body bytes) for the request with index %#x", idx, errFlag, len(msg)-4, index)
					}
				}
				serial.Unlock()
				ev.S.Case("ws-fragments", canon, true, "ws-fragments="+kind)
				if !strings.HasPrefix(problem, "harness:") {
					report(t, "ws-fragments", "TestWebSocketFragments", canon, problem)
				}
			}
		}
		for short := 0; short < 4; short++ {
			if !mine() {
				continue
			}
			canon := fmt.Sprintf("%s: binary message of %d bytes (shorter than the index header)", kind, short)
			ev.S.Begin("ws-fragments", canon)
			serial.Lock()
			ep.svc.Take()
			d := websocket.Dialer{Subprotocols: []string{"hprose"}, HandshakeTimeout: 2 * time.Second}
			c, _, err := d.Dial(ep.server.URL, nil)
			if err != nil {
				serial.Unlock()
				t.Fatalf("ws dial: %v", err)
			}
			c.WriteMessage(websocket.BinaryMessage, []byte{1, 2, 3}[:short])
			c.SetReadDeadline(time.Now().Add(150 * time.Millisecond))
			mt, msg, rerr := c.ReadMessage()
			seen := waitSeen(ep.svc, 20*time.Millisecond)
			c.Close()
			problem := ""
			if len(seen) > 0 {
				problem = fmt.Sprintf("the service was handed a %d-byte request from a message without a complete header", len(seen[0]))
			} else if rerr == nil && mt == websocket.BinaryMessage && len(msg) >= 4 {
				if _, errFlag := wire.ParseWSHeader(msg[:4]); !errFlag {
					problem = fmt.Sprintf("a message without a complete header was answered with a success response of %d bytes", len(msg)-4)
				}
			}
			serial.Unlock()
			ev.S.Case("ws-fragments", canon, true, "ws-short="+kind)
			report(t, "ws-fragments", "TestWebSocketFragments", canon, problem)
		}
		if p := sentinel(ep, 55); p != "" {
			report(t, "ws-fragments", "TestWebSocketFragments", kind+" after the fragmented and short messages", p)
		}
	}
	ev.S.Exhaustive("ws-fragments", true)
}

// ---- hand-crafted responses against the real client

// TestClientSideFrames: a scripted peer answers with corrupted headers or inconsistent lengths; the
// caller must get an error (or time out), never bytes.
func TestClientSideFrames(t *testing.T) {
	type variant struct {
		name string
		make func(kind string, index int, body []byte) []byte // nil = not applicable
	}
	var variants []variant
	for bit := 0; bit < 96; bit++ {
		bit := bit
		variants = append(variants, variant{fmt.Sprintf("header bit %d flipped", bit), func(kind string, index int, body []byte) []byte {
			var f []byte
			switch kind {
			case "tcp", "unix":
				f = wire.SocketFrame(index, body, false)
			case "udp":
				if bit >= 64 {
					return nil
				}
				f = wire.UDPFrame(index, body, false)
			default:
				return nil
			}
			f[bit/8] ^= 1 << uint(bit%8)
			return f
		}})
	}
	for _, d := range []int{-1000, -12, -1, 1, 8, 1000} {
		d := d
		variants = append(variants, variant{fmt.Sprintf("declared length off by %+d", d), func(kind string, index int, body []byte) []byte {
			if kind != "udp" || len(body)+d < 0 {
				return nil
			}
			return append(wire.UDPHeader(len(body)+d, index, false), body...)
		}})
	}
	variants = append(variants, variant{"declared length larger than sent, then close", func(kind string, index int, body []byte) []byte {
		if kind != "tcp" && kind != "unix" {
			return nil
		}
		return append(wire.SocketHeader(len(body)+50, index, false), body...)
	}})
	for _, declared := range []int{1<<20 + 1, 2 << 20} {
		for _, missing := range []int{1, 100, 1 << 19} {
			declared, missing := declared, missing
			variants = append(variants, variant{fmt.Sprintf("%d bytes declared, %d missing, then close", declared, missing), func(kind string, index int, body []byte) []byte {
				if kind != "tcp" && kind != "unix" || len(body) != 20 {
					return nil
				}
				return append(wire.SocketHeader(declared, index, false), echo.Gen(5, declared-missing)...)
			}})
		}
	}
	shard, nshards := ev.S.Shard, ev.S.NShards
	k := 0
	for _, kind := range []string{"tcp", "unix", "udp"} {
		for _, v := range variants {
			for _, bodyLen := range []int{20, 2000} {
				body := echo.Gen(uint32(bodyLen), bodyLen)
				probe := v.make(kind, 1, body)
				if probe == nil {
					continue
				}
				k++
				if nshards > 1 && k%nshards != shard {
					continue
				}
				canon := fmt.Sprintf("%s client: response of %d bytes with %s", kind, bodyLen, v.name)
				ev.S.Begin("client-side-frames", canon)
				p, err := peer.Start(kind)
				if err != nil {
					t.Fatal(err)
				}
				client := core.NewClient(p.URL)
				client.Timeout = 250 * time.Millisecond
				if strings.Contains(v.name, "missing") {
					client.Timeout = 3 * time.Second
				}
				type res struct {
					b   []byte
					err error
				}
				done := make(chan res, 1)
				go func() {
					b, err := tp.Raw(client, []byte("hello-request"))
					done <- res{b, err}
				}()
				problem := ""
				f, err := p.Recv(2 * time.Second)
				if err != nil {
					problem = "harness: " + err.Error()
				} else {
					p.Raw(v.make(kind, f.Index, body))
					if strings.Contains(v.name, "then close") {
						time.Sleep(5 * time.Millisecond)
						if strings.Contains(v.name, "missing") {
							time.Sleep(60 * time.Millisecond) // let the client take the megabytes before the end of stream
						}
						p.Drop()
					}
					select {
					case r := <-done:
						if r.err == nil {
							problem = fmt.Sprintf("the caller received %d bytes from a response with %s: %s", len(r.b), v.name, firstDiff(body, r.b))
						}
					case <-time.After(5 * time.Second):
						problem = "the caller never returned"
					}
				}
				client.Abort()
				p.Close()
				ev.S.Case("client-side-frames", canon, true, "client-frames="+kind)
				report(t, "client-side-frames", "TestClientSideFrames", canon, problem)
			}
		}
	}
	ev.S.Exhaustive("client-side-frames", true)
}

// gatedListener hands out connections whose reads wait until the gate is opened: a server that is slow
// to take the request.
type gatedListener struct {
	net.Listener
	gate chan struct{}
}

type gatedConn struct {
	net.Conn
	gate chan struct{}
}

func (c *gatedConn) Read(p []byte) (int, error) {
	<-c.gate
	return c.Conn.Read(p)
}

func (l *gatedListener) Accept() (net.Conn, error) {
	c, err := l.Listener.Accept()
	if err != nil {
		return nil, err
	}
	if t, ok := c.(*net.TCPConn); ok {
		t.SetReadBuffer(256 << 10)
	}
	return &gatedConn{c, l.gate}, nil
}

// TestAbandonedRequest: the peer is slow to take a large request, the caller gives the call up (context
// cancelled or client time-out) and reuses its buffer for the next message, then the peer reads on. What
// the service side receives for the abandoned call must be the submitted bytes or nothing, never a mix.
func TestAbandonedRequest(t *testing.T) {
	const size = 8 << 20
	k := 0
	for _, kind := range []string{"tcp", "unix", "ws", "http"} {
		for _, how := range []string{"cancel", "timeout"} {
			k++
			if ev.S.NShards > 1 && k%ev.S.NShards != ev.S.Shard {
				continue
			}
			canon := fmt.Sprintf("%s (fasthttp-client=%v): 8 MiB request to a peer that is slow to read, given up by %s, buffer reused, then the peer reads on", kind, tp.FastHTTPClient(), how)
			ev.S.Begin("abandoned-request", canon)
			buf := bytes.Repeat([]byte{'A'}, size)
			var delivered [][]byte
			var url string
			var resume func()
			var collect func() [][]byte
			var cleanup func()
			if kind == "http" {
				ln, err := net.Listen("tcp", "127.0.0.1:0")
				if err != nil {
					t.Fatal(err)
				}
				gl := &gatedListener{ln, make(chan struct{})}
				var mu sync.Mutex
				srv := &http.Server{Handler: http.HandlerFunc(func(w http.ResponseWriter, r *http.Request) {
					b, err := io.ReadAll(r.Body)
					if err == nil && int64(len(b)) == r.ContentLength {
						mu.Lock()
						delivered = append(delivered, b)
						mu.Unlock()
					}
					w.Write([]byte("Rnz"))
				})}
				go srv.Serve(gl)
				url = "http://" + ln.Addr().String() + "/"
				resume = func() { close(gl.gate) }
				collect = func() [][]byte {
					time.Sleep(1500 * time.Millisecond)
					mu.Lock()
					defer mu.Unlock()
					return delivered
				}
				cleanup = func() { srv.Close() }
			} else {
				p, err := peer.Start(kind)
				if err != nil {
					t.Fatal(err)
				}
				p.Pause()
				url = p.URL
				resume = p.Resume
				collect = func() [][]byte {
					var out [][]byte
					for {
						f, err := p.Recv(1500 * time.Millisecond)
						if err != nil {
							return out
						}
						out = append(out, f.Body)
					}
				}
				cleanup = p.Close
			}
			client := core.NewClient(url)
			if how == "timeout" {
				client.Timeout = 300 * time.Millisecond
			}
			ctx, cancel := context.WithCancel(context.Background())
			cc := core.NewClientContext()
			cc.Init(client)
			done := make(chan error, 1)
			go func() {
				_, err := client.Request(core.WithContext(ctx, cc), buf)
				done <- err
			}()
			time.Sleep(400 * time.Millisecond)
			cancel()
			problem := ""
			select {
			case err := <-done:
				if err == nil {
					problem = "the abandoned call returned without an error"
				}
			case <-time.After(5 * time.Second):
				problem = "the call did not return after it was given up"
			}
			// the caller has its buffer back: the next message goes into it
			for i := range buf {
				buf[i] = 'B'
			}
			resume()
			for _, d := range collect() {
				if problem != "" {
					break
				}
				a, b := bytes.Count(d, []byte{'A'}), bytes.Count(d, []byte{'B'})
				if len(d) != size || a != size {
					problem = fmt.Sprintf("the service side received a %d-byte request made of %d bytes of the submitted message and %d bytes the caller wrote into its buffer after the call had returned", len(d), a, b)
				}
			}
			cancel()
			client.Abort()
			cleanup()
			ev.S.Case("abandoned-request", canon, true, "abandoned="+kind+"/"+how)
			report(t, "abandoned-request", "TestAbandonedRequest", canon, problem)
		}
	}
}

func TestFinding(t *testing.T) {
	t.Skip("no open finding " + ev.FindingKey())
}
