package c12

import (
	"bytes"
	"fmt"
	"net"
	"sync"
	"testing"
	"time"

	"pgregory.net/rapid"
	"verif/hp/echo"
	"verif/hp/ev"
	"verif/hp/wire"
)

// TestPipelinedSlowReader: one or two raw peers pipeline many echo requests on a stream socket and start
// reading the responses late, so the server is still writing earlier responses while later requests (of
// this peer and of the other one) arrive. Every response must be exactly the request with its identifier.
func TestPipelinedSlowReader(t *testing.T) {
	setup()
	ev.Check(t, "pipelined-slow-reader", ev.N(60, 1500), func(rt *rapid.T) {
		kind := rapid.SampledFrom([]string{"tcp", "unix"}).Draw(rt, "kind")
		peers := rapid.IntRange(1, 2).Draw(rt, "peers")
		k := rapid.IntRange(8, 40).Draw(rt, "requests")
		maxLen := rapid.SampledFrom([]int{2000, 30000, 65000, 200000}).Draw(rt, "maxLen")
		delay := time.Duration(rapid.IntRange(0, 120).Draw(rt, "readAfterMs")) * time.Millisecond
		seed := rapid.Uint32().Draw(rt, "seed")
		alias := rapid.Bool().Draw(rt, "echoReturnsTheRequestSlice")
		canon := fmt.Sprintf("%s: %d raw peers each pipelining %d echo requests of up to %d bytes (echo returns the request slice itself: %v), reading the responses %v later (seed %d)", kind, peers, k, maxLen, alias, delay, seed)
		ev.S.Begin("pipelined-slow-reader", canon)
		ep := byKind[kind]
		serial.Lock()
		defer serial.Unlock()
		var wg sync.WaitGroup
		problems := make([]string, peers)
		for p := 0; p < peers; p++ {
			wg.Add(1)
			go func(p int) {
				defer wg.Done()
				c, err := dialStream(ep)
				if err != nil {
					problems[p] = "harness: dial: " + err.Error()
					return
				}
				defer c.Close()
				reqs := make([][]byte, k)
				for i := range reqs {
					n := 1 + int((seed+uint32(i*7919+p*104729))%uint32(maxLen))
					b := echo.Gen(seed+uint32(i)+uint32(p)*1000003, n)
					// an echoed request: not a call, not a generated-response request
					if b[0] == 'C' {
						b[0] = 'D'
					}
					if n >= 4 && bytes.Equal(b[:4], echo.Magic) {
						b[1] = 'x'
					}
					// make the owner visible in the bytes
					mark := "D"
					if alias {
						mark = "A"
					}
					copy(b, fmt.Sprintf("%s%d/%d:", mark, p, i))
					reqs[i] = b
				}
				go func() {
					for i, b := range reqs {
						c.SetWriteDeadline(time.Now().Add(30 * time.Second))
						if _, err := c.Write(wire.SocketFrame(i+1, b, false)); err != nil {
							return
						}
					}
				}()
				time.Sleep(delay)
				got := map[int][]byte{}
				for len(got) < k {
					index, body, errFlag, ok := readSocketFrame(c, 20*time.Second)
					if !ok {
						problems[p] = fmt.Sprintf("peer %d: only %d of %d responses arrived", p, len(got), k)
						return
					}
					if errFlag {
						problems[p] = fmt.Sprintf("peer %d: request %d was answered with the error %q", p, index-1, clipB(body))
						return
					}
					if _, dup := got[index]; dup || index < 1 || index > k {
						problems[p] = fmt.Sprintf("peer %d: unexpected or repeated response identifier %d", p, index)
						return
					}
					got[index] = body
				}
				for i, b := range reqs {
					if r := got[i+1]; !bytes.Equal(r, b) {
						at := 0
						for at < len(r) && at < len(b) && r[at] == b[at] {
							at++
						}
						problems[p] = fmt.Sprintf("peer %d: the response to request %d (%d bytes) has %d bytes and differs from offset %d on: %q", p, i, len(b), len(r), at, clipB(r[min(at, len(r)):]))
						return
					}
				}
			}(p)
		}
		wg.Wait()
		ep.svc.Take()
		problem := ""
		for _, p := range problems {
			if p != "" && problem == "" {
				problem = p
			}
		}
		ev.S.Case("pipelined-slow-reader", canon, delay > 0, "pipelined="+kind, fmt.Sprintf("pipelined-peers=%d", peers), fmt.Sprintf("pipelined-aliasing-echo=%v", alias))
		report(rt, "pipelined-slow-reader", "TestPipelinedSlowReader", canon, problem)
	})
}

func clipB(b []byte) []byte {
	if len(b) > 32 {
		return b[:32]
	}
	return b
}

var _ net.Conn
