// C05 — streaming decode equals in-memory decode for every fragmentation.
package c05

import (
	"fmt"
	"github.com/google/uuid"
	"io"
	"math/big"
	"os"
	"reflect"
	"regexp"
	"strconv"
	"strings"
	"testing"
	"time"
	"verif/c06"

	hio "github.com/hprose/hprose-golang/v3/io"
	"pgregory.net/rapid"
	"verif/hp/ev"
	"verif/hp/ref"
	"verif/hp/uni"
)

func TestMain(m *testing.M) {
	time.Local = time.FixedZone("VERIF", 8*3600)
	for _, st := range uni.Structs {
		hio.Register(reflect.New(st).Interface())
	}
	ev.Main(m, "C05")
}

// chunkReader hands out the data in the given chunk sizes (0 = a read returning (0, nil)); when
// the sizes run out it continues with the last non-zero size. It records every boundary.
type chunkReader struct {
	data   []byte
	pos    int
	sizes  []int
	i      int
	last   int
	Bounds []int

	eofWithData bool
}

// A first size of -1 makes the reader deliver its last bytes together with io.EOF (allowed by the io.Reader
// contract; HTTP bodies and iotest.DataErrReader do it) instead of reporting the end in a read of its own.
func (r *chunkReader) Read(p []byte) (int, error) {
	if r.i == 0 && len(r.sizes) > 0 && r.sizes[0] == -1 {
		r.eofWithData = true
		r.i = 1
	}
	if r.pos >= len(r.data) {
		return 0, io.EOF
	}
	n := r.last
	if r.i < len(r.sizes) {
		n = r.sizes[r.i]
		r.i++
		if n > 0 {
			r.last = n
		}
	}
	if n == 0 {
		if r.last == 0 && r.i >= len(r.sizes) {
			n = 1
		} else {
			return 0, nil
		}
	}
	if n > len(p) {
		n = len(p)
	}
	if n > len(r.data)-r.pos {
		n = len(r.data) - r.pos
	}
	copy(p, r.data[r.pos:r.pos+n])
	r.pos += n
	if r.pos < len(r.data) {
		r.Bounds = append(r.Bounds, r.pos)
	} else if r.eofWithData {
		return n, io.EOF
	}
	return n, nil
}

type result struct {
	node     *ref.Node
	errClass string // "" | eof | other | panic
	errText  string
	sentinel string // outcome of decoding the sentinel afterwards
}

const sentinelWire = "i424242;"

var addrRe = regexp.MustCompile(`0x[0-9a-f]{6,}`)

func errClass(err error) string {
	switch {
	case err == nil:
		return ""
	case err == io.EOF || err == io.ErrUnexpectedEOF || strings.Contains(err.Error(), "EOF"):
		return "eof"
	}
	return "other"
}

func decodeWith(dec *hio.Decoder, t reflect.Type, withSentinel bool) (res result) {
	p := reflect.New(t)
	func() {
		defer func() {
			if e := recover(); e != nil {
				res.errClass, res.errText = "panic", fmt.Sprint(e)
			}
		}()
		dec.Decode(p.Interface())
		res.errClass = errClass(dec.Error)
		if dec.Error != nil {
			res.errText = dec.Error.Error()
		}
	}()
	if res.errClass != "panic" {
		func() {
			defer func() {
				if e := recover(); e != nil {
					res.node = &ref.Node{Kind: ref.String, S: "<unprintable: " + fmt.Sprint(e) + ">"}
				}
			}()
			res.node = uni.FromGo(p.Elem())
		}()
	}
	if withSentinel && res.errClass == "" {
		func() {
			defer func() {
				if e := recover(); e != nil {
					res.sentinel = "panic: " + fmt.Sprint(e)
				}
			}()
			var s int
			dec.Decode(&s)
			res.sentinel = fmt.Sprintf("%d err=%v", s, dec.Error)
		}()
	}
	return
}

type Case struct {
	TypeStr  string `json:"type"`
	Wire     string `json:"wire"` // the bytes given to both decoders (latin-1 safe via %q in desc)
	Simple   bool   `json:"simple"`
	Sizes    []int  `json:"sizes"`
	BufSize  int    `json:"bufsize"`
	Sentinel bool   `json:"sentinel"`
}

func describe(c Case) string {
	sz := fmt.Sprint(c.Sizes)
	if len(sz) > 80 {
		sz = sz[:80] + "…"
	}
	w := c.Wire
	if len(w) > 300 {
		w = w[:300] + "…"
	}
	return fmt.Sprintf("%s simple=%v buf=%d sizes=%s sentinel=%v wire=%q", c.TypeStr, c.Simple, c.BufSize, sz, c.Sentinel, w)
}

// compare runs both decoders; returns the read boundaries and a problem ("" if they agree).
func compare(t reflect.Type, wire []byte, simple bool, sizes []int, bufSize int, sentinel bool) ([]int, string) {
	data := wire
	if sentinel {
		data = append(append([]byte{}, wire...), sentinelWire...)
	}
	a := decodeWith(hio.NewDecoder(data).Simple(simple), t, sentinel)
	rd := &chunkReader{data: data, sizes: sizes}
	b := decodeWith(hio.NewDecoderFromReader(rd, bufSize).Simple(simple), t, sentinel)
	beyond := announcesBeyond(data)
	switch {
	case (a.errClass == "") != (b.errClass == ""):
		return rd.Bounds, fmt.Sprintf("error outcome differs: slice %q (%s) vs reader %q (%s)", a.errClass, a.errText, b.errClass, b.errText)
	case a.errClass == "panic" && b.errClass == "panic":
		return rd.Bounds, "" // both panic: charged to C04, not to this property
	case a.errClass != "" && beyond:
		// a count or length announces more than the (truncated) input holds: the slice decoder sees that at once
		// and stops, the reader cannot know and reads on until the data ends. Both decodes fail; which error is
		// reported first and what the half-built value looks like is not comparable between the two
		return rd.Bounds, ""
	case a.errClass != b.errClass:
		return rd.Bounds, fmt.Sprintf("error outcome differs: slice %q (%s) vs reader %q (%s)", a.errClass, a.errText, b.errClass, b.errText)
	case a.errClass != "" && addrRe.ReplaceAllString(a.node.String(), "0x?") == addrRe.ReplaceAllString(b.node.String(), "0x?"):
		// a failed decode may leave the textual form of a pointer (an address) in a string; addresses differ between runs
		return rd.Bounds, ""
	case !ref.Equal(a.node, b.node):
		return rd.Bounds, fmt.Sprintf("values differ (error class %q): first difference at %s\n slice  %s\n reader %s", a.errClass, ref.Diff(a.node, b.node, ref.Options{}), trunc(a.node.String()), trunc(b.node.String()))
	case a.sentinel != b.sentinel:
		return rd.Bounds, fmt.Sprintf("stream position differs after the value: next value from slice %q, from reader %q", a.sentinel, b.sentinel)
	case sentinel && a.errClass == "" && a.sentinel != "424242 err=<nil>":
		return rd.Bounds, ""
	}
	return rd.Bounds, ""
}

var countTokRe = regexp.MustCompile(`[absmco]([0-9]+)["{]?`)

// announcesBeyond: some count or length in the (truncated) stream exceeds the number of bytes that follow it.
func announcesBeyond(data []byte) bool {
	for _, m := range countTokRe.FindAllSubmatchIndex(data, -1) {
		n, err := strconv.Atoi(string(data[m[2]:m[3]]))
		if err != nil || n > len(data)-m[1] {
			return true
		}
	}
	return false
}

func trunc(s string) string {
	if len(s) > 600 {
		return s[:600] + "…"
	}
	return s
}

// classify read boundaries against the token spans of the stream
func boundaryClasses(wire []byte, bounds []int) (inside bool, classes []string) {
	p := ref.NewParser(wire)
	for p.Pos() < len(wire) {
		if _, err := p.Value(); err != nil {
			break
		}
	}
	seen := map[string]bool{}
	for _, b := range bounds {
		if b <= 0 || b >= len(wire) {
			continue
		}
		for _, sp := range p.Spans {
			if b > sp.Start && b < sp.End {
				inside = true
				what := "split-in-" + sp.What
				if sp.What == "string" && wire[b]&0xC0 == 0x80 {
					what = "split-in-multibyte-char"
				}
				if !seen[what] {
					seen[what] = true
					classes = append(classes, what)
				}
			}
		}
		if b > 0 && wire[b-1] == '"' && !seen["split-after-quote"] {
			seen["split-after-quote"] = true
			classes = append(classes, "split-after-quote")
		}
	}
	return
}

func runCase(tb interface{ Fatalf(string, ...interface{}) }, sub, test string, t reflect.Type, wire []byte, simple bool, sizes []int, bufSize int, sentinel bool) {
	c := Case{t.String(), string(wire), simple, sizes, bufSize, sentinel}
	desc := describe(c)
	ev.S.Begin(sub, desc)
	bounds, problem := compare(t, wire, simple, sizes, bufSize, sentinel)
	inside, classes := boundaryClasses(wire, bounds)
	ev.S.Case(sub, desc, inside, classes...)
	if problem == "" {
		return
	}
	if os.Getenv("VERIF_TRIAGE") != "" {
		fmt.Printf("TRIAGE %s | %s | %s\n", strings.ReplaceAll(problem, "\n", " // "), t, desc)
		return
	}
	ev.S.Violation(sub, test, desc, problem, nil)
	tb.Fatalf("%s\n=> %s", desc, problem)
}

var streamTypes = []reflect.Type{
	reflect.TypeOf(""), reflect.TypeOf([]string(nil)), reflect.TypeOf([]byte(nil)), reflect.TypeOf([][]byte(nil)), reflect.TypeOf(map[string]string(nil)),
	reflect.TypeOf([]int64(nil)), reflect.TypeOf([]float64(nil)), reflect.TypeOf([]interface{}(nil)), reflect.TypeOf(map[string]interface{}(nil)),
	reflect.TypeOf(uni.Plain{}), reflect.TypeOf([]uni.Plain(nil)), reflect.TypeOf(uni.WithTime{}), reflect.TypeOf([]uni.WithTime(nil)), reflect.TypeOf(uni.AllScalars{}),
	reflect.TypeOf(uni.AllSlices{}), reflect.TypeOf(uni.Tree{}), reflect.TypeOf(uni.WithIface{}), reflect.TypeOf([]time.Time(nil)), reflect.TypeOf(uni.Tagged{}),
	reflect.TypeOf(map[int][]string(nil)), reflect.TypeOf([4]byte{}), reflect.TypeOf([16]byte{}), reflect.TypeOf([3][16]byte{}), reflect.TypeOf([]([16]byte)(nil)), reflect.TypeOf(uuid.UUID{}), reflect.TypeOf([]uuid.UUID(nil)),
	reflect.TypeOf(struct {
		A [16]byte
		U uuid.UUID
		S string
	}{}), reflect.TypeOf(map[string][16]byte(nil)), reflect.TypeOf([]*big.Int(nil)), reflect.TypeOf([]*big.Float(nil)), reflect.TypeOf([]complex128(nil)), reflect.TypeOf([3]string{}),
	reflect.TypeOf(uni.AllPtrs{}), reflect.TypeOf(uni.TIface).Elem(),
}

func init() { streamTypes[len(streamTypes)-1] = uni.TIface }

// crossDest: destinations a stream of another type may be decoded into (the slice-versus-reader comparison does
// not need to know what the conversion should yield, only that both ways agree)
var crossDest = map[reflect.Type][]reflect.Type{
	reflect.TypeOf([16]byte{}):        {reflect.TypeOf(uuid.UUID{}), reflect.TypeOf([]byte(nil)), reflect.TypeOf(""), uni.TIface, reflect.TypeOf([4]byte{})},
	reflect.TypeOf([]([16]byte)(nil)): {reflect.TypeOf([]uuid.UUID(nil)), reflect.TypeOf([][]byte(nil)), reflect.TypeOf([]string(nil)), reflect.TypeOf([]interface{}(nil))},
	reflect.TypeOf([]byte(nil)):       {reflect.TypeOf([16]byte{}), reflect.TypeOf([4]byte{}), reflect.TypeOf(""), reflect.TypeOf(uuid.UUID{})},
	reflect.TypeOf([][]byte(nil)):     {reflect.TypeOf([][4]byte(nil)), reflect.TypeOf([]string(nil)), reflect.TypeOf([]uuid.UUID(nil))},
	reflect.TypeOf(""):                {reflect.TypeOf([]byte(nil)), reflect.TypeOf([16]byte{}), uni.TIface},
	reflect.TypeOf([]string(nil)):     {reflect.TypeOf([][]byte(nil)), reflect.TypeOf([]interface{}(nil)), reflect.TypeOf([3]string{})},
	reflect.TypeOf(uuid.UUID{}):       {reflect.TypeOf(""), reflect.TypeOf([]byte(nil)), uni.TIface},
	reflect.TypeOf([]uuid.UUID(nil)):  {reflect.TypeOf([]string(nil)), reflect.TypeOf([]interface{}(nil))},
	reflect.TypeOf([]int64(nil)):      {reflect.TypeOf([]float64(nil)), reflect.TypeOf([]string(nil)), reflect.TypeOf([]*big.Int(nil)), reflect.TypeOf([]interface{}(nil))},
	reflect.TypeOf([]float64(nil)):    {reflect.TypeOf([]string(nil)), reflect.TypeOf([]*big.Float(nil)), reflect.TypeOf([]interface{}(nil))},
	reflect.TypeOf(uni.Plain{}):       {reflect.TypeOf(map[string]interface{}(nil)), uni.TIface},
	reflect.TypeOf([]uni.Plain(nil)):  {reflect.TypeOf([]map[string]interface{}(nil)), reflect.TypeOf([]interface{}(nil))},
}

func genStream(rt *rapid.T) (reflect.Type, []byte, bool) {
	t := rapid.SampledFrom(streamTypes).Draw(rt, "type")
	o := uni.Opts{NoBadYears: true}
	if rapid.Bool().Draw(rt, "long") {
		o.MaxLen = 12
	}
	v := uni.Gen(rt, t, 3, o)
	simple := rapid.Bool().Draw(rt, "simple")
	data, err := hio.Formatter{Simple: simple}.Marshal(v.Interface())
	if err != nil {
		rt.Skip("value cannot be encoded: " + err.Error())
	}
	if alts := crossDest[t]; len(alts) > 0 && rapid.IntRange(0, 2).Draw(rt, "cross") == 0 {
		t = rapid.SampledFrom(alts).Draw(rt, "dest")
	}
	return t, data, simple
}

func genSizes(rt *rapid.T, n int) []int {
	sizes := genSizes0(rt, n)
	if rapid.IntRange(0, 2).Draw(rt, "eofWithData") == 0 {
		sizes = append([]int{-1}, sizes...)
	}
	return sizes
}

func genSizes0(rt *rapid.T, n int) []int {
	switch rapid.IntRange(0, 3).Draw(rt, "frag") {
	case 0: // fixed chunk size
		return []int{rapid.IntRange(1, 300).Draw(rt, "chunk")}
	case 1: // two-way split
		if n < 2 {
			return []int{1}
		}
		k := rapid.IntRange(1, n-1).Draw(rt, "split")
		return []int{k, n}
	case 2: // sizes around the buffer size
		return []int{rapid.SampledFrom([]int{254, 255, 256, 257, 258, 510, 511, 512, 513}).Draw(rt, "edge"), rapid.IntRange(1, 300).Draw(rt, "then")}
	}
	return rapid.SliceOfN(rapid.SampledFrom([]int{0, 0, 1, 1, 2, 3, 5, 7, 64, 255, 256, 257}), 1, 40).Draw(rt, "sizes")
}

func noTripleZero(s []int) []int {
	run := 0
	var out []int
	for _, x := range s {
		if x == 0 {
			run++
			if run > 3 {
				continue
			}
		} else {
			run = 0
		}
		out = append(out, x)
	}
	return out
}

var bufSizes = []int{256, 257, 300, 1024}

// TestRandomFragmentation: generated streams (and truncations) x generated fragmentations.
func TestRandomFragmentation(t *testing.T) {
	ev.Check(t, "random", ev.N(40000, 8000000), func(rt *rapid.T) {
		typ, wire, simple := genStream(rt)
		sentinel := true
		if rapid.IntRange(0, 3).Draw(rt, "truncate") == 0 && len(wire) > 1 {
			wire = wire[:rapid.IntRange(1, len(wire)-1).Draw(rt, "cut")]
			sentinel = false
		}
		sizes := noTripleZero(genSizes(rt, len(wire)))
		buf := rapid.SampledFrom(bufSizes).Draw(rt, "buf")
		runCase(rt, "random", "TestRandomFragmentation", typ, wire, simple, sizes, buf, sentinel)
	})
}

// TestEverySplit: for generated streams, every two-way split position and every fixed chunk size.
func TestEverySplit(t *testing.T) {
	ev.Check(t, "every-split", ev.N(600, 60000), func(rt *rapid.T) {
		typ, wire, simple := genStream(rt)
		if len(wire) > 700 {
			wire = wire[:700]
		}
		buf := rapid.SampledFrom(bufSizes).Draw(rt, "buf")
		sentinel := len(wire) <= 700
		if _, _, err := ref.ParseOne(wire); err != nil {
			sentinel = false
		}
		for k := 1; k < len(wire); k++ {
			runCase(rt, "every-split", "TestEverySplit", typ, wire, simple, []int{k, len(wire) + 16}, buf, sentinel)
		}
		for _, k := range []int{1, len(wire) / 2, len(wire) - 1, len(wire) + 16} {
			if k >= 1 {
				runCase(rt, "every-split", "TestEverySplit", typ, wire, simple, []int{-1, k, len(wire) + 16}, buf, sentinel)
			}
		}
		max := len(wire)
		if max > 300 {
			max = 300
		}
		for c := 1; c <= max; c++ {
			runCase(rt, "every-split", "TestEverySplit", typ, wire, simple, []int{c}, buf, sentinel)
		}
	})
}

// TestTokenStreaming: the whole token x destination matrix of C06 (every spelling of every scalar value into every
// destination type, conversions included), at top level and as a list element, decoded from the byte slice and from
// readers that fragment the stream in the worst ways: one byte per read, and one split at every offset.
func TestTokenStreaming(t *testing.T) {
	toks := c06.AllScalarTokens()
	i := 0
	for _, tok := range toks {
		for _, d := range c06.Dests {
			i++
			if i%ev.S.NShards != ev.S.Shard {
				continue
			}
			for _, simple := range []bool{true, false} {
				if strings.Contains(tok.Wire, "r") && strings.HasPrefix(tok.Class, "list-with") && simple {
					continue // a back-reference is not part of a simple-mode stream
				}
				for _, wrapped := range []bool{false, true} {
					typ, wire := d, []byte(tok.At(0))
					if wrapped {
						typ, wire = reflect.SliceOf(d), []byte("a1{"+tok.At(1)+"}")
					}
					runCase(t, "token-streaming", "TestTokenStreaming", typ, wire, simple, []int{1}, 256, true)
					runCase(t, "token-streaming", "TestTokenStreaming", typ, wire, simple, []int{-1, len(wire) + 16}, 256, true)
					for k := 1; k < len(wire)+1 && k < 80; k++ {
						runCase(t, "token-streaming", "TestTokenStreaming", typ, wire, simple, []int{k, len(wire) + 16}, 256, true)
					}
				}
			}
		}
	}
	ev.S.Exhaustive("token-streaming", true)
}

// TestBoundaryStrings: strings and numbers placed so that they straddle the 256-byte buffer.
func TestBoundaryStrings(t *testing.T) {
	chars := []string{"a", "é", "你", "😀"}
	idx := 0
	for _, pad := range []int{240, 250, 251, 252, 253, 254, 255, 256, 257, 258, 505, 509, 510, 511, 512} {
		for _, ch := range chars {
			for n := 1; n <= 6; n++ {
				idx++
				if idx%ev.S.NShards != ev.S.Shard {
					continue
				}
				v := []string{strings.Repeat("x", pad), strings.Repeat(ch, n), "tail", strings.Repeat(ch, 90)}
				for _, simple := range []bool{true, false} {
					wire, _ := hio.Formatter{Simple: simple}.Marshal(v)
					typ := reflect.TypeOf(v)
					for _, buf := range bufSizes {
						for _, sizes := range [][]int{{256}, {255}, {257}, {1}, {2}, {3}, {pad + 7, 1}, {pad + 8, 2, 1}, {pad + 9, 1, 1, 1, 300}, {300}, {buf}, {buf - 1}, {buf + 1}} {
							runCase(t, "boundary", "TestBoundaryStrings", typ, wire, simple, sizes, buf, true)
						}
					}
				}
			}
		}
	}
}

func TestFinding(t *testing.T) {
	t.Skip("no open finding " + ev.FindingKey())
}
