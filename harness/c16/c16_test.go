// C16 — cluster retries never duplicate non-idempotent calls and respect the budget.
package c16

import (
	"context"
	"fmt"
	"strings"
	"sync"
	"testing"
	"time"

	_ "github.com/hprose/hprose-golang/v3/rpc"
	"github.com/hprose/hprose-golang/v3/rpc/core"
	"github.com/hprose/hprose-golang/v3/rpc/plugins/cluster"
	"pgregory.net/rapid"
	"verif/hp/ev"
)

func TestMain(m *testing.M) { ev.Main(m, "C16") }

// Call is one client call: the scripted outcome of each successive attempt
// ('s' success, 'e' error, 'p' panic; the last outcome repeats if the script
// runs out) and the per-call overrides (-1 = unset).
type Call struct {
	Script   string `json:"script"`
	IdemOv   int    `json:"idem_override"`  // -1 unset, 0 false, 1 true
	RetryOv  int    `json:"retry_override"` // -1 unset
	// Spell chooses the Go type the overrides are stored with (0 = bool / int): the context items are a generic
	// dictionary whose getters convert, so a caller may store int64(2), float64(0) or "false" as well
	Spell int `json:"override_spelling,omitempty"`
}

func spellBool(b bool, spell int) interface{} {
	n := 0
	if b {
		n = 1
	}
	switch spell % 6 {
	case 1:
		return n
	case 2:
		return float64(n)
	case 3:
		return fmt.Sprint(b)
	case 4:
		return uint8(n)
	case 5:
		return int64(n)
	}
	return b
}

func spellInt(n int, spell int) interface{} {
	switch spell % 6 {
	case 1:
		return int64(n)
	case 2:
		return float64(n)
	case 3:
		return fmt.Sprint(n)
	case 4:
		return uint8(n)
	case 5:
		return int32(n)
	}
	return n
}

type Case struct {
	Mode    string `json:"mode"` // failover | failtry | failfast
	Servers int    `json:"servers"`
	Retry   int    `json:"retry"`
	Idem    bool   `json:"idempotent"`
	Calls   []Call `json:"calls"`
}

func (c Case) String() string {
	var b strings.Builder
	fmt.Fprintf(&b, "mode=%s n=%d retry=%d idem=%v calls=[", c.Mode, c.Servers, c.Retry, c.Idem)
	for i, k := range c.Calls {
		if i > 0 {
			b.WriteByte(' ')
		}
		fmt.Fprintf(&b, "%s/i%d/r%d", k.Script, k.IdemOv, k.RetryOv)
		if k.Spell != 0 {
			fmt.Fprintf(&b, "/as(%T,%T)", spellBool(true, k.Spell), spellInt(1, k.Spell))
		}
	}
	b.WriteByte(']')
	return b.String()
}

type scripted struct {
	mu       sync.Mutex
	script   string
	attempts []string // URL host per attempt of the current call
	callNo   int
}

func (s *scripted) handler(ctx context.Context, request []byte, next core.NextIOHandler) ([]byte, error) {
	s.mu.Lock()
	k := len(s.attempts)
	s.attempts = append(s.attempts, core.GetClientContext(ctx).URL.Host)
	o := s.script[len(s.script)-1]
	if k < len(s.script) {
		o = s.script[k]
	}
	callNo := s.callNo
	s.mu.Unlock()
	switch o {
	case 's':
		return []byte(fmt.Sprintf("Rs%d\"%s\"z", len(token(callNo, k)), token(callNo, k))), nil
	case 'e':
		return nil, fmt.Errorf("err-%d-%d", callNo, k)
	default:
		panic(fmt.Sprintf("panic-%d-%d", callNo, k))
	}
}

func token(call, attempt int) string { return fmt.Sprintf("ok-%d-%d", call, attempt) }

func urls(n int) []string {
	u := make([]string, n)
	for i := range u {
		u[i] = fmt.Sprintf("mock://s%d", i)
	}
	return u
}

// run drives the real plugin and checks every call against the statement-level model.
// It returns (nontrivial, knownFindingKey, problem).
func run(c Case) (bool, string, string) {
	var cfg cluster.Config
	switch c.Mode {
	case "failover":
		cfg = cluster.FailoverConfig(cluster.WithRetry(c.Retry), cluster.WithIdempotent(c.Idem), cluster.WithMinInterval(0), cluster.WithMaxInterval(0))
	case "failtry":
		cfg = cluster.FailtryConfig(cluster.WithRetry(c.Retry), cluster.WithIdempotent(c.Idem), cluster.WithMinInterval(0), cluster.WithMaxInterval(0))
	default:
		cfg = cluster.FailfastConfig(func(context.Context) {})
	}
	client := core.NewClient(urls(c.Servers)...)
	client.Timeout = 0
	client.Use(cluster.New(cfg))
	sc := &scripted{}
	client.Use(sc.handler)
	nontrivial := false
	for ci, call := range c.Calls {
		sc.mu.Lock()
		sc.script, sc.attempts, sc.callNo = call.Script, nil, ci
		sc.mu.Unlock()
		cc := core.NewClientContext()
		if call.IdemOv >= 0 {
			cc.Items().Set("idempotent", spellBool(call.IdemOv == 1, call.Spell))
		}
		if call.RetryOv >= 0 {
			cc.Items().Set("retry", spellInt(call.RetryOv, call.Spell))
		}
		res, err := client.InvokeContext(core.WithContext(context.Background(), cc), "fn", nil)
		sc.mu.Lock()
		attempts := append([]string(nil), sc.attempts...)
		sc.mu.Unlock()

		// ---- model, from the statement
		idem := c.Idem
		if call.IdemOv >= 0 {
			idem = call.IdemOv == 1
		}
		retry := c.Retry
		if call.RetryOv >= 0 {
			retry = call.RetryOv
		}
		if c.Mode == "failfast" {
			retry = 0 // failfast never retries
		}
		outcome := func(k int) byte {
			if k < len(call.Script) {
				return call.Script[k]
			}
			return call.Script[len(call.Script)-1]
		}
		budget := 1
		if idem {
			budget = retry + 1
		}
		want := budget
		succ := -1
		for k := 0; k < budget; k++ {
			if outcome(k) == 's' {
				want, succ = k+1, k
				break
			}
		}
		if outcome(0) != 's' {
			nontrivial = true
		}
		where := fmt.Sprintf("call %d (script %s idem=%v retry=%d): attempts=%v res=%v err=%v", ci, call.Script, idem, retry, attempts, res, err)
		if !idem && len(attempts) != 1 {
			return nontrivial, "", "non-idempotent call sent " + fmt.Sprint(len(attempts)) + " times: " + where
		}
		if len(attempts) > budget {
			return nontrivial, "", fmt.Sprintf("attempted %d times, budget retry+1=%d: %s", len(attempts), budget, where)
		}
		if len(attempts) != want {
			return nontrivial, "", fmt.Sprintf("attempted %d times, expected %d (stop at first success, else use the budget): %s", len(attempts), want, where)
		}
		if succ >= 0 {
			if err != nil || len(res) != 1 || res[0] != token(ci, succ) {
				return nontrivial, "", "did not return the successful attempt's response: " + where
			}
		} else {
			last := want - 1
			wantMsg := fmt.Sprintf("err-%d-%d", ci, last)
			if outcome(last) == 'p' {
				wantMsg = fmt.Sprintf("panic-%d-%d", ci, last)
			}
			if err == nil || !strings.Contains(err.Error(), wantMsg) {
				return nontrivial, "", "did not return the last error (" + wantMsg + "): " + where
			}
		}
		for _, a := range attempts {
			ok := false
			for i := 0; i < c.Servers; i++ {
				if a == fmt.Sprintf("s%d", i) {
					ok = true
				}
			}
			if !ok {
				return nontrivial, "", "attempt sent to an unconfigured server: " + where
			}
		}
		if c.Mode == "failover" && c.Servers >= 2 {
			for k := 1; k < len(attempts); k++ {
				if attempts[k] == attempts[k-1] {
					return nontrivial, "", fmt.Sprintf("failover retried on the server that just failed (%s): %s", attempts[k], where)
				}
			}
		}
		if c.Mode == "failtry" {
			for k := 1; k < len(attempts); k++ {
				if attempts[k] != attempts[0] {
					return nontrivial, "", "failtry changed server: " + where
				}
			}
		}
	}
	return nontrivial, "", ""
}

func verdict(t interface{ Fatalf(string, ...interface{}) }, sub, test string, c Case, key, problem string) {
	if problem == "" {
		return
	}
	if key != "" && ev.S.Known(key) {
		ev.S.Exclude(key, c.String()+" => "+problem)
		return
	}
	ev.S.Violation(sub, test, c.String(), problem, c)
	t.Fatalf("%s: %s", c, problem)
}

func scripts(n int) []string {
	var out []string
	var gen func(p string)
	gen = func(p string) {
		if len(p) == n {
			out = append(out, p)
			return
		}
		for _, ch := range "sep" {
			gen(p + string(ch))
		}
	}
	gen("")
	return out
}

// TestExhaustiveSingle enumerates the whole single-call space on a fresh instance.
func TestExhaustiveSingle(t *testing.T) {
	retries := []int{0, 1, 2, 3}
	idx := 0
	for _, mode := range []string{"failover", "failtry", "failfast"} {
		for _, n := range []int{1, 2, 3, 4} {
			for _, retry := range retries {
				for _, idem := range []bool{false, true} {
					for _, io := range []int{-1, 0, 1} {
						for _, ro := range []int{-1, 0, 1, 2} {
							eff := retry
							if ro >= 0 {
								eff = ro
							}
							for _, s := range scripts(eff + 2) {
								idx++
								if idx%ev.S.NShards != ev.S.Shard {
									continue
								}
								c := Case{mode, n, retry, idem, []Call{{Script: s, IdemOv: io, RetryOv: ro}}}
								ev.S.Begin("single", c.String())
								nt, key, problem := run(c)
								ev.S.Case("single", c.String(), nt, "mode="+mode, fmt.Sprintf("n=%d", n))
								verdict(t, "single", "TestExhaustiveSingle", c, key, problem)
							}
						}
					}
				}
			}
		}
	}
	ev.S.Exhaustive("single", true)
	ev.S.Note("exhaustive_bound_single", "scripts {s,e,p}^(retry+2) x retry 0..3 x plugin idempotent x per-call idempotent {unset,false,true} x per-call retry {unset,0,1,2} x servers 1..4 x {failover,failtry,failfast}, each on a fresh cluster instance")
}

func genCall(rt *rapid.T, label string) Call {
	return Call{
		Script:  rapid.StringOfN(rapid.SampledFrom([]rune("seeepp")), 1, 6, -1).Draw(rt, label+"script"),
		IdemOv:  rapid.SampledFrom([]int{-1, -1, 0, 1}).Draw(rt, label+"idem"),
		RetryOv: rapid.SampledFrom([]int{-1, -1, -1, 0, 1, 2, 5}).Draw(rt, label+"retry"),
		Spell:   rapid.SampledFrom([]int{0, 0, 0, 1, 2, 3, 4, 5}).Draw(rt, label+"spelling"),
	}
}

// TestHistories: several calls on one cluster instance (the failover rotation outlives a call).
func TestHistories(t *testing.T) {
	ev.Check(t, "histories", ev.N(6000, 200000), func(rt *rapid.T) {
		c := Case{
			Mode:    rapid.SampledFrom([]string{"failover", "failover", "failtry", "failfast"}).Draw(rt, "mode"),
			Servers: rapid.IntRange(1, 5).Draw(rt, "servers"),
			Retry:   rapid.IntRange(0, 5).Draw(rt, "retry"),
			Idem:    rapid.Bool().Draw(rt, "idem"),
		}
		n := rapid.IntRange(1, 6).Draw(rt, "ncalls")
		for i := 0; i < n; i++ {
			c.Calls = append(c.Calls, genCall(rt, fmt.Sprintf("c%d.", i)))
		}
		ev.S.Begin("histories", c.String())
		nt, key, problem := run(c)
		ev.S.Case("histories", c.String(), nt && len(c.Calls) > 1, "mode="+c.Mode)
		verdict(rt, "histories", "TestHistories", c, key, problem)
	})
}

// ---------------------------------------------------------------- forking / broadcast

type FanCase struct {
	Kind     string `json:"kind"`     // forking | broadcast
	Outcomes string `json:"outcomes"` // per server: s e p
	Order    []int  `json:"order"`    // completion order: server indices
}

func (c FanCase) String() string {
	return fmt.Sprintf("%s outcomes=%s order=%v", c.Kind, c.Outcomes, c.Order)
}

type fanServer struct {
	release chan struct{}
	done    chan struct{}
}

func runFan(c FanCase) (bool, string) {
	n := len(c.Outcomes)
	client := core.NewClient(urls(n)...)
	client.Timeout = 0
	if c.Kind == "forking" {
		client.Use(cluster.Forking)
	} else {
		client.Use(cluster.Broadcast)
	}
	var mu sync.Mutex
	hits := map[string]int{}
	servers := make([]fanServer, n)
	for i := range servers {
		servers[i] = fanServer{make(chan struct{}), make(chan struct{}, 8)}
	}
	client.Use(func(ctx context.Context, request []byte, next core.NextIOHandler) ([]byte, error) {
		host := core.GetClientContext(ctx).URL.Host
		var i int
		fmt.Sscanf(host, "s%d", &i)
		mu.Lock()
		hits[host]++
		mu.Unlock()
		if i < 0 || i >= n {
			return nil, fmt.Errorf("bad host %s", host)
		}
		<-servers[i].release
		defer func() { servers[i].done <- struct{}{} }()
		switch c.Outcomes[i] {
		case 's':
			return []byte(fmt.Sprintf("Rs3\"ok%d\"z", i)), nil
		case 'e':
			return nil, fmt.Errorf("err-s%d", i)
		default:
			panic(fmt.Sprintf("panic-s%d", i))
		}
	})
	type ret struct {
		res []interface{}
		err error
	}
	out := make(chan ret, 1)
	go func() {
		res, err := client.Invoke("fn", nil)
		out <- ret{res, err}
	}()
	var got *ret
	firstSucc := -1
	wait := func(d time.Duration) bool {
		if got != nil {
			return true
		}
		select {
		case r := <-out:
			got = &r
			return true
		case <-time.After(d):
			return false
		}
	}
	for _, i := range c.Order {
		close(servers[i].release)
		select {
		case <-servers[i].done:
		case <-time.After(10 * time.Second):
			return true, fmt.Sprintf("server s%d was never invoked", i)
		}
		if c.Kind == "forking" && c.Outcomes[i] == 's' && firstSucc < 0 {
			firstSucc = i
			if !wait(10 * time.Second) {
				return true, fmt.Sprintf("forking did not return after the first success (s%d)", i)
			}
		}
	}
	if !wait(10 * time.Second) {
		return true, "call did not return after every server had answered"
	}
	mu.Lock()
	defer mu.Unlock()
	nontrivial := strings.ContainsAny(c.Outcomes, "ep")
	where := fmt.Sprintf("hits=%v res=%v err=%v", hits, got.res, got.err)
	for i := 0; i < n; i++ {
		if h := hits[fmt.Sprintf("s%d", i)]; h != 1 {
			return nontrivial, fmt.Sprintf("server s%d invoked %d times, expected exactly once: %s", i, h, where)
		}
	}
	if len(hits) != n {
		return nontrivial, "an unconfigured server was invoked: " + where
	}
	anySucc := strings.Contains(c.Outcomes, "s")
	if c.Kind == "forking" {
		if anySucc {
			if got.err != nil || len(got.res) != 1 || got.res[0] != fmt.Sprintf("ok%d", firstSucc) {
				return nontrivial, fmt.Sprintf("forking did not return the first successful response (s%d): %s", firstSucc, where)
			}
		} else {
			if got.err == nil {
				return nontrivial, "forking succeeded although every server failed: " + where
			}
			ok := false
			for i := 0; i < n; i++ {
				if strings.Contains(got.err.Error(), fmt.Sprintf("err-s%d", i)) || strings.Contains(got.err.Error(), fmt.Sprintf("panic-s%d", i)) {
					ok = true
				}
			}
			if !ok {
				return nontrivial, "forking error is not one a server produced: " + where
			}
		}
		return nontrivial, ""
	}
	// broadcast: result[i] is server i's response; an error iff some server failed
	if strings.ContainsAny(c.Outcomes, "ep") != (got.err != nil) {
		return nontrivial, "broadcast error-ness does not match the servers' outcomes: " + where
	}
	if len(got.res) != n {
		return nontrivial, "broadcast result has wrong length: " + where
	}
	for i := 0; i < n; i++ {
		if c.Outcomes[i] == 's' {
			r, _ := got.res[i].([]interface{})
			if len(r) != 1 || r[0] != fmt.Sprintf("ok%d", i) {
				return nontrivial, fmt.Sprintf("broadcast slot %d does not hold server s%d's response: %s", i, i, where)
			}
		}
	}
	return nontrivial, ""
}

func perms(n int) [][]int {
	var out [][]int
	var rec func(cur []int, used int)
	rec = func(cur []int, used int) {
		if len(cur) == n {
			out = append(out, append([]int(nil), cur...))
			return
		}
		for i := 0; i < n; i++ {
			if used&(1<<i) == 0 {
				rec(append(cur, i), used|1<<i)
			}
		}
	}
	rec(nil, 0)
	return out
}

// TestExhaustiveFan: every outcome assignment x every completion order for n <= 4 servers.
func TestExhaustiveFan(t *testing.T) {
	idx := 0
	maxN := ev.Pick(4, 5)
	for _, kind := range []string{"forking", "broadcast"} {
		for n := 1; n <= maxN; n++ {
			for _, oc := range scripts(n) {
				for _, order := range perms(n) {
					idx++
					if idx%ev.S.NShards != ev.S.Shard {
						continue
					}
					c := FanCase{kind, oc, order}
					ev.S.Begin("fan", c.String())
					nt, problem := runFan(c)
					ev.S.Case("fan", c.String(), nt, "kind="+kind, fmt.Sprintf("n=%d", n))
					if problem != "" {
						ev.S.Violation("fan", "TestExhaustiveFan", c.String(), problem, c)
						t.Fatalf("%s: %s", c, problem)
					}
				}
			}
		}
	}
	ev.S.Exhaustive("fan", true)
	ev.S.Note("exhaustive_bound_fan", fmt.Sprintf("forking and broadcast: every assignment of {success,error,panic} to n<=%d servers x every completion order (forced by the harness holding each server's answer)", maxN))
}

// TestReplay re-executes one explicit case.
func TestReplay(t *testing.T) {
	var raw map[string]interface{}
	sub, ok := ev.ReplayCase(&raw)
	if !ok {
		t.Skip("no explicit replay case")
	}
	if sub == "fan" {
		var c FanCase
		ev.ReplayCase(&c)
		if _, problem := runFan(c); problem != "" {
			ev.S.Violation(sub, "TestReplay", c.String(), problem, c)
			t.Fatalf("%s: %s", c, problem)
		}
		return
	}
	var c Case
	ev.ReplayCase(&c)
	_, key, problem := run(c)
	verdict(t, sub, "TestReplay", c, key, problem)
}

// TestFinding re-executes the reproducer of one open known finding.
func TestFinding(t *testing.T) {
	key := ev.FindingKey()
	switch key {
	default:
		t.Skip("no open finding " + key)
	}
}
