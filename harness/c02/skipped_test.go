package c02

import (
	"fmt"
	"math/big"
	"reflect"
	"testing"
	"time"

	hio "github.com/hprose/hprose-golang/v3/io"
	"verif/hp/ev"
	"verif/hp/uni"
)

// TestSkippedMembers: the receiver's struct lacks a member the sender's class has. The member is read and
// dropped, but whatever it contained keeps its place in the reference table: an item that occurred first
// inside the dropped member and is referred to again by a member the receiver keeps must resolve to that
// item, and every later index must stay aligned. Enumerated over the kinds of referable items, the shapes
// of the dropped member and the destinations; the oracle is the decode into the full type.
type SkWide struct {
	Before string
	Drop   interface{}
	Keep   interface{}
	After  string
	Again  interface{}
}

type SkNarrow struct {
	Before string
	Keep   interface{}
	After  string
	Again  interface{}
}

type SkNarrowTail struct { // lacks the dropped member and everything before it
	Keep  interface{}
	Again interface{}
}

type SkItem struct {
	A int
	S string
}

func TestSkippedMembers(t *testing.T) {
	hio.RegisterName("SkItem", (*SkItem)(nil))
	shared := &SkItem{A: 7, S: "item"}
	pi := 42
	bi := big.NewInt(1234567890123)
	tm := time.Date(2021, 2, 3, 4, 5, 6, 7, time.UTC)
	l := []interface{}{"in-list", 3}
	m := map[string]interface{}{"k": "in-map"}
	items := []struct {
		name string
		v    interface{}
	}{
		{"string", "a string of some length"},
		{"bytes", []byte("some bytes")},
		{"pointer to struct", shared},
		{"list", l},
		{"map", m},
		{"pointer to int", &pi},
		{"big integer", bi},
		{"pointer to time", &tm},
		{"pointer to list", &l},
	}
	shapes := []struct {
		name string
		wrap func(v interface{}) interface{}
	}{
		{"the item itself", func(v interface{}) interface{} { return v }},
		{"a list holding it", func(v interface{}) interface{} { return []interface{}{"filler", v, 1} }},
		{"a map holding it", func(v interface{}) interface{} { return map[string]interface{}{"x": v, "y": "filler"} }},
		{"an object holding it", func(v interface{}) interface{} { return &SkWide{Before: "inner", Keep: v} }},
		{"a list holding it twice", func(v interface{}) interface{} { return []interface{}{v, v} }},
	}
	hio.RegisterName("SkWide", (*SkWide)(nil))
	k := 0
	for _, it := range items {
		for _, sh := range shapes {
			for _, simple := range []bool{false, true} {
				for _, dest := range []string{"narrow", "narrow-tail", "generic-narrow"} {
					k++
					if ev.S.NShards > 1 && k%ev.S.NShards != ev.S.Shard {
						continue
					}
					canon := fmt.Sprintf("sender's object {Before, Drop=%s (%s), Keep=the same item, After, Again=the item once more}; receiver %s; simple=%v", sh.name, it.name, dest, simple)
					ev.S.Begin("skipped-members", canon)
					src := &SkWide{Before: "before", Drop: sh.wrap(it.v), Keep: it.v, After: "after", Again: it.v}
					data, err := hio.Formatter{Simple: simple}.Marshal(src)
					problem := ""
					if err != nil {
						problem = "harness: cannot encode: " + err.Error()
					}
					var full SkWide
					if problem == "" {
						if err := (hio.Formatter{Simple: simple}).Unmarshal(data, &full); err != nil {
							problem = "harness: the full type does not decode: " + err.Error()
						}
					}
					if problem == "" {
						var keep, again reflect.Value
						var derr error
						switch dest {
						case "narrow":
							var n SkNarrow
							derr = (hio.Formatter{Simple: simple}).Unmarshal(data, &n)
							keep, again = reflect.ValueOf(&n.Keep).Elem(), reflect.ValueOf(&n.Again).Elem()
							if derr == nil && (n.Before != "before" || n.After != "after") {
								problem = fmt.Sprintf("the members around the dropped one came back as %q / %q", n.Before, n.After)
							}
						case "narrow-tail":
							var n SkNarrowTail
							derr = (hio.Formatter{Simple: simple}).Unmarshal(data, &n)
							keep, again = reflect.ValueOf(&n.Keep).Elem(), reflect.ValueOf(&n.Again).Elem()
						default:
							// the class is registered to the narrow type and the destination is interface{}
							hio.RegisterName("SkWide", (*SkNarrow)(nil))
							var v interface{}
							derr = (hio.Formatter{Simple: simple}).Unmarshal(data, &v)
							hio.RegisterName("SkWide", (*SkWide)(nil))
							if n, ok := v.(*SkNarrow); ok {
								keep, again = reflect.ValueOf(&n.Keep).Elem(), reflect.ValueOf(&n.Again).Elem()
							} else if derr == nil {
								problem = fmt.Sprintf("decoded as %T", v)
							}
						}
						switch {
						case problem != "":
						case derr != nil:
							problem = fmt.Sprintf("the receiver that lacks the member fails with %q; the full type decodes", derr)
						default:
							wantKeep, wantAgain := uni.FromGo(reflect.ValueOf(&full.Keep).Elem()).String(), uni.FromGo(reflect.ValueOf(&full.Again).Elem()).String()
							if g := uni.FromGo(keep).String(); g != wantKeep {
								problem = fmt.Sprintf("Keep decodes as %s in the full type and as %s in the receiver that lacks the dropped member", wantKeep, g)
							} else if g := uni.FromGo(again).String(); g != wantAgain {
								problem = fmt.Sprintf("Again decodes as %s in the full type and as %s in the receiver that lacks the dropped member", wantAgain, g)
							}
						}
					}
					ev.S.Case("skipped-members", canon, !simple, "skipped="+dest, "skipped-item="+it.name)
					if problem != "" {
						detail := fmt.Sprintf("%s\nwire: %q", problem, trunc(string(data), 400))
						ev.S.Violation("skipped-members", "TestSkippedMembers", canon, detail, nil)
						t.Fatalf("%s\n=> %s", canon, detail)
					}
				}
			}
		}
	}
	ev.S.Exhaustive("skipped-members", true)
}
