// C02 — reference mode preserves shared and cyclic object graphs.
package c02

import (
	"bytes"
	"fmt"
	"math/big"
	"os"
	"reflect"
	"strings"
	"testing"
	"time"

	hio "github.com/hprose/hprose-golang/v3/io"
	"pgregory.net/rapid"
	"verif/hp/ev"
	"verif/hp/ref"
	"verif/hp/uni"
)

func TestMain(m *testing.M) {
	time.Local = time.FixedZone("VERIF", 8*3600)
	for _, st := range uni.Structs {
		hio.Register(reflect.New(st).Interface())
	}
	for _, st := range uni.GraphTypes {
		hio.Register(reflect.New(st).Interface())
	}
	ev.Main(m, "C02")
}

type finding struct {
	key   string
	match func(g *uni.Graph, dest, problem string) bool
}

var findings = []finding{
	{"bigfloat-shortest-digits", func(g *uni.Graph, dest, problem string) bool {
		hasBF := false
		for _, c := range g.Clutter {
			if strings.Contains(c, "WithTime") || strings.Contains(c, "big.Float") {
				hasBF = true
			}
		}
		return hasBF && strings.Contains(problem, "[1 ulp apart at the original precision]")
	}},
}

func classify(g *uni.Graph, dest, problem string) string {
	for _, k := range findings {
		if ev.S.Known(k.key) && k.match(g, dest, problem) {
			return k.key
		}
	}
	return ""
}

func guard(f func()) (p string) {
	defer func() {
		if e := recover(); e != nil {
			p = fmt.Sprint(e)
		}
	}()
	f()
	return ""
}

// checkGraph returns (wire, stage, problem). dest is "typed" or "iface".
func checkGraph(g *uni.Graph, dest string) ([]byte, string) {
	var wire []byte
	var err error
	if p := guard(func() { wire, err = hio.Formatter{Simple: false}.Marshal(g.Root) }); p != "" {
		return nil, "encoder panicked: " + p
	}
	if err != nil {
		if strings.Contains(err.Error(), "year") && strings.Contains(err.Error(), "out of range") {
			return wire, "" // a clutter time that the format cannot carry: rejected through the error, as required (C01)
		}
		return wire, "encoder error: " + err.Error()
	}
	// (2),(3) independent reader: well-formed, every back-reference resolves to what the encoder meant
	want := uni.FromGo(reflect.ValueOf(g.Root))
	node, p, perr := ref.ParseOne(wire)
	if perr != nil {
		return wire, "stream is not well-formed: " + perr.Error()
	}
	if !ref.EqualOpt(want, node, ref.Options{NilIsEmpty: true}) {
		return wire, "independent reader: the stream does not denote the graph: first difference at " + ref.Diff(want, node, ref.Options{NilIsEmpty: true})
	}
	// written once: one object definition per distinct reachable node
	distinct := uni.CountStructPointers(reflect.ValueOf(g.Root))
	if objs := countGraphObjects(p, wire); objs != distinct {
		return wire, fmt.Sprintf("%d distinct nodes are reachable but the stream defines %d G1/G2 objects (each distinct object must be written once)", distinct, objs)
	}
	// (4) the library's own decoder
	var got reflect.Value
	var derr error
	if dest == "typed" {
		var out *uni.G1
		if p := guard(func() { derr = hio.Formatter{Simple: false, LongType: hio.LongTypeBigInt}.Unmarshal(wire, &out) }); p != "" {
			return wire, "decoder panicked: " + p
		}
		got = reflect.ValueOf(out)
	} else {
		var out interface{}
		if p := guard(func() { derr = hio.Formatter{Simple: false, LongType: hio.LongTypeBigInt}.Unmarshal(wire, &out) }); p != "" {
			return wire, "decoder panicked: " + p
		}
		got = reflect.ValueOf(&out).Elem()
	}
	if derr != nil {
		return wire, "decoder error: " + derr.Error()
	}
	var gotNode *ref.Node
	if p := guard(func() { gotNode = uni.FromGo(got) }); p != "" {
		return wire, "decoded value cannot be traversed: " + p
	}
	if !ref.EqualOpt(want, gotNode, ref.Options{NilIsEmpty: true}) {
		return wire, "decoded graph differs from the original (same unfolding expected): first difference at " + ref.Diff(want, gotNode, ref.Options{NilIsEmpty: true})
	}
	if n := uni.CountStructPointers(got); n != distinct {
		return wire, fmt.Sprintf("aliasing not preserved: the original has %d distinct nodes, the decoded graph %d", distinct, n)
	}
	return wire, ""
}

func countGraphObjects(p *ref.Parser, wire []byte) int {
	n := 0
	for _, r := range p.Refs() {
		if r.Kind == ref.Object && (r.Class.Name == "G1" || r.Class.Name == "G2") {
			n++
		}
	}
	return n
}

func runGraph(tb interface{ Fatalf(string, ...interface{}) }, sub, test string, g *uni.Graph, dest string) {
	canon := fmt.Sprintf("dest=%s %s root=%s", dest, g.Desc, trunc(uni.FromGo(reflect.ValueOf(g.Root)).String(), 500))
	ev.S.Begin(sub, canon)
	wire, problem := checkGraph(g, dest)
	classes := []string{"dest=" + dest}
	if g.Cyclic {
		classes = append(classes, "has-cycle")
	}
	if g.Shared {
		classes = append(classes, "has-sharing")
	}
	for _, c := range g.Clutter {
		classes = append(classes, "clutter="+c)
	}
	ev.S.Case(sub, canon, bytes.Contains(wire, []byte("r")), classes...)
	if problem == "" {
		return
	}
	detail := fmt.Sprintf("%s\nwire: %q", problem, trunc(string(wire), 700))
	if key := classify(g, dest, problem); key != "" {
		ev.S.Exclude(key, trunc(canon, 200)+" => "+trunc(detail, 300))
		return
	}
	if os.Getenv("VERIF_TRIAGE") != "" {
		fmt.Printf("TRIAGE %s | %s | wire=%q\n", strings.ReplaceAll(trunc(problem, 300), "\n", " // "), trunc(canon, 300), trunc(string(wire), 300))
		return
	}
	ev.S.Violation(sub, test, canon, detail, nil)
	tb.Fatalf("%s\n=> %s", canon, detail)
}

func trunc(s string, n int) string {
	if len(s) > n {
		return s[:n] + "…"
	}
	return s
}

func TestGraphs(t *testing.T) {
	ev.Check(t, "graphs", ev.N(30000, 3000000), func(rt *rapid.T) {
		g := uni.GenGraph(rt, rapid.IntRange(0, 3).Draw(rt, "acyclic") == 0)
		dest := rapid.SampledFrom([]string{"typed", "iface"}).Draw(rt, "dest")
		runGraph(rt, "graphs", "TestGraphs", g, dest)
	})
}

func TestFinding(t *testing.T) {
	key := ev.FindingKey()
	if r, ok := reproducers[key]; ok {
		reproduced, detail := r()
		ev.FindingResult(key, reproduced, detail)
		return
	}
	t.Skip("no open finding " + key)
}

var reproducers = map[string]func() (bool, string){
	"bigfloat-shortest-digits": func() (bool, string) {
		x, _, _ := big.ParseFloat("3.56011817361152221294437234773184650275074557e-307", 10, 53, big.ToNearestEven)
		g := &uni.Graph{Root: &uni.G1{Name: "n", Clutter: uni.WithTime{Bf: x}}, Clutter: []string{"uni.WithTime"}}
		_, problem := checkGraph(g, "typed")
		return strings.Contains(problem, "1 ulp apart"), problem
	},
}
