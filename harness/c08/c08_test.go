// C08 — a remote call returns what the service function returns, on every transport.
package c08

import (
	"context"
	"fmt"
	"math/big"
	"os"
	"reflect"
	"sort"
	"strings"
	"sync"
	"testing"
	"time"
	"unicode"

	"github.com/google/uuid"
	hio "github.com/hprose/hprose-golang/v3/io"
	"github.com/hprose/hprose-golang/v3/rpc/core"
	"pgregory.net/rapid"
	"verif/hp/ev"
	"verif/hp/ref"
	"verif/hp/svc"
	"verif/hp/tp"
	"verif/hp/uni"
)

type Proxy struct {
	NoArgs   func() error
	Hello    func(string) (string, error)
	Add      func(int, int) (int, error)
	Scalars  func(int8, uint32, float64, string, []byte, bool, float32, int64, uint64) (string, int64, error)
	Structs  func(uni.Plain, *uni.Plain, []uni.Plain, map[string]uni.Plain) (uni.Plain, *uni.Plain, int, error)
	Ptrs     func(*int, *string, **float64) (*int, *string, error)
	Slices   func([]int, []string, [][]byte, []interface{}, []float64) ([]string, []int, error)
	Maps     func(map[string]int, map[string]interface{}, map[int]string) (map[string]int, int, error)
	Echo     func(interface{}) (interface{}, error)
	Join     func(string, ...string) (string, error)
	Sum      func(...int) (int, error)
	Any      func(...interface{}) (int, error)
	WithCtx  func(int, string) (string, error)
	Special  func(time.Time, uuid.UUID, *big.Int, []time.Time) (time.Time, uuid.UUID, *big.Int, error)
	Multi    func(int) (int, string, []int, error)
	Repeat   func(string) (string, string, string, error)
	Tree     func(uni.Tree) (uni.Tree, error)
	Nothing  func(string)
	OnlyErr  func(string) error
	CtxAny   func(string, interface{}) (string, error)
	CtxVar   func(int, ...interface{}) (int, error)
	CtxMap   func(map[string]int, interface{}, *int) (int, error)
	Div      func(int, int) (int, error)
	Positive func(int) error
	Index    func([]int, int) (int, error)
	Quot     func(int, int) (int, error)
	Deref    func(*int) (int, error)
}

var proxyField = map[string]string{"noArgs": "NoArgs", "hello": "Hello", "add": "Add", "Scalars": "Scalars", "structs": "Structs", "ptrs": "Ptrs", "slices": "Slices", "maps": "Maps",
	"echo": "Echo", "join": "Join", "sum": "Sum", "any": "Any", "withCtx": "WithCtx", "special": "Special", "multi": "Multi", "repeat": "Repeat", "tree": "Tree", "nothing": "Nothing", "onlyErr": "OnlyErr", "ctxAny": "CtxAny", "ctxVar": "CtxVar", "ctxMap": "CtxMap", "div": "Div", "positive": "Positive", "index": "Index", "quot": "Quot", "deref": "Deref"}

var ctxType = reflect.TypeOf((*context.Context)(nil)).Elem()

// ctxProxyType is Proxy with a leading context.Context parameter on every function.
var ctxProxyType = func() reflect.Type {
	pt := reflect.TypeOf(Proxy{})
	var fields []reflect.StructField
	for i := 0; i < pt.NumField(); i++ {
		f := pt.Field(i)
		ft := f.Type
		ins := []reflect.Type{ctxType}
		for k := 0; k < ft.NumIn(); k++ {
			ins = append(ins, ft.In(k))
		}
		var outs []reflect.Type
		for k := 0; k < ft.NumOut(); k++ {
			outs = append(outs, ft.Out(k))
		}
		fields = append(fields, reflect.StructField{Name: f.Name, Type: reflect.FuncOf(ins, outs, ft.IsVariadic())})
	}
	return reflect.StructOf(fields)
}()

type endpoint struct {
	kind    string
	pool    bool
	server  *tp.Server
	clients map[string]*core.Client // by codec variant
	proxies map[string]*Proxy
	ctxProx map[string]reflect.Value // by codec variant: pointer to a ctxProxyType value
	nsProxy map[string]*struct {
		Hello func(string) (string, error)
	}
}

var (
	endpoints   []*endpoint
	missingEP   *endpoint
	noMissingEP *endpoint
	callMu      sync.Mutex // the recorder is process-wide: one call at a time in this check
)

var codecVariants = map[string][]core.CodecOption{
	"default": nil,
	"simple":  {core.WithSimple(true)},
	"bigint":  {core.WithLongType(hio.LongTypeBigInt), core.WithMapType(hio.MapTypeSIMap)},
}

func newService(missing bool) *core.Service {
	s := core.NewService()
	for _, f := range svc.Catalogue {
		s.AddFunction(f.F, f.Name)
	}
	if missing {
		s.AddMissingMethod(func(name string, args []interface{}) ([]interface{}, error) {
			svc.Rec.Calls = append(svc.Rec.Calls, svc.Call{Name: "*" + name, Args: args})
			return []interface{}{"missing:" + name, len(args)}, nil
		})
	}
	return s
}

func mkEndpoint(kind string, pool, missing bool) *endpoint {
	n := 0
	if pool {
		n = 4
	}
	return mkEndpointPool(kind, n, missing)
}

func mkEndpointPool(kind string, poolSize int, missing bool) *endpoint {
	s := newService(missing)
	pool := poolSize > 0
	if pool {
		tp.SetPool(s, tp.NewGoPool(poolSize))
	}
	srv, err := tp.Start(kind, s)
	if err != nil {
		panic(fmt.Sprintf("cannot start %s: %v", kind, err))
	}
	ep := &endpoint{kind: kind, pool: pool, server: srv, clients: map[string]*core.Client{}, proxies: map[string]*Proxy{}, ctxProx: map[string]reflect.Value{}, nsProxy: map[string]*struct {
		Hello func(string) (string, error)
	}{}}
	for name, opts := range codecVariants {
		c := srv.Client(20 * time.Second)
		if opts != nil {
			c.Codec = core.NewClientCodec(opts...)
		}
		ep.clients[name] = c
		p := &Proxy{}
		c.UseService(p)
		ep.proxies[name] = p
		cp := reflect.New(ctxProxyType)
		c.UseService(cp.Interface())
		ep.ctxProx[name] = cp
		ns := &struct {
			Hello func(string) (string, error)
		}{}
		c.UseService(ns, "ns")
		ep.nsProxy[name] = ns
	}
	return ep
}

func TestMain(m *testing.M) {
	time.Local = time.FixedZone("VERIF", 8*3600)
	for _, st := range uni.Structs {
		hio.Register(reflect.New(st).Interface())
	}
	ev.Main(m, "C08")
}

func setupEndpoints() {
	if endpoints != nil {
		return
	}
	for _, kind := range tp.Kinds {
		endpoints = append(endpoints, mkEndpoint(kind, false, false))
		switch kind {
		case "tcp", "udp", "ws":
			endpoints = append(endpoints, mkEndpoint(kind, true, false))
		}
	}
	for _, kind := range []string{"tcp", "ws", "udp", "wsfast", "unix"} {
		ep := mkEndpointPool(kind, 1, false)
		endpoints = append(endpoints, ep)
	}
	missingEP = mkEndpoint("tcp", false, true)
	noMissingEP = endpoints[1]
}

var safeDynamic = []reflect.Type{reflect.TypeOf(false), reflect.TypeOf(""), reflect.TypeOf(int32(0)), reflect.TypeOf(float32(0)),
	reflect.TypeOf([]interface{}(nil)), reflect.TypeOf(map[string]interface{}(nil))}

var genOpts = uni.Opts{NoBadYears: true, NoLaxUTF8: true, NoBigPrec: true, MaxLen: 4, IfaceDynamic: safeDynamic}

func paramType(f svc.Fn, i int) reflect.Type {
	n := len(f.In)
	if f.Variadic {
		if i < n-1 {
			return f.In[i]
		}
		return f.In[n-1].Elem()
	}
	return f.In[i]
}

type callCase struct {
	ep      *endpoint
	codec   string
	f       svc.Fn
	args    []reflect.Value
	mode    string // proxy | invoke | ns | ctxproxy
	name    string
	outcome string          // ok | error | panic
	ctx     context.Context // ctxproxy: the caller's context, possibly shared with other calls
}

func spell(rt *rapid.T, name string) string {
	switch rapid.IntRange(0, 3).Draw(rt, "spelling") {
	case 0:
		return name
	case 1:
		return strings.ToUpper(name)
	case 2:
		return strings.ToLower(name)
	}
	var b strings.Builder
	for i, r := range name {
		if i%2 == 0 {
			b.WriteRune(unicode.ToUpper(r))
		} else {
			b.WriteRune(unicode.ToLower(r))
		}
	}
	return b.String()
}

func genCall(rt *rapid.T) callCase {
	return genCallFor(rt, rapid.SampledFrom(endpoints).Draw(rt, "endpoint"))
}

func genCallFor(rt *rapid.T, ep *endpoint) callCase {
	c := callCase{ep: ep, codec: rapid.SampledFrom([]string{"default", "simple", "bigint"}).Draw(rt, "codec")}
	c.f = rapid.SampledFrom(svc.Catalogue).Draw(rt, "fn")
	n := len(c.f.In)
	count := n
	if c.f.Variadic {
		count = n - 1 + rapid.IntRange(0, 4).Draw(rt, "tail")
	}
	c.outcome = "ok"
	for i := 0; i < count; i++ {
		c.args = append(c.args, uni.Gen(rt, paramType(c.f, i), 2, genOpts))
	}
	// make it fail on purpose now and then (functions whose first string parameter triggers it)
	if len(c.args) > 0 {
		switch c.f.Name {
		case "hello", "join", "onlyErr", "名字", "привет", "ns_hello", "withCtx", "nothing":
			si := 0
			if c.f.Name == "withCtx" {
				si = 1
			}
			msg := rapid.SampledFrom([]string{"boom", "故障 42", "e\"q", "x"}).Draw(rt, "msg")
			switch rapid.IntRange(0, 5).Draw(rt, "fail") {
			case 0:
				if c.f.Err {
					c.args[si] = reflect.ValueOf(svc.ErrTrigger + msg)
					c.outcome = "error"
				}
			case 1:
				c.args[si] = reflect.ValueOf(svc.PanicTrigger + msg)
				c.outcome = "panic"
			}
		}
	}
	if c.outcome == "ok" && rapid.IntRange(0, 11).Draw(rt, "bigArgument") == 0 {
		// one argument of several KiB to several hundred KiB (beyond what sits in a transport's first read)
		for i, a := range c.args {
			var big reflect.Value
			n := rapid.SampledFrom([]int{5000, 20000, 70000, 300000}).Draw(rt, "bigSize")
			if ep != nil && ep.kind == "udp" && n > 20000 {
				n = 20000
			}
			switch {
			case a.Type() == reflect.TypeOf(""):
				big = reflect.ValueOf(strings.Repeat("big argument ", n/13+1)[:n])
			case a.Type() == reflect.TypeOf([]byte(nil)):
				big = reflect.ValueOf([]byte(strings.Repeat("B", n)))
			case a.Type() == reflect.TypeOf([]string(nil)):
				big = reflect.ValueOf([]string{strings.Repeat("s", n/2), strings.Repeat("t", n/2)})
			default:
				continue
			}
			c.args[i] = big
			break
		}
	}
	c.mode = "invoke"
	c.name = c.f.Name
	if _, ok := proxyField[c.f.Name]; ok && rapid.Bool().Draw(rt, "viaProxy") {
		c.mode = "proxy"
	} else if c.f.Name == "ns_hello" && rapid.Bool().Draw(rt, "viaNS") {
		c.mode = "ns"
	} else {
		c.name = spell(rt, c.f.Name)
	}
	return c
}

func (c callCase) String() string {
	var a []string
	for _, v := range c.args {
		s := uni.FromGo(v).String()
		if len(s) > 100 {
			s = s[:100] + "…"
		}
		a = append(a, s)
	}
	if c.ep == nil {
		return fmt.Sprintf("%s %s(%s) expect=%s", c.mode, c.name, strings.Join(a, ", "), c.outcome)
	}
	return fmt.Sprintf("%s pool=%v codec=%s %s %s(%s) expect=%s", c.ep.kind, c.ep.pool, c.codec, c.mode, c.name, strings.Join(a, ", "), c.outcome)
}

type remoteResult struct {
	vals     []reflect.Value
	err      error
	panicked interface{}
}

func ifaces(vals []reflect.Value) []interface{} {
	out := make([]interface{}, len(vals))
	for i, v := range vals {
		out[i] = v.Interface()
	}
	return out
}

func (c callCase) remote() (r remoteResult) {
	defer func() {
		if e := recover(); e != nil {
			r.panicked = e
		}
	}()
	switch c.mode {
	case "proxy":
		fv := reflect.ValueOf(c.ep.proxies[c.codec]).Elem().FieldByName(proxyField[c.f.Name])
		out := fv.Call(c.args)
		if n := len(out); n > 0 && out[n-1].Type() == reflect.TypeOf((*error)(nil)).Elem() {
			if !out[n-1].IsNil() {
				r.err = out[n-1].Interface().(error)
			}
			out = out[:n-1]
		}
		r.vals = out
	case "ctxproxy":
		fv := c.ep.ctxProx[c.codec].Elem().FieldByName(proxyField[c.f.Name])
		out := fv.Call(append([]reflect.Value{reflect.ValueOf(c.ctx)}, c.args...))
		if n := len(out); n > 0 && out[n-1].Type() == reflect.TypeOf((*error)(nil)).Elem() {
			if !out[n-1].IsNil() {
				r.err = out[n-1].Interface().(error)
			}
			out = out[:n-1]
		}
		r.vals = out
	case "ns":
		s, err := c.ep.nsProxy[c.codec].Hello(c.args[0].String())
		r.vals, r.err = []reflect.Value{reflect.ValueOf(s)}, err
	default:
		cc := core.NewClientContext()
		cc.ReturnType = c.f.Out
		res, err := c.ep.clients[c.codec].InvokeContext(core.WithContext(context.Background(), cc), c.name, ifaces(c.args))
		r.err = err
		if len(c.f.Out) == 0 && len(res) == 1 && res[0] == nil {
			// InvokeContext without a return type hands back the one generic (null) value of the response
			res = nil
		}
		for i := range res {
			v := reflect.ValueOf(&res[i]).Elem()
			if res[i] == nil && i < len(c.f.Out) {
				v = reflect.Zero(c.f.Out[i])
			}
			r.vals = append(r.vals, v)
		}
	}
	return
}

func eq(want, got reflect.Value) string {
	a, b := uni.FromGo(want), uni.FromGo(got)
	if ref.EqualOpt(a, b, ref.Options{NilIsEmpty: true}) {
		return ""
	}
	return ref.Diff(a, b, ref.Options{NilIsEmpty: true})
}

func check(c callCase) string { return checkWith(c, c.remote) }

func checkWith(c callCase, remote func() remoteResult) string {
	callMu.Lock()
	defer callMu.Unlock()
	// the local call first: the oracle
	svc.Rec.Take()
	lvals, lerr, lpanic := c.f.Local(c.args)
	localCalls := svc.Rec.Take()
	r := remote()
	time.Sleep(0)
	calls := svc.Rec.Take()
	if len(calls) == 0 && r.err != nil && strings.Contains(r.err.Error(), "is out of range [0, 9999]") {
		// a time that falls outside the representable years once converted to the local zone: the encoder refuses it
		return "skip"
	}
	// exactly one invocation, of the right function, with equal arguments
	if len(calls) != 1 {
		return fmt.Sprintf("the function was invoked %d times by one remote call (result %v, err %v, panic %v)", len(calls), r.vals, r.err, r.panicked)
	}
	if len(localCalls) != 1 || calls[0].Name != localCalls[0].Name {
		return fmt.Sprintf("the call invoked %q, the function registered under that name records as %q", calls[0].Name, localCalls[0].Name)
	}
	if len(calls[0].Args) != len(localCalls[0].Args) {
		return fmt.Sprintf("the function saw %d arguments, %d were passed", len(calls[0].Args), len(localCalls[0].Args))
	}
	for i := range calls[0].Args {
		if d := eq(reflect.ValueOf(&localCalls[0].Args[i]).Elem(), reflect.ValueOf(&calls[0].Args[i]).Elem()); d != "" {
			return fmt.Sprintf("argument %d reached the function changed (at %s)", i, d)
		}
	}
	remoteErr := r.err
	if r.panicked != nil {
		// a proxy method without an error result panics with the remote error: that is how it reports it
		remoteErr = fmt.Errorf("%v", r.panicked)
	}
	switch {
	case lpanic != nil:
		if remoteErr == nil || remoteErr.Error() != fmt.Sprint(lpanic) {
			return fmt.Sprintf("the function panicked with %q; the caller got results %v error %v", lpanic, r.vals, remoteErr)
		}
	case lerr != nil:
		if remoteErr == nil || remoteErr.Error() != lerr.Error() {
			return fmt.Sprintf("the function returned error %q; the caller got results %v error %v", lerr, r.vals, remoteErr)
		}
	default:
		if remoteErr != nil {
			return fmt.Sprintf("the function succeeded; the caller got error %v", remoteErr)
		}
		if len(r.vals) != len(lvals) {
			return fmt.Sprintf("the function returned %d values, the caller got %d", len(lvals), len(r.vals))
		}
		for i := range lvals {
			if d := eq(lvals[i], r.vals[i]); d != "" {
				return fmt.Sprintf("result %d differs from what the function returned (at %s)", i, d)
			}
		}
	}
	return ""
}

type finding struct {
	key   string
	match func(c callCase, problem string) bool
}

var findings = []finding{}

func classify(c callCase, problem string) string {
	for _, k := range findings {
		if ev.S.Known(k.key) && k.match(c, problem) {
			return k.key
		}
	}
	return ""
}

func verdict(rt interface{ Fatalf(string, ...interface{}) }, sub, test string, c callCase, problem string) {
	if problem == "" {
		return
	}
	if key := classify(c, problem); key != "" {
		ev.S.Exclude(key, c.String()+" => "+problem)
		return
	}
	if os.Getenv("VERIF_TRIAGE") != "" {
		fmt.Printf("TRIAGE %s | %s\n", strings.ReplaceAll(problem, "\n", " // "), c)
		return
	}
	ev.S.Violation(sub, test, c.String(), problem, nil)
	rt.Fatalf("%s\n=> %s", c, problem)
}

func TestRemoteEqualsLocal(t *testing.T) {
	setupEndpoints()
	ev.Check(t, "remote-vs-local", ev.N(30000, 4000000), func(rt *rapid.T) {
		c := genCall(rt)
		ev.S.Begin("remote-vs-local", c.String())
		problem := check(c)
		if problem == "skip" {
			ev.S.Class("refused-by-encoder", 1)
			return
		}
		nonZero := false
		for _, a := range c.args {
			if !a.IsZero() {
				nonZero = true
			}
		}
		ev.S.Case("remote-vs-local", c.String(), nonZero, "transport="+c.ep.kind+"/"+c.outcome, fmt.Sprintf("fasthttp-client=%v", tp.FastHTTPClient()), "mode="+c.mode, fmt.Sprintf("pool=%v", c.ep.pool), "fn="+c.f.Name)
		verdict(rt, "remote-vs-local", "TestRemoteEqualsLocal", c, problem)
	})
}

// TestConcurrentCalls: several goroutines call through one client at once (pipelined on the multiplexed
// transports, queued behind a small worker pool); every caller must get the result of its own call and the
// service must have seen exactly the calls that were made.
func TestConcurrentCalls(t *testing.T) {
	setupEndpoints()
	byName := map[string]svc.Fn{}
	for _, f := range svc.Catalogue {
		byName[f.Name] = f
	}
	names := []string{"hello", "add", "sum", "join", "repeat", "multi", "echo", "withCtx", "onlyErr"}
	ev.Check(t, "concurrent", ev.N(400, 60000), func(rt *rapid.T) {
		ep := rapid.SampledFrom(endpoints).Draw(rt, "endpoint")
		codec := rapid.SampledFrom([]string{"default", "simple"}).Draw(rt, "codec")
		workers := rapid.IntRange(2, 12).Draw(rt, "callers")
		per := rapid.IntRange(1, 4).Draw(rt, "callsEach")
		var plan [][]callCase
		for w := 0; w < workers; w++ {
			var mine []callCase
			for k := 0; k < per; k++ {
				c := callCase{ep: ep, codec: codec, outcome: "ok", mode: rapid.SampledFrom([]string{"proxy", "invoke"}).Draw(rt, "mode")}
				c.f = byName[rapid.SampledFrom(names).Draw(rt, "fn")]
				c.name = c.f.Name
				tag := fmt.Sprintf("w%d-%d", w, k)
				switch c.f.Name {
				case "hello", "repeat", "onlyErr":
					c.args = []reflect.Value{reflect.ValueOf(tag)}
				case "add":
					c.args = []reflect.Value{reflect.ValueOf(w*1000 + k), reflect.ValueOf(rapid.IntRange(-5, 5).Draw(rt, "b"))}
				case "sum":
					c.args = []reflect.Value{reflect.ValueOf(w), reflect.ValueOf(k), reflect.ValueOf(1000)}
				case "join":
					c.args = []reflect.Value{reflect.ValueOf(tag), reflect.ValueOf("x"), reflect.ValueOf(tag)}
				case "multi":
					c.args = []reflect.Value{reflect.ValueOf(w*1000 + k)}
				case "echo":
					var x interface{} = tag
					c.args = []reflect.Value{reflect.ValueOf(&x).Elem()}
				case "withCtx":
					c.args = []reflect.Value{reflect.ValueOf(w), reflect.ValueOf(tag)}
				}
				if c.f.Name == "onlyErr" && rapid.Bool().Draw(rt, "fail") {
					c.args[0] = reflect.ValueOf(svc.ErrTrigger + tag)
					c.outcome = "error"
				}
				mine = append(mine, c)
			}
			plan = append(plan, mine)
		}
		canon := fmt.Sprintf("%s pool=%v codec=%s %d callers x %d calls: %v", ep.kind, ep.pool, codec, workers, per, plan[0])
		ev.S.Begin("concurrent", canon)
		callMu.Lock()
		defer callMu.Unlock()
		// expected results and recorder entries from the local calls
		type expect struct {
			vals []reflect.Value
			err  error
		}
		want := make([][]expect, workers)
		svc.Rec.Take()
		for w := range plan {
			for _, c := range plan[w] {
				v, e, _ := c.f.Local(c.args)
				want[w] = append(want[w], expect{v, e})
			}
		}
		wantCalls := callBag(svc.Rec.Take())
		problems := make([]string, workers)
		var wg sync.WaitGroup
		for w := range plan {
			wg.Add(1)
			go func(w int) {
				defer wg.Done()
				for k, c := range plan[w] {
					r := c.remote()
					if r.panicked != nil {
						problems[w] = fmt.Sprintf("%s: panic %v", c, r.panicked)
						return
					}
					x := want[w][k]
					if (x.err == nil) != (r.err == nil) || (x.err != nil && x.err.Error() != r.err.Error()) {
						problems[w] = fmt.Sprintf("%s: the function returned error %v, this caller got %v (results %v)", c, x.err, r.err, ifacesOf(r.vals))
						return
					}
					if x.err != nil {
						continue
					}
					if len(r.vals) != len(x.vals) {
						problems[w] = fmt.Sprintf("%s: %d results, expected %d", c, len(r.vals), len(x.vals))
						return
					}
					for i := range x.vals {
						if d := eq(x.vals[i], r.vals[i]); d != "" {
							problems[w] = fmt.Sprintf("%s: this caller got result %d of some other call or a changed one (at %s)", c, i, d)
							return
						}
					}
				}
			}(w)
		}
		wg.Wait()
		problem := ""
		for _, p := range problems {
			if p != "" {
				problem = p
				break
			}
		}
		if problem == "" {
			got := callBag(svc.Rec.Take())
			if !reflect.DeepEqual(got, wantCalls) {
				problem = fmt.Sprintf("the service saw a different set of invocations than the calls made: missing/extra %s", bagDiff(wantCalls, got))
			}
		} else {
			time.Sleep(50 * time.Millisecond)
			svc.Rec.Take()
		}
		ev.S.Case("concurrent", canon, true, "concurrent="+ep.kind, fmt.Sprintf("concurrent-pool=%v", ep.pool))
		if problem != "" {
			if os.Getenv("VERIF_TRIAGE") != "" {
				fmt.Printf("TRIAGE %s | %s\n", problem, canon)
				return
			}
			ev.S.Violation("concurrent", "TestConcurrentCalls", canon, problem, nil)
			rt.Fatalf("%s\n=> %s", canon, problem)
		}
	})
}

func ifacesOf(vals []reflect.Value) []interface{} {
	var out []interface{}
	for _, v := range vals {
		if v.IsValid() {
			out = append(out, v.Interface())
		} else {
			out = append(out, nil)
		}
	}
	return out
}

func callBag(calls []svc.Call) map[string]int {
	m := map[string]int{}
	for _, c := range calls {
		m[fmt.Sprintf("%s%v", c.Name, c.Args)]++
	}
	return m
}

func bagDiff(want, got map[string]int) string {
	var out []string
	for k, n := range want {
		if got[k] != n {
			out = append(out, fmt.Sprintf("%s: made %d seen %d", k, n, got[k]))
		}
	}
	for k, n := range got {
		if _, ok := want[k]; !ok {
			out = append(out, fmt.Sprintf("%s: made 0 seen %d", k, n))
		}
	}
	sort.Strings(out)
	if len(out) > 4 {
		out = out[:4]
	}
	return strings.Join(out, "; ")
}

// TestSharedContext: several calls of different functions through context-taking proxy functions that
// all carry the same caller context (one core.ClientContext with a request header, as a request-scoped
// context is used); every call is compared with the local call.
func TestSharedContext(t *testing.T) {
	setupEndpoints()
	var proxied []svc.Fn
	for _, f := range svc.Catalogue {
		if _, ok := proxyField[f.Name]; ok {
			proxied = append(proxied, f)
		}
	}
	ev.Check(t, "shared-context", ev.N(3000, 200000), func(rt *rapid.T) {
		ep := rapid.SampledFrom(endpoints).Draw(rt, "endpoint")
		codec := rapid.SampledFrom([]string{"default", "simple", "bigint"}).Draw(rt, "codec")
		n := rapid.IntRange(2, 4).Draw(rt, "calls")
		cc := core.NewClientContext()
		cc.RequestHeaders().Set("trace", "t1")
		shared := core.WithContext(context.Background(), cc)
		var names []string
		var cases []callCase
		for i := 0; i < n; i++ {
			f := rapid.SampledFrom(proxied).Draw(rt, "fn")
			c := callCase{ep: ep, codec: codec, f: f, mode: "ctxproxy", name: f.Name, outcome: "ok", ctx: shared}
			cnt := len(f.In)
			if f.Variadic {
				cnt = len(f.In) - 1 + rapid.IntRange(0, 3).Draw(rt, "tail")
			}
			for k := 0; k < cnt; k++ {
				c.args = append(c.args, uni.Gen(rt, paramType(f, k), 2, genOpts))
			}
			cases = append(cases, c)
			names = append(names, f.Name)
		}
		canon := fmt.Sprintf("%s codec=%s one caller context through %v; first: %s", ep.kind, codec, names, cases[0])
		ev.S.Begin("shared-context", canon)
		for i, c := range cases {
			problem := check(c)
			if problem == "skip" {
				continue
			}
			if problem != "" {
				problem = fmt.Sprintf("call %d of %v on one context: %s", i+1, names, problem)
			}
			verdict(rt, "shared-context", "TestSharedContext", c, problem)
		}
		distinct := map[string]bool{}
		for _, nm := range names {
			distinct[nm] = true
		}
		ev.S.Case("shared-context", canon, len(distinct) > 1, "shared-ctx="+ep.kind, fmt.Sprintf("shared-ctx-distinct-fns=%d", len(distinct)))
	})
}

// TestMissingMethod: an unknown name goes to the missing-method handler when one is installed, and is an
// error otherwise; a known name never goes to it.
func TestMissingMethod(t *testing.T) {
	setupEndpoints()
	ev.Check(t, "missing-method", ev.N(600, 12000), func(rt *rapid.T) {
		name := rapid.SampledFrom([]string{"nosuch", "Hello2", "hell", "add_", "echo.x", "未知"}).Draw(rt, "name")
		nargs := rapid.IntRange(0, 3).Draw(rt, "nargs")
		var args []interface{}
		for i := 0; i < nargs; i++ {
			args = append(args, uni.Gen(rt, rapid.SampledFrom(safeDynamic[:4]).Draw(rt, "t"), 1, genOpts).Interface())
		}
		installed := rapid.Bool().Draw(rt, "installed")
		canon := fmt.Sprintf("missing-method handler installed=%v call %s(%v)", installed, name, args)
		ev.S.Begin("missing-method", canon)
		callMu.Lock()
		svc.Rec.Take()
		ep := noMissingEP
		if installed {
			ep = missingEP
		}
		cc := core.NewClientContext()
		cc.ReturnType = []reflect.Type{reflect.TypeOf(""), reflect.TypeOf(0)}
		res, err := ep.clients["default"].InvokeContext(core.WithContext(context.Background(), cc), name, args)
		calls := svc.Rec.Take()
		callMu.Unlock()
		problem := ""
		want := strings.Replace(name, ".", "_", -1)
		_ = want
		if installed {
			if err != nil || len(res) != 2 || res[0] != "missing:"+name || res[1] != nargs || len(calls) != 1 || calls[0].Name != "*"+name {
				problem = fmt.Sprintf("unknown name with a missing-method handler installed: results %v err %v, handler calls %v", res, err, calls)
			}
		} else if err == nil || len(calls) != 0 {
			problem = fmt.Sprintf("unknown name without a missing-method handler: results %v err %v, functions invoked %v", res, err, calls)
		}
		ev.S.Case("missing-method", canon, true, fmt.Sprintf("missing-installed=%v", installed))
		if problem != "" {
			if os.Getenv("VERIF_TRIAGE") != "" {
				fmt.Printf("TRIAGE %s | %s\n", problem, canon)
				return
			}
			ev.S.Violation("missing-method", "TestMissingMethod", canon, problem, nil)
			rt.Fatalf("%s\n=> %s", canon, problem)
		}
	})
}

// TestRegressions replays the inputs of repaired defects on every endpoint.
func TestRegressions(t *testing.T) {
	setupEndpoints()
	byName := map[string]svc.Fn{}
	for _, f := range svc.Catalogue {
		byName[f.Name] = f
	}
	var nilIface interface{}
	nilV := reflect.ValueOf(&nilIface).Elem()
	for _, ep := range endpoints {
		for _, mode := range []string{"proxy", "invoke"} {
			for _, c := range []callCase{
				{f: byName["echo"], args: []reflect.Value{nilV}},
				{f: byName["any"], args: []reflect.Value{nilV, reflect.ValueOf(1), nilV}},
				{f: byName["ptrs"], args: []reflect.Value{reflect.Zero(byName["ptrs"].In[0]), reflect.Zero(byName["ptrs"].In[1]), reflect.Zero(byName["ptrs"].In[2])}},
				{f: byName["slices"], args: []reflect.Value{reflect.Zero(byName["slices"].In[0]), reflect.Zero(byName["slices"].In[1]), reflect.Zero(byName["slices"].In[2]), reflect.Zero(byName["slices"].In[3]), reflect.Zero(byName["slices"].In[4])}},
			} {
				c.ep, c.codec, c.mode, c.name, c.outcome = ep, "default", mode, c.f.Name, "ok"
				ev.S.Begin("regressions", c.String())
				problem := check(c)
				ev.S.Case("regressions", c.String(), true, "regression")
				verdict(t, "regressions", "TestRegressions", c, problem)
			}
		}
	}
}

func TestFinding(t *testing.T) {
	t.Skip("no open finding " + ev.FindingKey())
}
