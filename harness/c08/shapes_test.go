package c08

import (
	"fmt"
	"reflect"
	"sync"
	"testing"
	"time"

	"github.com/hprose/hprose-golang/v3/rpc/core"
	"pgregory.net/rapid"
	"verif/hp/ev"
	"verif/hp/tp"
)

// Published shapes other than single functions: an object tree published with AddAllMethods (methods and
// func fields on the object, on named struct fields and on embedded structs, to three levels) and called
// through a proxy struct of the same layout, with and without a namespace; and net/rpc style methods
// (AddNetRPCMethods), whose reply object must be a fresh one for every call.

type ShAudit struct{}

func (ShAudit) Touch(s string) string { return "audit.Touch(" + s + ")" }
func (ShAudit) Stamp(n int) int       { return n + 1000 }

type ShLedger struct{ ShAudit }

func (ShLedger) Total(a, b int) string { return fmt.Sprintf("ledger.Total(%d,%d)", a, b) }

type ShAccount struct {
	ShAudit
	Ledger ShLedger
	Hook   func(string) string
}

func (ShAccount) Name(id int) string { return fmt.Sprintf("account.Name(%d)", id) }

type ShMisc struct{}

func (ShMisc) Ping(s string) string { return "misc.Ping(" + s + ")" }

type ShRoot struct {
	ShMisc
	Account ShAccount
	Backup  *ShAccount
	Plain   func(int) int
}

func (*ShRoot) Touch(s string) string { return "root.Touch(" + s + ")" }

func newShRoot() *ShRoot {
	return &ShRoot{
		Account: ShAccount{Hook: func(s string) string { return "account.Hook(" + s + ")" }},
		Backup:  &ShAccount{Hook: func(s string) string { return "backup.Hook(" + s + ")" }},
		Plain:   func(n int) int { return -n },
	}
}

type ShAuditP struct {
	Touch func(string) (string, error)
	Stamp func(int) (int, error)
}

type ShLedgerP struct {
	ShAuditP
	Total func(int, int) (string, error)
}

type ShAccountP struct {
	ShAuditP
	Ledger ShLedgerP
	Hook   func(string) (string, error)
	Name   func(int) (string, error)
}

type ShMiscP struct {
	Ping func(string) (string, error)
}

type ShRootP struct {
	ShMiscP
	Account ShAccountP
	Backup  ShAccountP
	Plain   func(int) (int, error)
	Touch   func(string) (string, error)
}

// one entry per reachable function: how to call it locally and through the proxy
type shPath struct {
	name   string
	local  func(r *ShRoot, s string, n int) string
	remote func(p *ShRootP, s string, n int) (string, error)
}

func istr(v int, err error) (string, error) { return fmt.Sprint(v), err }

var shPaths = []shPath{
	{"Touch", func(r *ShRoot, s string, n int) string { return r.Touch(s) }, func(p *ShRootP, s string, n int) (string, error) { return p.Touch(s) }},
	{"Ping (embedded at the top)", func(r *ShRoot, s string, n int) string { return r.Ping(s) }, func(p *ShRootP, s string, n int) (string, error) { return p.Ping(s) }},
	{"Plain (func field)", func(r *ShRoot, s string, n int) string { return fmt.Sprint(r.Plain(n)) }, func(p *ShRootP, s string, n int) (string, error) { return istr(p.Plain(n)) }},
	{"Account.Name", func(r *ShRoot, s string, n int) string { return r.Account.Name(n) }, func(p *ShRootP, s string, n int) (string, error) { return p.Account.Name(n) }},
	{"Account.Hook (func field)", func(r *ShRoot, s string, n int) string { return r.Account.Hook(s) }, func(p *ShRootP, s string, n int) (string, error) { return p.Account.Hook(s) }},
	{"Account.Touch (embedded in a named field)", func(r *ShRoot, s string, n int) string { return r.Account.Touch(s) }, func(p *ShRootP, s string, n int) (string, error) { return p.Account.Touch(s) }},
	{"Account.Stamp (embedded in a named field)", func(r *ShRoot, s string, n int) string { return fmt.Sprint(r.Account.Stamp(n)) }, func(p *ShRootP, s string, n int) (string, error) { return istr(p.Account.Stamp(n)) }},
	{"Account.Ledger.Total", func(r *ShRoot, s string, n int) string { return r.Account.Ledger.Total(n, 2) }, func(p *ShRootP, s string, n int) (string, error) { return p.Account.Ledger.Total(n, 2) }},
	{"Account.Ledger.Touch (embedded two levels down)", func(r *ShRoot, s string, n int) string { return r.Account.Ledger.Touch(s) }, func(p *ShRootP, s string, n int) (string, error) { return p.Account.Ledger.Touch(s) }},
	{"Backup.Hook (pointer field)", func(r *ShRoot, s string, n int) string { return r.Backup.Hook(s) }, func(p *ShRootP, s string, n int) (string, error) { return p.Backup.Hook(s) }},
	{"Backup.Name (pointer field)", func(r *ShRoot, s string, n int) string { return r.Backup.Name(n) }, func(p *ShRootP, s string, n int) (string, error) { return p.Backup.Name(n) }},
	{"Backup.Ledger.Touch", func(r *ShRoot, s string, n int) string { return r.Backup.Ledger.Touch(s) }, func(p *ShRootP, s string, n int) (string, error) { return p.Backup.Ledger.Touch(s) }},
}

// ---- net/rpc style methods

type ShEntry struct {
	Found bool
	Value int
	Notes []string
}

type ShDir struct{}

var shDirData = map[string]int{"alice": 1, "bob": 2, "": 7}

// Lookup fills the reply only when the name is known (as net/rpc methods commonly do).
func (ShDir) Lookup(name string, reply *ShEntry) error {
	if v, ok := shDirData[name]; ok {
		reply.Found, reply.Value = true, v
		reply.Notes = append(reply.Notes, "hit:"+name)
	}
	return nil
}

// Collect appends to the reply.
func (ShDir) Collect(n int, reply *[]int) error {
	if n < 0 {
		return fmt.Errorf("negative count %d", n)
	}
	for i := 0; i < n%5; i++ {
		*reply = append(*reply, i+n)
	}
	return nil
}

type shDirP struct {
	Lookup  func(string) (ShEntry, error)
	Collect func(int) ([]int, error)
}

type shapeRig struct {
	kind, ns string
	root     *ShRoot
	proxy    *ShRootP
	dir      *shDirP
}

var (
	shapeRigs []*shapeRig
	shapeOnce sync.Once
)

func setupShapes() {
	shapeOnce.Do(func() {
		for _, kind := range []string{"mock", "tcp", "http"} {
			for _, ns := range []string{"", "ns"} {
				root := newShRoot()
				s := core.NewService()
				if ns == "" {
					s.AddAllMethods(root)
					s.AddNetRPCMethods(ShDir{})
				} else {
					s.AddAllMethods(root, ns)
					s.AddNetRPCMethods(ShDir{}, ns)
				}
				srv, err := tp.Start(kind, s)
				if err != nil {
					panic(err)
				}
				c := srv.Client(20 * time.Second)
				r := &shapeRig{kind: kind, ns: ns, root: root, proxy: &ShRootP{}, dir: &shDirP{}}
				if ns == "" {
					c.UseService(r.proxy)
					c.UseService(r.dir)
				} else {
					c.UseService(r.proxy, ns)
					c.UseService(r.dir, ns)
				}
				shapeRigs = append(shapeRigs, r)
			}
		}
	})
}

func TestPublishedShapes(t *testing.T) {
	setupShapes()
	ev.Check(t, "published-shapes", ev.N(1500, 60000), func(rt *rapid.T) {
		r := rapid.SampledFrom(shapeRigs).Draw(rt, "rig")
		what := rapid.IntRange(0, len(shPaths)+1).Draw(rt, "what")
		s := rapid.SampledFrom([]string{"", "me", "alice", "bob", "名字", "nobody"}).Draw(rt, "s")
		n := rapid.IntRange(-3, 12).Draw(rt, "n")
		problem, canon := "", ""
		switch {
		case what < len(shPaths):
			p := shPaths[what]
			canon = fmt.Sprintf("%s namespace=%q: object tree published with AddAllMethods, proxy of the same layout: %s(%q, %d)", r.kind, r.ns, p.name, s, n)
			ev.S.Begin("published-shapes", canon)
			want := p.local(r.root, s, n)
			got, err := p.remote(r.proxy, s, n)
			if err != nil || got != want {
				problem = fmt.Sprintf("the function returns %q; the proxy call returned %q, %v", want, got, err)
			}
			ev.S.Case("published-shapes", canon, true, "shape=tree", "shape-path="+p.name)
		case what == len(shPaths):
			canon = fmt.Sprintf("%s namespace=%q: net/rpc style method Lookup(%q)", r.kind, r.ns, s)
			ev.S.Begin("published-shapes", canon)
			var want ShEntry
			ShDir{}.Lookup(s, &want)
			got, err := r.dir.Lookup(s)
			if err != nil || !reflect.DeepEqual(got, want) {
				problem = fmt.Sprintf("the method fills a fresh reply with %+v; the proxy call returned %+v, %v", want, got, err)
			}
			ev.S.Case("published-shapes", canon, true, "shape=netrpc")
		default:
			canon = fmt.Sprintf("%s namespace=%q: net/rpc style method Collect(%d)", r.kind, r.ns, n)
			ev.S.Begin("published-shapes", canon)
			var want []int
			werr := ShDir{}.Collect(n, &want)
			got, err := r.dir.Collect(n)
			switch {
			case werr != nil:
				if err == nil || err.Error() != werr.Error() {
					problem = fmt.Sprintf("the method fails with %q; the proxy call returned %v, %v", werr, got, err)
				}
			case err != nil || fmt.Sprint(got) != fmt.Sprint(want):
				problem = fmt.Sprintf("the method appends %v to a fresh reply; the proxy call returned %v, %v", want, got, err)
			}
			ev.S.Case("published-shapes", canon, true, "shape=netrpc")
		}
		if problem != "" {
			if triage(problem, canon) {
				return
			}
			ev.S.Violation("published-shapes", "TestPublishedShapes", canon, problem, nil)
			rt.Fatalf("%s\n=> %s", canon, problem)
		}
	})
}
