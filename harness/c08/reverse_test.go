package c08

import (
	"context"
	"fmt"
	"math"
	"math/big"
	"os"
	"reflect"
	"sync"
	"testing"
	"time"

	hio "github.com/hprose/hprose-golang/v3/io"
	"github.com/hprose/hprose-golang/v3/rpc/core"
	"github.com/hprose/hprose-golang/v3/rpc/plugins/reverse"
	"pgregory.net/rapid"
	"verif/hp/ev"
	"verif/hp/svc"
	"verif/hp/tp"
)

// The reverse direction: the functions are published on a Provider (a client that listens for calls),
// and called from the service side through a Caller, by proxy or by InvokeContext.

type reverseEnd struct {
	kind   string
	caller *reverse.Caller
	server *tp.Server
	id     string
	proxy  *Proxy
}

var (
	reverseEnds []*reverseEnd
	reverseOnce sync.Once
)

func setupReverse() {
	reverseOnce.Do(func() {
		for _, kind := range []string{"tcp", "ws", "unix", "http"} {
			s := core.NewService()
			c := reverse.NewCaller(s)
			c.HeartBeat = 0
			c.Timeout = 20 * time.Second
			srv, err := tp.Start(kind, s)
			if err != nil {
				panic(err)
			}
			e := &reverseEnd{kind: kind, caller: c, server: srv, id: "prov-" + kind, proxy: &Proxy{}}
			prov := reverse.NewProvider(srv.Client(0), e.id)
			for _, f := range svc.Catalogue {
				prov.AddFunction(f.F, f.Name)
			}
			prov.RetryInterval = 10 * time.Millisecond
			go prov.Listen()
			c.UseService(e.proxy, e.id)
			reverseEnds = append(reverseEnds, e)
		}
	})
}

func (c callCase) reverseRemote(e *reverseEnd) (r remoteResult) {
	defer func() {
		if x := recover(); x != nil {
			r.panicked = x
		}
	}()
	switch c.mode {
	case "proxy":
		fv := reflect.ValueOf(e.proxy).Elem().FieldByName(proxyField[c.f.Name])
		out := fv.Call(c.args)
		if n := len(out); n > 0 && out[n-1].Type() == reflect.TypeOf((*error)(nil)).Elem() {
			if !out[n-1].IsNil() {
				r.err = out[n-1].Interface().(error)
			}
			out = out[:n-1]
		}
		r.vals = out
	default:
		res, err := e.caller.InvokeContext(context.Background(), e.id, c.name, ifaces(c.args), c.f.Out...)
		r.err = err
		for i := range res {
			v := reflect.ValueOf(&res[i]).Elem()
			if res[i] == nil && i < len(c.f.Out) {
				v = reflect.Zero(c.f.Out[i])
			}
			r.vals = append(r.vals, v)
		}
	}
	return
}

func TestReverseEqualsLocal(t *testing.T) {
	setupReverse()
	ev.Check(t, "reverse-vs-local", ev.N(4000, 400000), func(rt *rapid.T) {
		e := rapid.SampledFrom(reverseEnds).Draw(rt, "end")
		c := genCallFor(rt, nil)
		c.codec = "default"
		if c.mode == "ns" {
			c.mode = "invoke"
		}
		canon := "reverse over " + e.kind + ": " + c.String()
		ev.S.Begin("reverse-vs-local", canon)
		if beyondInt64(c.args) {
			// Reverse arguments travel as interface{} values and are decoded with the provider's default
			// LongType (int): an integer beyond int64 wraps there. That is the conversion defect recorded
			// for C06 (int-out-of-range-wraps); it is excluded here by construction and counted.
			ev.S.Class("excluded: integer beyond int64 behind interface{} (C06 int-out-of-range-wraps)", 1)
			return
		}
		if _, err := hio.Marshal(ifaces(c.args)); err != nil {
			// an argument the encoder refuses (a time that leaves the years 0..9999 in the local zone): the
			// caller cannot hand the call over at all and it ends by time-out; nothing to compare
			ev.S.Class("refused-by-encoder", 1)
			return
		}
		problem := checkWith(c, func() remoteResult { return c.reverseRemote(e) })
		if problem == "skip" {
			ev.S.Class("refused-by-encoder", 1)
			return
		}
		nonZero := false
		for _, a := range c.args {
			if !a.IsZero() {
				nonZero = true
			}
		}
		ev.S.Case("reverse-vs-local", canon, nonZero, "reverse="+e.kind+"/"+c.outcome, "mode="+c.mode, "fn="+c.f.Name)
		if problem != "" {
			problem = fmt.Sprintf("[reverse over %s] %s", e.kind, problem)
		}
		verdict(rt, "reverse-vs-local", "TestReverseEqualsLocal", c, problem)
	})
}

var (
	bigIntType = reflect.TypeOf((*big.Int)(nil))
	minInt64   = big.NewInt(math.MinInt64)
	maxInt64   = big.NewInt(math.MaxInt64)
)

func beyondInt64(args []reflect.Value) bool {
	for _, a := range args {
		if a.Type() == bigIntType && !a.IsNil() {
			if b := a.Interface().(*big.Int); b.Cmp(minInt64) < 0 || b.Cmp(maxInt64) > 0 {
				return true
			}
		}
	}
	return false
}

// TestReverseRegressions replays the inputs of the defects repaired on the reverse path: nil arguments and
// results (io.Convert of a nil source, reflect.ValueOf(nil) in Provider.Execute) and values whose pointer
// destination has no direct converter (*big.Int from an int).
func TestReverseRegressions(t *testing.T) {
	setupReverse()
	byName := map[string]svc.Fn{}
	for _, f := range svc.Catalogue {
		byName[f.Name] = f
	}
	var nilIface interface{}
	nilV := reflect.ValueOf(&nilIface).Elem()
	zeros := func(f svc.Fn) (out []reflect.Value) {
		for _, t := range f.In {
			out = append(out, reflect.Zero(t))
		}
		return
	}
	special := zeros(byName["special"])
	special[2] = reflect.ValueOf(big.NewInt(-15))
	for _, e := range reverseEnds {
		for _, mode := range []string{"proxy", "invoke"} {
			for _, c := range []callCase{
				{f: byName["echo"], args: []reflect.Value{nilV}},
				{f: byName["any"], args: []reflect.Value{nilV, reflect.ValueOf(1), nilV}},
				{f: byName["ptrs"], args: zeros(byName["ptrs"])},
				{f: byName["slices"], args: zeros(byName["slices"])},
				{f: byName["maps"], args: zeros(byName["maps"])},
				{f: byName["special"], args: special},
			} {
				c.codec, c.mode, c.name, c.outcome = "default", mode, c.f.Name, "ok"
				canon := "reverse over " + e.kind + ": " + c.String()
				ev.S.Begin("reverse-regressions", canon)
				e := e
				problem := checkWith(c, func() remoteResult { return c.reverseRemote(e) })
				ev.S.Case("reverse-regressions", canon, true, "regression")
				if problem != "" {
					problem = fmt.Sprintf("[reverse over %s] %s", e.kind, problem)
				}
				verdict(t, "reverse-regressions", "TestReverseRegressions", c, problem)
			}
		}
	}
}

func triage(problem, canon string) bool {
	if os.Getenv("VERIF_TRIAGE") != "" {
		fmt.Printf("TRIAGE %s | %s\n", problem, canon)
		return true
	}
	return false
}
