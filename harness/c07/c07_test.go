// C07 — RPC codec round trip: the service decodes what the client encoded, and back.
package c07

import (
	"errors"
	"fmt"
	"os"
	"reflect"
	"strings"
	"testing"
	"time"
	"unicode"

	hio "github.com/hprose/hprose-golang/v3/io"
	"github.com/hprose/hprose-golang/v3/rpc/codec/jsonrpc"
	"github.com/hprose/hprose-golang/v3/rpc/core"
	"pgregory.net/rapid"
	"verif/hp/ev"
	"verif/hp/ref"
	"verif/hp/svc"
	"verif/hp/uni"
)

var service *core.Service

func TestMain(m *testing.M) {
	time.Local = time.FixedZone("VERIF", 8*3600)
	for _, st := range uni.Structs {
		hio.Register(reflect.New(st).Interface())
	}
	service = core.NewService()
	for _, f := range svc.Catalogue {
		service.AddFunction(f.F, f.Name)
	}
	ev.Main(m, "C07")
}

type options struct {
	Simple bool
	Long   int
	Real   int
	Map    int
	Struct int
	List   int
	Debug  bool
}

func (o options) String() string {
	return fmt.Sprintf("simple=%v long=%d real=%d map=%d struct=%d list=%d debug=%v", o.Simple, o.Long, o.Real, o.Map, o.Struct, o.List, o.Debug)
}

func (o options) list() []core.CodecOption {
	return []core.CodecOption{core.WithSimple(o.Simple), core.WithLongType(hio.LongType(o.Long)), core.WithRealType(hio.RealType(o.Real)),
		core.WithMapType(hio.MapType(o.Map)), core.WithStructType(hio.StructType(o.Struct)), core.WithListType(hio.ListType(o.List)), core.WithDebug(o.Debug)}
}

func genOptions(rt *rapid.T, label string) options {
	return options{
		Simple: rapid.Bool().Draw(rt, label+"simple"),
		Long:   rapid.IntRange(0, 4).Draw(rt, label+"long"),
		Real:   rapid.IntRange(0, 2).Draw(rt, label+"real"),
		Map:    rapid.IntRange(0, 1).Draw(rt, label+"map"),
		Struct: rapid.IntRange(0, 1).Draw(rt, label+"struct"),
		List:   rapid.IntRange(0, 1).Draw(rt, label+"list"),
		Debug:  rapid.Bool().Draw(rt, label+"debug"),
	}
}

// values placed behind interface{} parameters must mean the same under every decoder setting
var safeDynamic = []reflect.Type{reflect.TypeOf(false), reflect.TypeOf(""), reflect.TypeOf(int32(0)), reflect.TypeOf(float32(0)),
	reflect.TypeOf([]interface{}(nil)), reflect.TypeOf(map[string]interface{}(nil))}

var genOpts = uni.Opts{NoBadYears: true, NoLaxUTF8: true, NoBigPrec: true, NoNaN: true, NoNilIface: true, MaxLen: 3, IfaceDynamic: safeDynamic}

// typed parameters without interface{} inside may carry NaN (RealTypeBigFloat has no NaN, by design, for interface{} destinations)
var genOptsTyped = uni.Opts{NoBadYears: true, NoLaxUTF8: true, NoBigPrec: true, MaxLen: 3, IfaceDynamic: safeDynamic}

func optsFor(t reflect.Type) uni.Opts {
	if uni.TypeHas(t, func(x reflect.Type) bool { return x.Kind() == reflect.Interface }) {
		return genOpts
	}
	return genOptsTyped
}

func yearError(err error) bool {
	return err != nil && strings.Contains(err.Error(), "year") && strings.Contains(err.Error(), "out of range")
}

func spell(rt *rapid.T, name string) string {
	switch rapid.IntRange(0, 3).Draw(rt, "spelling") {
	case 0:
		return name
	case 1:
		return strings.ToUpper(name)
	case 2:
		return strings.ToLower(name)
	}
	var b strings.Builder
	for i, r := range name {
		if i%2 == 0 {
			b.WriteRune(unicode.ToUpper(r))
		} else {
			b.WriteRune(unicode.ToLower(r))
		}
	}
	return b.String()
}

// paramType returns the type the i-th wire argument is decoded to (nil for surplus arguments).
func paramType(f svc.Fn, i int) reflect.Type {
	n := len(f.In)
	if f.Variadic {
		if i < n-1 {
			return f.In[i]
		}
		return f.In[n-1].Elem()
	}
	if i < n {
		return f.In[i]
	}
	return nil
}

func genArgs(rt *rapid.T, f svc.Fn) ([]reflect.Value, string) {
	n := len(f.In)
	count := n
	shape := "exact"
	if f.Variadic {
		count = n - 1 + rapid.IntRange(0, 4).Draw(rt, "tail")
		shape = "variadic"
	}
	switch rapid.IntRange(0, 9).Draw(rt, "arity") {
	case 0:
		if n > 0 && !f.Variadic {
			count = rapid.IntRange(0, n-1).Draw(rt, "fewer")
			shape = "fewer"
		}
	case 1:
		if !f.Variadic {
			count = n + rapid.IntRange(1, 2).Draw(rt, "more")
			shape = "surplus"
		}
	}
	args := make([]reflect.Value, count)
	for i := range args {
		t := paramType(f, i)
		if t == nil {
			// a surplus argument is decoded as interface{}
			t = rapid.SampledFrom(safeDynamic[:4]).Draw(rt, "surplusT")
			args[i] = uni.Gen(rt, t, 2, genOpts)
			continue
		}
		args[i] = uni.Gen(rt, t, 2, optsFor(t))
	}
	return args, shape
}

func ifaces(vals []reflect.Value) []interface{} {
	out := make([]interface{}, len(vals))
	for i, v := range vals {
		out[i] = v.Interface()
	}
	return out
}

func nodes(vals []reflect.Value) string {
	var s []string
	for _, v := range vals {
		x := uni.FromGo(v).String()
		if len(x) > 120 {
			x = x[:120] + "…"
		}
		s = append(s, v.Type().String()+"="+x)
	}
	return strings.Join(s, ", ")
}

func guard(f func()) (p string) {
	defer func() {
		if e := recover(); e != nil {
			p = fmt.Sprint(e)
		}
	}()
	f()
	return ""
}

var headerKeys = []string{"id", "token", "trace", "键", "k"}

// genHeaders draws header values; when structs is set (the receiving side decodes objects into registered
// struct pointers) a value may also be a registered struct, so that the header segment defines a class.
func genHeaders(rt *rapid.T, structs bool) map[string]interface{} {
	h := map[string]interface{}{}
	for n := rapid.IntRange(0, 3).Draw(rt, "nheaders"); n > 0; n-- {
		k := rapid.SampledFrom(headerKeys).Draw(rt, "hk")
		if structs && rapid.IntRange(0, 3).Draw(rt, "hStruct") == 0 {
			st := rapid.SampledFrom([]reflect.Type{reflect.TypeOf(uni.Plain{}), reflect.TypeOf(uni.Inner{})}).Draw(rt, "hST")
			v := uni.Gen(rt, st, 1, genOpts)
			pv := reflect.New(st)
			pv.Elem().Set(v)
			h[k] = pv.Interface()
			continue
		}
		h[k] = uni.Gen(rt, rapid.SampledFrom(safeDynamic).Draw(rt, "hT"), 1, genOpts).Interface()
	}
	return h
}

// envelope checks the request/response grammar with the independent reader:
// [H map] (C string [list] | R value | E string) z, the reference table reset at each segment boundary.
func envelope(b []byte, kind byte) string {
	p := ref.NewParser(b)
	pos := 0
	if pos < len(b) && b[pos] == 'H' {
		p2 := ref.NewParser(b[pos+1:])
		n, err := p2.Value()
		if err != nil || n.Kind != ref.Map {
			return fmt.Sprintf("header segment is not a well-formed map: %v", err)
		}
		pos += 1 + p2.Pos()
	}
	_ = p
	if pos >= len(b) {
		return "envelope ends after the header"
	}
	switch b[pos] {
	case 'C':
		if kind != 'C' {
			return "unexpected call segment"
		}
		p2 := ref.NewParser(b[pos+1:])
		n, err := p2.Value()
		if err != nil || n.Kind != ref.String {
			return fmt.Sprintf("method name is not a well-formed string: %v", err)
		}
		pos += 1 + p2.Pos()
		if pos < len(b) && b[pos] == 'a' {
			p3 := ref.NewParser(b[pos:])
			l, err := p3.Value()
			if err != nil || l.Kind != ref.List {
				return fmt.Sprintf("argument list is not well-formed (references must be numbered from the start of the list): %v", err)
			}
			pos += p3.Pos()
		}
	case 'R':
		p2 := ref.NewParser(b[pos+1:])
		if _, err := p2.Value(); err != nil {
			return fmt.Sprintf("result is not a well-formed value: %v", err)
		}
		pos += 1 + p2.Pos()
	case 'E':
		p2 := ref.NewParser(b[pos+1:])
		n, err := p2.Value()
		if err != nil || n.Kind != ref.String {
			return fmt.Sprintf("error segment is not a well-formed string: %v", err)
		}
		pos += 1 + p2.Pos()
	case 'z':
	default:
		return fmt.Sprintf("illegal segment tag %q", b[pos])
	}
	if pos != len(b)-1 || b[pos] != 'z' {
		return fmt.Sprintf("envelope does not end with the end tag right after the last segment (offset %d of %d)", pos, len(b))
	}
	return ""
}

func eq(want, got reflect.Value) string {
	a, b := uni.FromGo(want), uni.FromGo(got)
	if ref.EqualOpt(a, b, ref.Options{NilIsEmpty: true}) {
		return ""
	}
	return ref.Diff(a, b, ref.Options{NilIsEmpty: true})
}

func fail(rt interface{ Fatalf(string, ...interface{}) }, sub, test, canon, problem string) {
	if os.Getenv("VERIF_TRIAGE") != "" {
		fmt.Printf("TRIAGE %s | %s\n", strings.ReplaceAll(problem, "\n", " // "), canon)
		return
	}
	ev.S.Violation(sub, test, canon, problem, nil)
	rt.Fatalf("%s\n=> %s", canon, problem)
}

func TestRequestRoundTrip(t *testing.T) {
	ev.Check(t, "request", ev.N(40000, 6000000), func(rt *rapid.T) {
		f := rapid.SampledFrom(svc.Catalogue).Draw(rt, "fn")
		name := spell(rt, f.Name)
		args, shape := genArgs(rt, f)
		co, so := genOptions(rt, "c."), genOptions(rt, "s.")
		headers := genHeaders(rt, so.Struct == 0)
		canon := fmt.Sprintf("request %s(%s) shape=%s headers=%v client[%s] service[%s]", name, nodes(args), shape, headers, co, so)
		ev.S.Begin("request", canon)
		cli, srv := core.NewClientCodec(co.list()...), core.NewServiceCodec(so.list()...)
		cc := core.NewClientContext()
		for k, v := range headers {
			cc.RequestHeaders().Set(k, v)
		}
		var request []byte
		var err error
		if p := guard(func() { request, err = cli.Encode(name, ifaces(args), cc) }); p != "" {
			fail(rt, "request", "TestRequestRoundTrip", canon, "client codec panicked while encoding: "+p)
			return
		}
		nontrivial := (len(args) > 0 || len(headers) > 0) && (co != options{} || so != options{})
		classes := []string{"shape=" + shape, fmt.Sprintf("simple-pair=%v/%v", co.Simple, so.Simple)}
		ev.S.Case("request", canon, nontrivial, classes...)
		if yearError(err) {
			return // a time the format cannot carry (zone conversion across year 9999): rejected through the error, as C01 requires
		}
		if err != nil {
			fail(rt, "request", "TestRequestRoundTrip", canon, "client codec failed to encode: "+err.Error())
			return
		}
		if p := envelope(request, 'C'); p != "" {
			fail(rt, "request", "TestRequestRoundTrip", canon, fmt.Sprintf("request envelope: %s\nbytes %q", p, request))
			return
		}
		sc := core.NewServiceContext(service)
		var gotName string
		var gotArgs []interface{}
		if p := guard(func() { gotName, gotArgs, err = srv.Decode(request, sc) }); p != "" {
			fail(rt, "request", "TestRequestRoundTrip", canon, fmt.Sprintf("service codec panicked while decoding: %s\nbytes %q", p, request))
			return
		}
		if err != nil {
			fail(rt, "request", "TestRequestRoundTrip", canon, fmt.Sprintf("service codec rejected the request: %v\nbytes %q", err, request))
			return
		}
		if gotName != name {
			fail(rt, "request", "TestRequestRoundTrip", canon, fmt.Sprintf("method name %q decoded as %q", name, gotName))
			return
		}
		if sc.Method == nil || sc.Method.Func().Pointer() != reflect.ValueOf(f.F).Pointer() {
			fail(rt, "request", "TestRequestRoundTrip", canon, "the request resolved to another method than the one registered under that name")
			return
		}
		gh := sc.RequestHeaders().ToMap()
		delete(gh, "simple")
		if d := eq(reflect.ValueOf(headers), reflect.ValueOf(gh)); d != "" {
			fail(rt, "request", "TestRequestRoundTrip", canon, fmt.Sprintf("headers differ at %s: sent %v, decoded %v", d, headers, gh))
			return
		}
		if len(gotArgs) != len(args) {
			fail(rt, "request", "TestRequestRoundTrip", canon, fmt.Sprintf("%d arguments sent, %d decoded\nbytes %q", len(args), len(gotArgs), request))
			return
		}
		for i := range args {
			g := reflect.ValueOf(&gotArgs[i]).Elem()
			if pt := paramType(f, i); pt != nil {
				if gotArgs[i] == nil && pt.Kind() != reflect.Interface {
					if pt.Kind() == reflect.Ptr || pt.Kind() == reflect.Map || pt.Kind() == reflect.Slice {
						g = reflect.Zero(pt)
					}
				} else if gotArgs[i] != nil && pt.Kind() != reflect.Interface && reflect.TypeOf(gotArgs[i]) != pt {
					fail(rt, "request", "TestRequestRoundTrip", canon, fmt.Sprintf("argument %d decoded as %T, the parameter type is %s", i, gotArgs[i], pt))
					return
				}
			}
			if d := eq(args[i], g); d != "" {
				fail(rt, "request", "TestRequestRoundTrip", canon, fmt.Sprintf("argument %d differs at %s\nbytes %q", i, d, request))
				return
			}
			if d := genericBehind(paramType(f, i), gotArgs[i], so.Map); d != "" {
				fail(rt, "request", "TestRequestRoundTrip", canon, fmt.Sprintf("argument %d: %s\nbytes %q", i, d, request))
				return
			}
		}
	})
}

// genericMaps walks a generically decoded value (what sits behind interface{}) and reports a map whose Go
// type is not the one the decoding side's MapType option asks for.
func genericMaps(v interface{}, mapOpt int) string {
	want := reflect.TypeOf(map[interface{}]interface{}(nil))
	if hio.MapType(mapOpt) == hio.MapTypeSIMap {
		want = reflect.TypeOf(map[string]interface{}(nil))
	}
	switch x := v.(type) {
	case map[interface{}]interface{}:
		if reflect.TypeOf(x) != want {
			return fmt.Sprintf("a map behind interface{} was decoded as %T, the codec's MapType option asks for %s", x, want)
		}
		for _, e := range x {
			if d := genericMaps(e, mapOpt); d != "" {
				return d
			}
		}
	case map[string]interface{}:
		if reflect.TypeOf(x) != want {
			return fmt.Sprintf("a map behind interface{} was decoded as %T, the codec's MapType option asks for %s", x, want)
		}
		for _, e := range x {
			if d := genericMaps(e, mapOpt); d != "" {
				return d
			}
		}
	case []interface{}:
		for _, e := range x {
			if d := genericMaps(e, mapOpt); d != "" {
				return d
			}
		}
	}
	return ""
}

// genericBehind applies genericMaps to the parts of v that sit behind interface{} given its declared type.
func genericBehind(declared reflect.Type, v interface{}, mapOpt int) string {
	switch {
	case declared == nil || v == nil:
		return ""
	case declared.Kind() == reflect.Interface:
		return genericMaps(v, mapOpt)
	case declared == reflect.TypeOf(map[string]interface{}(nil)):
		for _, e := range v.(map[string]interface{}) {
			if d := genericMaps(e, mapOpt); d != "" {
				return d
			}
		}
	case declared == reflect.TypeOf([]interface{}(nil)):
		for _, e := range v.([]interface{}) {
			if d := genericMaps(e, mapOpt); d != "" {
				return d
			}
		}
	}
	return ""
}

type resultShape struct {
	kind string // none | values | error | panic
	vals []reflect.Value
	msg  string
}

func TestResponseRoundTrip(t *testing.T) {
	ev.Check(t, "response", ev.N(40000, 6000000), func(rt *rapid.T) {
		f := rapid.SampledFrom(svc.Catalogue).Draw(rt, "fn")
		co, so := genOptions(rt, "c."), genOptions(rt, "s.")
		var rs resultShape
		switch rapid.IntRange(0, 7).Draw(rt, "shape") {
		case 0:
			rs.kind, rs.msg = "error", rapid.SampledFrom([]string{"boom", "", "错误 message", "a\"b", strings.Repeat("e", 300)}).Draw(rt, "msg")
		case 1:
			rs.kind, rs.msg = "panic", rapid.SampledFrom([]string{"kaboom", "恐慌", "x"}).Draw(rt, "msg")
		default:
			rs.kind = "values"
			for _, ot := range f.Out {
				rs.vals = append(rs.vals, uni.Gen(rt, ot, 2, optsFor(ot)))
			}
			if len(f.Out) == 0 {
				rs.kind = "none"
			}
			if len(rs.vals) >= 2 && rapid.Bool().Draw(rt, "repeatAcross") {
				// the same referable value in several results (back-references across the result list)
				for i := 1; i < len(rs.vals); i++ {
					if rs.vals[i].Type() == rs.vals[0].Type() {
						rs.vals[i] = rs.vals[0]
					}
				}
			}
		}
		rheaders := genHeaders(rt, co.Struct == 0)
		canon := fmt.Sprintf("response of %s kind=%s values=(%s) msg=%q headers=%v client[%s] service[%s]", f.Name, rs.kind, nodes(rs.vals), rs.msg, rheaders, co, so)
		ev.S.Begin("response", canon)
		cli, srv := core.NewClientCodec(co.list()...), core.NewServiceCodec(so.list()...)
		sc := core.NewServiceContext(service)
		for k, v := range rheaders {
			sc.ResponseHeaders().Set(k, v)
		}
		var result interface{}
		switch rs.kind {
		case "error":
			result = errors.New(rs.msg)
		case "panic":
			result = core.NewPanicError(rs.msg)
		case "values":
			if len(rs.vals) == 1 {
				result = rs.vals[0].Interface()
			} else {
				result = ifaces(rs.vals)
			}
		}
		var response []byte
		var err error
		if p := guard(func() { response, err = srv.Encode(result, sc) }); p != "" {
			fail(rt, "response", "TestResponseRoundTrip", canon, "service codec panicked while encoding: "+p)
			return
		}
		ev.S.Case("response", canon, (len(rs.vals) > 0 || rs.kind == "error" || rs.kind == "panic") && (co != options{} || so != options{}), "result="+rs.kind, fmt.Sprintf("nresults=%d", len(rs.vals)))
		if yearError(err) {
			return
		}
		if err != nil {
			fail(rt, "response", "TestResponseRoundTrip", canon, "service codec failed to encode: "+err.Error())
			return
		}
		kind := byte('R')
		if rs.kind == "error" || rs.kind == "panic" {
			kind = 'E'
		}
		if p := envelope(response, kind); p != "" {
			fail(rt, "response", "TestResponseRoundTrip", canon, fmt.Sprintf("response envelope: %s\nbytes %q", p, response))
			return
		}
		cc := core.NewClientContext()
		cc.ReturnType = f.Out
		var got []interface{}
		if p := guard(func() { got, err = cli.Decode(response, cc) }); p != "" {
			fail(rt, "response", "TestResponseRoundTrip", canon, fmt.Sprintf("client codec panicked while decoding: %s\nbytes %q", p, response))
			return
		}
		gh := cc.ResponseHeaders().ToMap()
		delete(gh, "simple")
		if d := eq(reflect.ValueOf(rheaders), reflect.ValueOf(gh)); d != "" {
			fail(rt, "response", "TestResponseRoundTrip", canon, fmt.Sprintf("response headers differ at %s: sent %v, decoded %v", d, rheaders, gh))
			return
		}
		switch rs.kind {
		case "error", "panic":
			ok := err != nil && err.Error() == rs.msg
			if so.Debug && rs.kind == "panic" {
				ok = err != nil && strings.HasPrefix(err.Error(), rs.msg)
			}
			if !ok {
				fail(rt, "response", "TestResponseRoundTrip", canon, fmt.Sprintf("error message %q came back as %v\nbytes %q", rs.msg, err, response))
			}
		default:
			if err != nil {
				fail(rt, "response", "TestResponseRoundTrip", canon, fmt.Sprintf("client codec rejected the response: %v\nbytes %q", err, response))
				return
			}
			if len(got) != len(f.Out) {
				fail(rt, "response", "TestResponseRoundTrip", canon, fmt.Sprintf("%d results declared, %d decoded\nbytes %q", len(f.Out), len(got), response))
				return
			}
			for i := range rs.vals {
				g := reflect.ValueOf(&got[i]).Elem()
				if got[i] != nil && f.Out[i].Kind() != reflect.Interface && reflect.TypeOf(got[i]) != f.Out[i] {
					fail(rt, "response", "TestResponseRoundTrip", canon, fmt.Sprintf("result %d decoded as %T, the declared type is %s", i, got[i], f.Out[i]))
					return
				}
				if got[i] == nil {
					g = reflect.Zero(f.Out[i])
				}
				if d := eq(rs.vals[i], g); d != "" {
					fail(rt, "response", "TestResponseRoundTrip", canon, fmt.Sprintf("result %d differs at %s\nbytes %q", i, d, response))
					return
				}
				if d := genericBehind(f.Out[i], got[i], co.Map); d != "" {
					fail(rt, "response", "TestResponseRoundTrip", canon, fmt.Sprintf("result %d: %s\nbytes %q", i, d, response))
					return
				}
			}
		}
	})
}

// ---------------------------------------------------------------- JSON-RPC codec pair

var jsonService *core.Service

var jsonFns []svc.Fn

func init() {
	for _, f := range svc.Catalogue {
		switch f.Name {
		case "hello", "add", "Scalars", "structs", "slices", "maps", "join", "sum", "multi", "repeat", "noArgs", "nothing", "withCtx":
			jsonFns = append(jsonFns, f)
		}
	}
}

var jsonOpts = uni.Opts{JSONSafe: true, NoBadYears: true, NoThirdZone: true, MaxLen: 3, IfaceDynamic: []reflect.Type{reflect.TypeOf(false), reflect.TypeOf("")}}

func TestJSONRPC(t *testing.T) {
	jsonService = core.NewService()
	for _, f := range svc.Catalogue {
		jsonService.AddFunction(f.F, f.Name)
	}
	ev.Check(t, "jsonrpc", ev.N(15000, 2000000), func(rt *rapid.T) {
		f := rapid.SampledFrom(jsonFns).Draw(rt, "fn")
		name := spell(rt, f.Name)
		n := len(f.In)
		count := n
		if f.Variadic {
			count = n - 1 + rapid.IntRange(0, 3).Draw(rt, "tail")
		}
		args := make([]reflect.Value, count)
		for i := range args {
			args[i] = uni.Gen(rt, paramType(f, i), 2, jsonOpts)
		}
		canon := fmt.Sprintf("jsonrpc %s(%s)", name, nodes(args))
		ev.S.Begin("jsonrpc", canon)
		cli, srv := jsonrpc.NewClientCodec(nil), jsonrpc.NewServiceCodec(nil)
		cc := core.NewClientContext()
		var request []byte
		var err error
		if p := guard(func() { request, err = cli.Encode(name, ifaces(args), cc) }); p != "" || err != nil {
			fail(rt, "jsonrpc", "TestJSONRPC", canon, fmt.Sprintf("client codec failed to encode: %v %v", p, err))
			return
		}
		ev.S.Case("jsonrpc", canon, len(args) > 0, "jsonrpc")
		sc := core.NewServiceContext(jsonService)
		var gotName string
		var gotArgs []interface{}
		if p := guard(func() { gotName, gotArgs, err = srv.Decode(request, sc) }); p != "" || err != nil {
			fail(rt, "jsonrpc", "TestJSONRPC", canon, fmt.Sprintf("service codec failed to decode: %v %v\nbytes %s", p, err, request))
			return
		}
		if gotName != name || sc.Method == nil || sc.Method.Func().Pointer() != reflect.ValueOf(f.F).Pointer() || len(gotArgs) != len(args) {
			fail(rt, "jsonrpc", "TestJSONRPC", canon, fmt.Sprintf("decoded name %q, %d arguments\nbytes %s", gotName, len(gotArgs), request))
			return
		}
		for i := range args {
			g := reflect.ValueOf(&gotArgs[i]).Elem()
			if gotArgs[i] == nil {
				g = reflect.Zero(paramType(f, i))
			}
			if d := eq(args[i], g); d != "" {
				fail(rt, "jsonrpc", "TestJSONRPC", canon, fmt.Sprintf("argument %d differs at %s\nbytes %s", i, d, request))
				return
			}
		}
		// response
		var vals []reflect.Value
		for _, ot := range f.Out {
			vals = append(vals, uni.Gen(rt, ot, 2, jsonOpts))
		}
		var result interface{}
		switch len(vals) {
		case 0:
		case 1:
			result = vals[0].Interface()
		default:
			result = ifaces(vals)
		}
		var response []byte
		if p := guard(func() { response, err = srv.Encode(result, sc) }); p != "" || err != nil {
			fail(rt, "jsonrpc", "TestJSONRPC", canon, fmt.Sprintf("service codec failed to encode the result: %v %v", p, err))
			return
		}
		cc.ReturnType = f.Out
		var got []interface{}
		if p := guard(func() { got, err = cli.Decode(response, cc) }); p != "" || err != nil {
			fail(rt, "jsonrpc", "TestJSONRPC", canon, fmt.Sprintf("client codec failed to decode the result: %v %v\nbytes %s", p, err, response))
			return
		}
		nonNil := 0
		for _, v := range vals {
			if !(v.Kind() == reflect.Slice || v.Kind() == reflect.Map || v.Kind() == reflect.Ptr) || !v.IsNil() {
				nonNil++
			}
		}
		if len(got) != len(vals) && !(len(vals) == 1 && nonNil == 0 && len(got) == 0) {
			fail(rt, "jsonrpc", "TestJSONRPC", canon, fmt.Sprintf("%d results sent, %d decoded\nbytes %s", len(vals), len(got), response))
			return
		}
		for i := range got {
			g := reflect.ValueOf(&got[i]).Elem()
			if got[i] == nil {
				g = reflect.Zero(f.Out[i])
			}
			if d := eq(vals[i], g); d != "" {
				fail(rt, "jsonrpc", "TestJSONRPC", canon, fmt.Sprintf("result %d differs at %s\nbytes %s", i, d, response))
				return
			}
		}
	})
}

func TestFinding(t *testing.T) {
	t.Skip("no open finding " + ev.FindingKey())
}
