// C15 — plugins run as an ordered onion around the core handler.
package c15

import (
	"bytes"
	"context"
	"errors"
	"fmt"
	"regexp"
	"strconv"
	"strings"
	"sync"
	"testing"
	"time"

	_ "github.com/hprose/hprose-golang/v3/rpc"
	"github.com/hprose/hprose-golang/v3/rpc/core"
	"github.com/hprose/hprose-golang/v3/rpc/mock"
	"pgregory.net/rapid"
	"verif/hp/ev"
)

func TestMain(m *testing.M) { ev.Main(m, "C15") }

// ---------------------------------------------------------------- recording

type cmd struct {
	kind string // "" | "short" | "error" | "block" | "twice"
	at   string // atom id with side prefix, e.g. "C:I3" (client side invoke func 3)
}

var (
	recMu    sync.Mutex
	traces   = map[int][]string{}
	cmds     = map[int]cmd{}
	blockedC = make(chan int, 16)       // a call announces it is parked
	resumeC  = map[int]chan struct{}{} // controller releases it
)

var callRe = regexp.MustCompile(`c(\d+)\|`)

func record(id int, e string) {
	recMu.Lock()
	traces[id] = append(traces[id], e)
	recMu.Unlock()
}

func side(ctx context.Context) string {
	c, _ := core.FromContext(ctx)
	switch c.(type) {
	case *core.ClientContext:
		return "C:"
	case *core.ServiceContext:
		return "S:"
	}
	return "?:"
}

func callIDFromArgs(args []interface{}) int {
	if len(args) > 0 {
		if s, ok := args[0].(string); ok {
			if m := callRe.FindStringSubmatch(s); m != nil {
				n, _ := strconv.Atoi(m[1])
				return n
			}
		}
	}
	return -1
}

func callIDFromBytes(b []byte) int {
	if m := callRe.FindSubmatch(b); m != nil {
		n, _ := strconv.Atoi(string(m[1]))
		return n
	}
	return -1
}

func getCmd(id int) cmd {
	recMu.Lock()
	defer recMu.Unlock()
	return cmds[id]
}

func park(id int) {
	recMu.Lock()
	ch := resumeC[id]
	recMu.Unlock()
	blockedC <- id
	<-ch
}

// invokeBody is what every invoke-type atom does.
func invokeBody(atom string, ctx context.Context, name string, args []interface{}, next core.NextInvokeHandler) (result []interface{}, err error) {
	id := callIDFromArgs(args)
	full := side(ctx) + atom
	record(id, "enter "+full)
	c := getCmd(id)
	if c.at == full {
		switch c.kind {
		case "short":
			record(id, "exit "+full)
			return []interface{}{"short@" + full}, nil
		case "error":
			record(id, "exit! "+full)
			return nil, errors.New("inj@" + full)
		case "block":
			park(id)
		case "twice":
			// what a retrying plugin does: everything below runs once, its outcome is dropped, and runs again
			next(ctx, name, args)
			record(id, "again "+full)
		}
	}
	result, err = next(ctx, name, args)
	if err != nil {
		record(id, "exit! "+full)
		return
	}
	record(id, "exit "+full)
	if len(result) == 1 {
		if s, ok := result[0].(string); ok {
			result = []interface{}{s + "<" + full}
		}
	}
	return
}

func ioBody(atom string, ctx context.Context, request []byte, next core.NextIOHandler) (response []byte, err error) {
	id := callIDFromBytes(request)
	full := side(ctx) + atom
	record(id, "enter "+full)
	c := getCmd(id)
	if c.at == full {
		switch c.kind {
		case "short":
			record(id, "exit "+full)
			s := "short@" + full
			return []byte(fmt.Sprintf("Rs%d\"%s\"z", len(s), s)), nil
		case "error":
			record(id, "exit! "+full)
			return nil, errors.New("inj@" + full)
		case "block":
			park(id)
		case "twice":
			next(ctx, request)
			record(id, "again "+full)
		}
	}
	response, err = next(ctx, request)
	if err != nil {
		record(id, "exit! "+full)
		return
	}
	record(id, "exit "+full)
	return
}

// Main pool: separately declared top-level functions and plugin values of distinct types, so that
// every handler has its own code pointer (see DESIGN.md C15 on handler identity).
func I0(ctx context.Context, name string, args []interface{}, next core.NextInvokeHandler) ([]interface{}, error) {
	return invokeBody("I0", ctx, name, args, next)
}
func I1(ctx context.Context, name string, args []interface{}, next core.NextInvokeHandler) ([]interface{}, error) {
	return invokeBody("I1", ctx, name, args, next)
}
func I2(ctx context.Context, name string, args []interface{}, next core.NextInvokeHandler) ([]interface{}, error) {
	return invokeBody("I2", ctx, name, args, next)
}
func I3(ctx context.Context, name string, args []interface{}, next core.NextInvokeHandler) ([]interface{}, error) {
	return invokeBody("I3", ctx, name, args, next)
}
func I4(ctx context.Context, name string, args []interface{}, next core.NextInvokeHandler) ([]interface{}, error) {
	return invokeBody("I4", ctx, name, args, next)
}
func I5(ctx context.Context, name string, args []interface{}, next core.NextInvokeHandler) ([]interface{}, error) {
	return invokeBody("I5", ctx, name, args, next)
}
func O0(ctx context.Context, request []byte, next core.NextIOHandler) ([]byte, error) {
	return ioBody("O0", ctx, request, next)
}
func O1(ctx context.Context, request []byte, next core.NextIOHandler) ([]byte, error) {
	return ioBody("O1", ctx, request, next)
}
func O2(ctx context.Context, request []byte, next core.NextIOHandler) ([]byte, error) {
	return ioBody("O2", ctx, request, next)
}
func O3(ctx context.Context, request []byte, next core.NextIOHandler) ([]byte, error) {
	return ioBody("O3", ctx, request, next)
}
func O4(ctx context.Context, request []byte, next core.NextIOHandler) ([]byte, error) {
	return ioBody("O4", ctx, request, next)
}
func O5(ctx context.Context, request []byte, next core.NextIOHandler) ([]byte, error) {
	return ioBody("O5", ctx, request, next)
}

type P0 struct{}

func (*P0) IOHandler(ctx context.Context, request []byte, next core.NextIOHandler) ([]byte, error) {
	return ioBody("P0.io", ctx, request, next)
}
func (*P0) InvokeHandler(ctx context.Context, name string, args []interface{}, next core.NextInvokeHandler) ([]interface{}, error) {
	return invokeBody("P0.inv", ctx, name, args, next)
}

type P1 struct{}

func (*P1) IOHandler(ctx context.Context, request []byte, next core.NextIOHandler) ([]byte, error) {
	return ioBody("P1.io", ctx, request, next)
}
func (*P1) InvokeHandler(ctx context.Context, name string, args []interface{}, next core.NextInvokeHandler) ([]interface{}, error) {
	return invokeBody("P1.inv", ctx, name, args, next)
}

type P2 struct{}

func (*P2) IOHandler(ctx context.Context, request []byte, next core.NextIOHandler) ([]byte, error) {
	return ioBody("P2.io", ctx, request, next)
}
func (*P2) InvokeHandler(ctx context.Context, name string, args []interface{}, next core.NextInvokeHandler) ([]interface{}, error) {
	return invokeBody("P2.inv", ctx, name, args, next)
}

type HI struct{}

func (*HI) Handler(ctx context.Context, name string, args []interface{}, next core.NextInvokeHandler) ([]interface{}, error) {
	return invokeBody("HI", ctx, name, args, next)
}

type HO struct{}

func (*HO) Handler(ctx context.Context, request []byte, next core.NextIOHandler) ([]byte, error) {
	return ioBody("HO", ctx, request, next)
}

// Aliased pool: closures of one function literal (from a non-inlinable factory) and several
// instances of one plugin type. These share code pointers.
//
//go:noinline
func mkInv(tag string) core.InvokeHandler {
	return func(ctx context.Context, name string, args []interface{}, next core.NextInvokeHandler) ([]interface{}, error) {
		return invokeBody(tag, ctx, name, args, next)
	}
}

//go:noinline
func mkIO(tag string) core.IOHandler {
	return func(ctx context.Context, request []byte, next core.NextIOHandler) ([]byte, error) {
		return ioBody(tag, ctx, request, next)
	}
}

type Q struct{ tag string }

func (q *Q) IOHandler(ctx context.Context, request []byte, next core.NextIOHandler) ([]byte, error) {
	return ioBody(q.tag+".io", ctx, request, next)
}
func (q *Q) InvokeHandler(ctx context.Context, name string, args []interface{}, next core.NextInvokeHandler) ([]interface{}, error) {
	return invokeBody(q.tag+".inv", ctx, name, args, next)
}

// obj is one pool member: what is passed to Use/Unuse, and the atoms it contributes.
type obj struct {
	name  string
	h     core.PluginHandler
	inv   string // invoke atom ("" if none)
	io    string // io atom ("" if none)
	group string // handlers sharing a code pointer share a group ("" = unique)
}

var mainPool = []obj{
	{"I0", I0, "I0", "", ""}, {"I1", I1, "I1", "", ""}, {"I2", I2, "I2", "", ""},
	{"I3", I3, "I3", "", ""}, {"I4", I4, "I4", "", ""}, {"I5", I5, "I5", "", ""},
	{"O0", O0, "", "O0", ""}, {"O1", O1, "", "O1", ""}, {"O2", O2, "", "O2", ""},
	{"O3", O3, "", "O3", ""}, {"O4", O4, "", "O4", ""}, {"O5", O5, "", "O5", ""},
	// plugin objects are turned into method values through an interface; all objects of one
	// interface kind then share one wrapper code pointer (open finding unuse-code-pointer)
	{"P0", &P0{}, "P0.inv", "P0.io", "plugin"}, {"P1", &P1{}, "P1.inv", "P1.io", "plugin"}, {"P2", &P2{}, "P2.inv", "P2.io", "plugin"},
	{"HI", &HI{}, "HI", "", "invokePlugin"}, {"HO", &HO{}, "", "HO", "ioPlugin"},
}

// inflightPool has at most one member per code-pointer group, so the in-flight and race
// sub-checks stay clear of the open finding.
var inflightPool = append(append([]obj{}, mainPool[:13]...), mainPool[15], mainPool[16])

var aliasedPool = []obj{
	{"A0", mkInv("A0"), "A0", "", "A"}, {"A1", mkInv("A1"), "A1", "", "A"}, {"A2", mkInv("A2"), "A2", "", "A"},
	{"B0", mkIO("B0"), "", "B0", "B"}, {"B1", mkIO("B1"), "", "B1", "B"},
	{"Q0", &Q{"Q0"}, "Q0.inv", "Q0.io", "plugin"}, {"Q1", &Q{"Q1"}, "Q1.inv", "Q1.io", "plugin"}, {"Q2", &Q{"Q2"}, "Q2.inv", "Q2.io", "plugin"},
	{"I0", I0, "I0", "", ""}, {"O0", O0, "", "O0", ""}, {"P0", &P0{}, "P0.inv", "P0.io", "plugin"},
}

// ---------------------------------------------------------------- model

type chains struct {
	inv []string
	io  []string
}

func (c *chains) use(objs []obj) {
	for _, o := range objs {
		if o.inv != "" {
			c.inv = append(c.inv, o.inv)
		}
		if o.io != "" {
			c.io = append(c.io, o.io)
		}
	}
}

func remove(list []string, atom string) []string {
	var out []string
	for _, a := range list {
		if a != atom {
			out = append(out, a)
		}
	}
	return out
}

func (c *chains) unuse(objs []obj) {
	for _, o := range objs {
		if o.inv != "" {
			c.inv = remove(c.inv, o.inv)
		}
		if o.io != "" {
			c.io = remove(c.io, o.io)
		}
	}
}

// unuseByGroup is the behaviour of the open finding: every installed handler that shares a code
// pointer with a removed one disappears too.
func (c *chains) unuseByGroup(objs []obj, pool []obj) (extra bool) {
	for _, o := range objs {
		if o.group == "" {
			c.unuse([]obj{o})
			continue
		}
		for _, p := range pool {
			if p.group == o.group {
				if p.name != o.name && ((p.inv != "" && c.has(p.inv)) || (p.io != "" && c.has(p.io))) {
					named := false
					for _, q := range objs {
						if q.name == p.name {
							named = true
						}
					}
					if !named {
						extra = true
					}
				}
				c.unuse([]obj{p})
			}
		}
	}
	return
}

func (c chains) clone() chains {
	return chains{append([]string(nil), c.inv...), append([]string(nil), c.io...)}
}

func (c chains) has(atom string) bool {
	for _, a := range c.inv {
		if a == atom {
			return true
		}
	}
	for _, a := range c.io {
		if a == atom {
			return true
		}
	}
	return false
}

// expected computes the trace, result and error of a call given the four chains it passes
// through (client invoke, client io, service io, service invoke) and its command.
func expected(id int, ci, cio, sio, si []string, c cmd) (trace []string, result string, errMsg string) {
	type stage struct {
		side  string
		atoms []string
	}
	stages := []stage{{"C:", ci}, {"C:", cio}, {"S:", sio}, {"S:", si}}
	type frame struct {
		full  string
		stage int
	}
	if c.kind == "twice" {
		// the layers below the one that calls next twice are passed twice, in the same order
		var all []string
		for _, st := range stages {
			for _, a := range st.atoms {
				all = append(all, st.side+a)
			}
		}
		p := -1
		for i, f := range all {
			if f == c.at {
				p = i
				break
			}
		}
		plain, result, _ := expected(id, ci, cio, sio, si, cmd{})
		if p < 0 {
			return plain, result, ""
		}
		var below []string
		for i := p + 1; i < len(all); i++ {
			below = append(below, "enter "+all[i])
		}
		for i := len(all) - 1; i > p; i-- {
			below = append(below, "exit "+all[i])
		}
		for i := 0; i <= p; i++ {
			trace = append(trace, "enter "+all[i])
		}
		trace = append(trace, below...)
		trace = append(trace, "again "+c.at)
		trace = append(trace, below...)
		for i := p; i >= 0; i-- {
			trace = append(trace, "exit "+all[i])
		}
		return trace, result, ""
	}
	var stack []frame
	stopStage := -1
	stopped := ""
outer:
	for s, st := range stages {
		for _, a := range st.atoms {
			full := st.side + a
			trace = append(trace, "enter "+full)
			stack = append(stack, frame{full, s})
			if c.at == full && (c.kind == "short" || c.kind == "error") {
				stopStage, stopped = s, full
				break outer
			}
		}
	}
	// where does an error stop being an error? service-side errors are encoded into the response
	// by the service core, so client IO handlers see a normal response and client invoke handlers
	// see the decoded error again.
	isErr := c.kind == "error" && stopped != ""
	result = fmt.Sprintf("echo:c%d|", id)
	if stopped != "" && c.kind == "short" {
		result = "short@" + stopped
	}
	for k := len(stack) - 1; k >= 0; k-- {
		f := stack[k]
		sawErr := false
		if isErr {
			switch {
			case stopStage >= 2: // injected on the service side
				sawErr = f.stage >= 2 || f.stage == 0
			case stopStage == 1: // client io
				sawErr = f.stage == 1 || f.stage == 0
			default:
				sawErr = f.stage == 0
			}
		}
		if sawErr {
			trace = append(trace, "exit! "+f.full)
		} else {
			trace = append(trace, "exit "+f.full)
			if !isErr && (f.stage == 0 || f.stage == 3) && !(f.full == stopped) {
				result += "<" + f.full
			}
		}
	}
	if isErr {
		return trace, "", "inj@" + stopped
	}
	return trace, result, ""
}

// ---------------------------------------------------------------- rig

type rig struct {
	client  *core.Client
	service *core.Service
	server  mock.Server
	nextID  int
}

var rigSeq int
var rigMu sync.Mutex

func newRig() *rig {
	rigMu.Lock()
	rigSeq++
	addr := fmt.Sprintf("c15-%d", rigSeq)
	rigMu.Unlock()
	r := &rig{}
	r.service = core.NewService()
	r.service.AddFunction(func(s string) string { return "echo:" + s }, "echo")
	r.server = mock.Server{Address: addr}
	if err := r.service.Bind(r.server); err != nil {
		panic(err)
	}
	r.client = core.NewClient("mock://" + addr)
	r.client.Timeout = 0
	return r
}

func (r *rig) close() { r.server.Close() }

var idMu sync.Mutex
var globalID int

func newCallID() int {
	idMu.Lock()
	defer idMu.Unlock()
	globalID++
	return globalID
}

// call performs one call and returns its trace, result and error text.
func (r *rig) call(id int, c cmd) ([]string, string, string) {
	recMu.Lock()
	cmds[id] = c
	traces[id] = nil
	recMu.Unlock()
	res, err := r.client.Invoke("echo", []interface{}{fmt.Sprintf("c%d|", id)})
	recMu.Lock()
	tr := traces[id]
	delete(traces, id)
	delete(cmds, id)
	recMu.Unlock()
	if err != nil {
		return tr, "", err.Error()
	}
	if len(res) == 1 {
		return tr, fmt.Sprint(res[0]), ""
	}
	return tr, fmt.Sprint(res), ""
}

func names(objs []obj) string {
	var s []string
	for _, o := range objs {
		s = append(s, o.name)
	}
	return strings.Join(s, "+")
}

func drawSubset(rt *rapid.T, pool []obj, label string) []obj {
	n := rapid.IntRange(1, 3).Draw(rt, label+"n")
	idx := rapid.SliceOfNDistinct(rapid.IntRange(0, len(pool)-1), n, n, rapid.ID[int]).Draw(rt, label)
	out := make([]obj, len(idx))
	for i, k := range idx {
		out[i] = pool[k]
	}
	return out
}

func drawCmd(rt *rapid.T, pool []obj) cmd {
	kind := rapid.SampledFrom([]string{"", "", "", "short", "error", "twice"}).Draw(rt, "cmdKind")
	if kind == "" {
		return cmd{}
	}
	o := pool[rapid.IntRange(0, len(pool)-1).Draw(rt, "cmdObj")]
	atom := o.inv
	if atom == "" || (o.io != "" && rapid.Bool().Draw(rt, "cmdIO")) {
		atom = o.io
	}
	return cmd{kind, rapid.SampledFrom([]string{"C:", "S:"}).Draw(rt, "cmdSide") + atom}
}

const kfUnuseAlias = "unuse-code-pointer"

// machine runs the Use/Unuse/Call state machine on a client and a service against the list model.
func machine(rt *rapid.T, sub, test string, pool []obj, allowDup bool) {
	r := newRig()
	defer r.close()
	var cm, sm chains       // correct model: client, service
	var cmF, smF chains     // model of the open finding (removal by code pointer)
	var hist []string
	afterUnuse, diverged := false, false
	desc := func() string { return strings.Join(hist, " ; ") }
	installed := func(c chains, o obj) bool {
		return (o.inv != "" && c.has(o.inv)) || (o.io != "" && c.has(o.io))
	}
	filterNew := func(c chains, objs []obj) []obj {
		if allowDup {
			return objs
		}
		var out []obj
		for _, o := range objs {
			if !installed(c, o) {
				out = append(out, o)
			}
		}
		return out
	}
	// handler lists the caller keeps and passes again later (Use(list...), Unuse(list...), the same list on the other
	// side): what a list means is what the caller put into it, whatever Use and Unuse were handed before
	type keptList struct {
		objs []obj
		hs   []core.PluginHandler
	}
	var kept []keptList
	handlersOf := func(objs []obj, label string, rt *rapid.T) []core.PluginHandler {
		if len(kept) > 0 && rapid.IntRange(0, 2).Draw(rt, label+"reuse") == 0 {
			for _, k := range kept {
				if names(k.objs) == names(objs) {
					return k.hs
				}
			}
		}
		hs := make([]core.PluginHandler, len(objs))
		for i, o := range objs {
			hs[i] = o.h
		}
		if len(kept) < 6 {
			kept = append(kept, keptList{objs, hs})
		}
		return hs
	}
	drawObjs := func(rt *rapid.T, label string) []obj {
		if len(kept) > 0 && rapid.IntRange(0, 2).Draw(rt, label+"kept") == 0 {
			return kept[rapid.IntRange(0, len(kept)-1).Draw(rt, label+"which")].objs
		}
		return drawSubset(rt, pool, label)
	}
	rt.Repeat(map[string]func(*rapid.T){
		"useClient": func(rt *rapid.T) {
			objs := filterNew(cm, drawObjs(rt, "objs"))
			if len(objs) == 0 {
				rt.Skip("all already installed")
			}
			hs := handlersOf(objs, "h", rt)
			r.client.Use(hs...)
			cm.use(objs)
			cmF.use(objs)
			hist = append(hist, "client.Use("+names(objs)+")")
		},
		"useService": func(rt *rapid.T) {
			objs := filterNew(sm, drawObjs(rt, "objs"))
			if len(objs) == 0 {
				rt.Skip("all already installed")
			}
			hs := handlersOf(objs, "h", rt)
			r.service.Use(hs...)
			sm.use(objs)
			smF.use(objs)
			hist = append(hist, "service.Use("+names(objs)+")")
		},
		"unuseClient": func(rt *rapid.T) {
			objs := drawObjs(rt, "objs")
			hs := handlersOf(objs, "h", rt)
			r.client.Unuse(hs...)
			for _, o := range objs {
				if installed(cm, o) && len(cm.inv)+len(cm.io) >= 3 {
					afterUnuse = true
				}
			}
			cm.unuse(objs)
			if cmF.unuseByGroup(objs, pool) {
				diverged = true
			}
			hist = append(hist, "client.Unuse("+names(objs)+")")
		},
		"unuseService": func(rt *rapid.T) {
			objs := drawObjs(rt, "objs")
			hs := handlersOf(objs, "h", rt)
			r.service.Unuse(hs...)
			for _, o := range objs {
				if installed(sm, o) && len(sm.inv)+len(sm.io) >= 3 {
					afterUnuse = true
				}
			}
			sm.unuse(objs)
			if smF.unuseByGroup(objs, pool) {
				diverged = true
			}
			hist = append(hist, "service.Unuse("+names(objs)+")")
		},
		"call": func(rt *rapid.T) {
			c := drawCmd(rt, pool)
			id := newCallID()
			hist = append(hist, fmt.Sprintf("call(%s@%s)", c.kind, c.at))
			ev.S.Begin(sub, desc())
			tr, res, errMsg := r.call(id, c)
			wantTr, wantRes, wantErr := expected(id, cm.inv, cm.io, sm.io, sm.inv, c)
			ok := strings.Join(tr, ",") == strings.Join(wantTr, ",") && sameResult(res, wantRes, id) && errMsg == wantErr
			if !ok {
				// does the open finding explain it exactly?
				fTr, fRes, fErr := expected(id, cmF.inv, cmF.io, smF.io, smF.inv, c)
				key := ""
				if diverged && strings.Join(tr, ",") == strings.Join(fTr, ",") && sameResult(res, fRes, id) && errMsg == fErr {
					key = kfUnuseAlias
				}
				detail := fmt.Sprintf("trace   %v\nexpected %v\nresult %q expected %q; error %q expected %q", tr, wantTr, res, strings.ReplaceAll(wantRes, fmt.Sprintf("c%d|", id), "c<id>|"), errMsg, wantErr)
				if key != "" && ev.S.Known(key) {
					ev.S.Exclude(key, desc()+" => "+detail)
					// continue from the behaviour actually observed
					cm, sm = cmF.clone(), smF.clone()
					diverged = false
					return
				}
				ev.S.Violation(sub, test, desc(), detail, nil)
				rt.Fatalf("%s\n%s", desc(), detail)
			}
		},
	})
	ev.S.Begin(sub, desc())
	ev.S.Case(sub, desc(), afterUnuse && strings.Contains(desc(), "call("), sub)
}

func sameResult(got, want string, id int) bool { return got == want }

func TestOnionSequential(t *testing.T) {
	ev.Steps(ev.Pick(30, 50))
	ev.Check(t, "onion-seq", ev.N(2500, 80000), func(rt *rapid.T) {
		machine(rt, "onion-seq", "TestOnionSequential", mainPool, false)
	})
}

// TestOnionAliased uses handlers that share code pointers (closures of one literal, instances of
// one plugin type). On this tree it runs into the open finding kfUnuseAlias, which is matched
// two-sidedly: the observed trace must equal the onion of the "removed by code pointer" model.
func TestOnionAliased(t *testing.T) {
	ev.Steps(30)
	ev.Check(t, "onion-aliased", ev.N(1200, 30000), func(rt *rapid.T) {
		machine(rt, "onion-aliased", "TestOnionAliased", aliasedPool, false)
	})
}

// ---------------------------------------------------------------- concurrent: Use/Unuse while a call is in flight

// TestOnionInFlight parks a call inside a chosen handler, changes the chains, then lets it continue.
// The call's chain for a manager is the one that manager had when the call reached it: managers it
// had already entered are unaffected, managers it reaches later show the new handlers.
func TestOnionInFlight(t *testing.T) {
	ev.Check(t, "onion-inflight", ev.N(1500, 40000), func(rt *rapid.T) {
		r := newRig()
		defer r.close()
		var cm, sm chains
		var hist []string
		desc := func() string { return strings.Join(hist, " ; ") }
		setup := func(label string, isClient bool) {
			objs := drawSubset(rt, inflightPool, label)
			hs := make([]core.PluginHandler, len(objs))
			for i, o := range objs {
				hs[i] = o.h
			}
			if isClient {
				r.client.Use(hs...)
				cm.use(objs)
				hist = append(hist, "client.Use("+names(objs)+")")
			} else {
				r.service.Use(hs...)
				sm.use(objs)
				hist = append(hist, "service.Use("+names(objs)+")")
			}
		}
		setup("c0", true)
		setup("s0", false)
		// choose the parking handler among the installed atoms
		type spot struct {
			full  string
			stage int
		}
		var spots []spot
		for _, a := range cm.inv {
			spots = append(spots, spot{"C:" + a, 0})
		}
		for _, a := range cm.io {
			spots = append(spots, spot{"C:" + a, 1})
		}
		for _, a := range sm.io {
			spots = append(spots, spot{"S:" + a, 2})
		}
		for _, a := range sm.inv {
			spots = append(spots, spot{"S:" + a, 3})
		}
		sp := spots[rapid.IntRange(0, len(spots)-1).Draw(rt, "spot")]
		id := newCallID()
		recMu.Lock()
		resumeC[id] = make(chan struct{})
		recMu.Unlock()
		snapC, snapS := cm.clone(), sm.clone()
		hist = append(hist, "call parks in "+sp.full)
		type out struct {
			tr          []string
			res, errMsg string
		}
		done := make(chan out, 1)
		go func() {
			tr, res, e := r.call(id, cmd{"block", sp.full})
			done <- out{tr, res, e}
		}()
		released := false
		defer func() {
			// never leave a call parked (rapid may abort the case at any draw): the mock agent
			// holds a read lock for the duration of a call and closing the server would deadlock
			if !released {
				recMu.Lock()
				ch := resumeC[id]
				delete(resumeC, id)
				recMu.Unlock()
				if ch != nil {
					close(ch)
				}
				select {
				case <-done:
				case <-time.After(20 * time.Second):
				}
			}
		}()
		select {
		case <-blockedC:
		case <-time.After(20 * time.Second):
			ev.S.Violation("onion-inflight", "TestOnionInFlight", desc(), "call never reached the parking handler", nil)
			rt.Fatalf("%s: call never reached the parking handler", desc())
		}
		// mutate while in flight
		nops := rapid.IntRange(1, 4).Draw(rt, "nops")
		for k := 0; k < nops; k++ {
			isClient := rapid.Bool().Draw(rt, "opClient")
			use := rapid.Bool().Draw(rt, "opUse")
			objs := drawSubset(rt, inflightPool, fmt.Sprintf("op%d", k))
			target := &sm
			if isClient {
				target = &cm
			}
			if use {
				var fresh []obj
				for _, o := range objs {
					if !((o.inv != "" && target.has(o.inv)) || (o.io != "" && target.has(o.io))) {
						fresh = append(fresh, o)
					}
				}
				objs = fresh
				if len(objs) == 0 {
					continue
				}
			}
			hs := make([]core.PluginHandler, len(objs))
			for i, o := range objs {
				hs[i] = o.h
			}
			w := "service"
			if isClient {
				w = "client"
			}
			switch {
			case isClient && use:
				r.client.Use(hs...)
			case isClient:
				r.client.Unuse(hs...)
			case use:
				r.service.Use(hs...)
			default:
				r.service.Unuse(hs...)
			}
			if use {
				target.use(objs)
				hist = append(hist, w+".Use("+names(objs)+") in flight")
			} else {
				target.unuse(objs)
				hist = append(hist, w+".Unuse("+names(objs)+") in flight")
			}
		}
		recMu.Lock()
		close(resumeC[id])
		delete(resumeC, id)
		recMu.Unlock()
		released = true
		var o out
		select {
		case o = <-done:
		case <-time.After(20 * time.Second):
			ev.S.Violation("onion-inflight", "TestOnionInFlight", desc(), "parked call did not finish after being released", nil)
			rt.Fatalf("%s: parked call did not finish", desc())
		}
		// stages already entered keep the old chain; later stages use the new lists
		pick := func(stage int, old, cur []string) []string {
			if stage <= sp.stage {
				return old
			}
			return cur
		}
		wantTr, wantRes, wantErr := expected(id, pick(0, snapC.inv, cm.inv), pick(1, snapC.io, cm.io), pick(2, snapS.io, sm.io), pick(3, snapS.inv, sm.inv), cmd{})
		ev.S.Begin("onion-inflight", desc())
		ev.S.Case("onion-inflight", desc(), true, "inflight-stage-"+strconv.Itoa(sp.stage))
		if strings.Join(o.tr, ",") != strings.Join(wantTr, ",") || o.res != wantRes || o.errMsg != wantErr {
			detail := fmt.Sprintf("trace   %v\nexpected %v\nresult %q expected %q; error %q expected %q", o.tr, wantTr, o.res, wantRes, o.errMsg, wantErr)
			ev.S.Violation("onion-inflight", "TestOnionInFlight", desc(), detail, nil)
			rt.Fatalf("%s\n%s", desc(), detail)
		}
		// a later call sees exactly the new chains
		id2 := newCallID()
		tr2, res2, err2 := r.call(id2, cmd{})
		w2, wr2, we2 := expected(id2, cm.inv, cm.io, sm.io, sm.inv, cmd{})
		if strings.Join(tr2, ",") != strings.Join(w2, ",") || res2 != wr2 || err2 != we2 {
			detail := fmt.Sprintf("later call: trace %v expected %v; result %q expected %q; error %q", tr2, w2, res2, wr2, err2)
			ev.S.Violation("onion-inflight", "TestOnionInFlight", desc(), detail, nil)
			rt.Fatalf("%s\n%s", desc(), detail)
		}
	})
}

// TestOnionRace: Use/Unuse from one goroutine while others call; every call's trace must be a
// well-nested onion of pool handlers (enter h1..hk, exit hk..h1), each at most once, in pool-relative
// order consistent with some list — here only structural validity is asserted.
func TestOnionRace(t *testing.T) {
	ev.Check(t, "onion-race", ev.N(60, 1500), func(rt *rapid.T) {
		r := newRig()
		defer r.close()
		g := rapid.IntRange(2, 8).Draw(rt, "callers")
		per := rapid.IntRange(5, 40).Draw(rt, "per")
		nops := rapid.IntRange(5, 60).Draw(rt, "ops")
		type op struct {
			client, use bool
			objs        []obj
		}
		var ops []op
		for k := 0; k < nops; k++ {
			ops = append(ops, op{rapid.Bool().Draw(rt, "c"), rapid.Bool().Draw(rt, "u"), drawSubset(rt, inflightPool, "o")})
		}
		desc := fmt.Sprintf("callers=%d per=%d ops=%d", g, per, nops)
		ev.S.Begin("onion-race", desc)
		var wg sync.WaitGroup
		var pmu sync.Mutex
		problem := ""
		wg.Add(1)
		go func() {
			defer wg.Done()
			inst := map[string]bool{}
			for _, o := range ops {
				hs := []core.PluginHandler{}
				for _, ob := range o.objs {
					key := fmt.Sprint(o.client) + ob.name
					if o.use && inst[key] {
						continue
					}
					inst[key] = o.use
					hs = append(hs, ob.h)
				}
				if len(hs) == 0 {
					continue
				}
				switch {
				case o.client && o.use:
					r.client.Use(hs...)
				case o.client:
					r.client.Unuse(hs...)
				case o.use:
					r.service.Use(hs...)
				default:
					r.service.Unuse(hs...)
				}
			}
		}()
		for i := 0; i < g; i++ {
			wg.Add(1)
			go func() {
				defer wg.Done()
				for k := 0; k < per; k++ {
					id := newCallID()
					tr, res, e := r.call(id, cmd{})
					if p := wellNested(tr, res, e, id); p != "" {
						pmu.Lock()
						problem = p
						pmu.Unlock()
					}
				}
			}()
		}
		wg.Wait()
		ev.S.Case("onion-race", desc, true, "race")
		if problem != "" {
			ev.S.Violation("onion-race", "TestOnionRace", desc, problem, nil)
			rt.Fatalf("%s: %s", desc, problem)
		}
	})
}

// wellNested: enters then exits in exact reverse order, no handler twice, client before service,
// invoke outside io on the client and io outside invoke on the service; result wraps exactly the
// invoke handlers seen.
func wellNested(tr []string, res, errMsg string, id int) string {
	if errMsg != "" {
		return "call failed during concurrent Use/Unuse: " + errMsg
	}
	var enters []string
	i := 0
	for ; i < len(tr) && strings.HasPrefix(tr[i], "enter "); i++ {
		enters = append(enters, strings.TrimPrefix(tr[i], "enter "))
	}
	seen := map[string]bool{}
	stage := 0
	for _, e := range enters {
		if seen[e] {
			return fmt.Sprintf("handler %s ran twice in one call: %v", e, tr)
		}
		seen[e] = true
		isInv := strings.HasSuffix(e, ".inv") || strings.Contains(e, ":I") || strings.HasSuffix(e, ":HI")
		s := 0
		switch {
		case strings.HasPrefix(e, "C:") && isInv:
			s = 0
		case strings.HasPrefix(e, "C:"):
			s = 1
		case isInv:
			s = 3
		default:
			s = 2
		}
		if s < stage {
			return fmt.Sprintf("handler %s ran out of stage order: %v", e, tr)
		}
		stage = s
	}
	rest := tr[i:]
	if len(rest) != len(enters) {
		return fmt.Sprintf("enter/exit counts differ: %v", tr)
	}
	want := fmt.Sprintf("echo:c%d|", id)
	for k, x := range rest {
		e := enters[len(enters)-1-k]
		if x != "exit "+e {
			return fmt.Sprintf("exits are not the reverse of the enters: %v", tr)
		}
		isInv := strings.HasSuffix(e, ".inv") || strings.Contains(e, ":I") || strings.HasSuffix(e, ":HI")
		if isInv {
			want += "<" + e
		}
	}
	if res != want {
		return fmt.Sprintf("result %q does not wrap exactly the invoke handlers of the trace (%q): %v", res, want, tr)
	}
	return ""
}

// TestFinding re-executes the reproducer of one open known finding.
func TestFinding(t *testing.T) {
	key := ev.FindingKey()
	switch key {
	case kfUnuseAlias:
		r := newRig()
		defer r.close()
		a0, a1, a2 := aliasedPool[0], aliasedPool[1], aliasedPool[2]
		r.client.Use(a0.h, a1.h, a2.h)
		r.client.Unuse(a1.h)
		id := newCallID()
		tr, _, _ := r.call(id, cmd{})
		want, _, _ := expected(id, []string{"A0", "A2"}, nil, nil, nil, cmd{})
		got := strings.Join(tr, ",")
		ev.FindingResult(key, got != strings.Join(want, ","), fmt.Sprintf("Use(A0,A1,A2); Unuse(A1); call: trace %v, expected %v", tr, want))
	default:
		t.Skip("no open finding " + key)
	}
}

var _ = bytes.Contains
