// C17 — limiters bound concurrency and rate and never lose permits.
package c17

import (
	"context"
	"errors"
	"fmt"
	"math"
	"strings"
	"sync"
	"sync/atomic"
	"testing"
	"time"

	_ "github.com/hprose/hprose-golang/v3/rpc"
	"github.com/hprose/hprose-golang/v3/rpc/core"
	"github.com/hprose/hprose-golang/v3/rpc/plugins/limiter"
	"pgregory.net/rapid"
	"verif/hp/ev"
)

func TestMain(m *testing.M) { ev.Main(m, "C17") }

// ---------------------------------------------------------------- concurrent limiter

type creq struct {
	ServiceUS int  `json:"service_us"` // time spent inside the limited section
	Outcome   byte `json:"outcome"`    // o e p
	DelayUS   int  `json:"delay_us"`   // start offset
	Cancelled bool `json:"cancelled"`  // the caller's context is already cancelled
}

type ConcCase struct {
	Limit     int    `json:"limit"`
	TimeoutUS int    `json:"timeout_us"` // 0 = wait for ever
	Reqs      []creq `json:"reqs"`
}

func (c ConcCase) String() string {
	var b strings.Builder
	fmt.Fprintf(&b, "limit=%d timeout=%dus reqs=[", c.Limit, c.TimeoutUS)
	for i, r := range c.Reqs {
		if i > 0 {
			b.WriteByte(' ')
		}
		fmt.Fprintf(&b, "%d+%d%c", r.DelayUS, r.ServiceUS, r.Outcome)
		if r.Cancelled {
			b.WriteByte('x')
		}
	}
	b.WriteByte(']')
	return b.String()
}

func spin(d time.Duration) {
	if d <= 0 {
		return
	}
	if d > 200*time.Microsecond {
		time.Sleep(d)
		return
	}
	for t := time.Now(); time.Since(t) < d; {
	}
}

// runConc returns (contended, problem).
func runConc(c ConcCase) (bool, string) {
	var l *limiter.ConcurrentLimiter
	if c.TimeoutUS > 0 {
		l = limiter.NewConcurrentLimiter(c.Limit, time.Duration(c.TimeoutUS)*time.Microsecond)
	} else {
		l = limiter.NewConcurrentLimiter(c.Limit)
	}
	client := core.NewClient("mock://c17")
	client.Timeout = 0
	client.Use(l)
	var gauge, maxGauge, entered int64
	client.Use(func(ctx context.Context, request []byte, next core.NextIOHandler) ([]byte, error) {
		g := atomic.AddInt64(&gauge, 1)
		for {
			m := atomic.LoadInt64(&maxGauge)
			if g <= m || atomic.CompareAndSwapInt64(&maxGauge, m, g) {
				break
			}
		}
		atomic.AddInt64(&entered, 1)
		i := int(request[0]) | int(request[1])<<8
		r := c.Reqs[i]
		spin(time.Duration(r.ServiceUS) * time.Microsecond)
		atomic.AddInt64(&gauge, -1)
		switch r.Outcome {
		case 'o':
			return []byte{'o', request[0], request[1]}, nil
		case 'e':
			return nil, fmt.Errorf("svc-error-%d", i)
		default:
			panic(fmt.Sprintf("svc-panic-%d", i))
		}
	})
	type result struct {
		resp     []byte
		err      error
		panicked interface{}
		waited   time.Duration
	}
	results := make([]result, len(c.Reqs))
	var wg sync.WaitGroup
	start := make(chan struct{})
	for i := range c.Reqs {
		wg.Add(1)
		go func(i int) {
			defer wg.Done()
			r := c.Reqs[i]
			ctx := core.WithContext(context.Background(), newCtx(client))
			if r.Cancelled {
				cctx, cancel := context.WithCancel(ctx)
				cancel()
				ctx = cctx
			}
			<-start
			spin(time.Duration(r.DelayUS) * time.Microsecond)
			t0 := time.Now()
			defer func() {
				if e := recover(); e != nil {
					results[i].panicked = e
				}
				results[i].waited = time.Since(t0)
			}()
			results[i].resp, results[i].err = client.Request(ctx, []byte{byte(i), byte(i >> 8)})
		}(i)
	}
	close(start)
	done := make(chan struct{})
	go func() { wg.Wait(); close(done) }()
	select {
	case <-done:
	case <-time.After(60 * time.Second):
		return true, "requests did not all finish within 60s: the limiter is wedged"
	}
	timeouts := 0
	for i, r := range c.Reqs {
		res := results[i]
		switch {
		case errors.Is(res.err, core.ErrTimeout):
			timeouts++
			if c.TimeoutUS == 0 {
				return true, fmt.Sprintf("request %d got a timeout error although no wait timeout is configured", i)
			}
			if !r.Cancelled && res.waited < time.Duration(c.TimeoutUS)*time.Microsecond-200*time.Microsecond {
				return true, fmt.Sprintf("request %d rejected after waiting only %v (timeout %dus)", i, res.waited, c.TimeoutUS)
			}
		case res.panicked != nil:
			if r.Outcome != 'p' || !strings.Contains(fmt.Sprint(res.panicked), fmt.Sprintf("svc-panic-%d", i)) {
				return true, fmt.Sprintf("request %d: unexpected panic %v", i, res.panicked)
			}
		case res.err != nil:
			if r.Outcome != 'e' || res.err.Error() != fmt.Sprintf("svc-error-%d", i) {
				return true, fmt.Sprintf("request %d: unexpected error %v", i, res.err)
			}
		default:
			if r.Outcome != 'o' || len(res.resp) != 3 || res.resp[1] != byte(i) {
				return true, fmt.Sprintf("request %d: wrong response %q", i, res.resp)
			}
		}
	}
	contended := atomic.LoadInt64(&maxGauge) == int64(c.Limit) && (timeouts > 0 || len(c.Reqs) > c.Limit)
	if m := atomic.LoadInt64(&maxGauge); m > int64(c.Limit) {
		return contended, fmt.Sprintf("%d requests were executing at once, limit %d", m, c.Limit)
	}
	if e := atomic.LoadInt64(&entered); e != int64(len(c.Reqs)-timeouts) {
		return contended, fmt.Sprintf("%d requests entered the limited section, %d were not rejected (a rejected request ran, or an admitted one did not)", e, len(c.Reqs)-timeouts)
	}
	if n := l.ConcurrentRequests(); n != 0 {
		return contended, fmt.Sprintf("at quiescence the limiter still counts %d requests in flight: a permit was lost", n)
	}
	// not wedged: `limit` calls can be admitted at once, and one more is held back while they run
	return contended, holdCheck(l, c.Limit)
}

func newCtx(client *core.Client) *core.ClientContext {
	cc := core.NewClientContext()
	cc.Init(client)
	return cc
}

// holdCheck: with nothing in flight, m callers get in at once and the (m+1)-th does not.
func holdCheck(l *limiter.ConcurrentLimiter, m int) string {
	release := make(chan struct{})
	in := make(chan struct{}, m+1)
	var wg sync.WaitGroup
	next := func(ctx context.Context, request []byte) ([]byte, error) {
		in <- struct{}{}
		<-release
		return nil, nil
	}
	for i := 0; i < m; i++ {
		wg.Add(1)
		go func() {
			defer wg.Done()
			l.Handler(context.Background(), nil, next)
		}()
	}
	problem := ""
	for i := 0; i < m; i++ {
		select {
		case <-in:
		case <-time.After(10 * time.Second):
			problem = fmt.Sprintf("with nothing in flight only %d of %d callers were admitted: permits were lost", i, m)
		}
		if problem != "" {
			break
		}
	}
	if problem == "" {
		extra := make(chan struct{})
		wg.Add(1)
		go func() {
			defer wg.Done()
			l.Handler(context.Background(), nil, func(ctx context.Context, request []byte) ([]byte, error) {
				close(extra)
				return nil, nil
			})
		}()
		select {
		case <-extra:
			problem = fmt.Sprintf("caller %d was admitted while %d were executing", m+1, m)
		case <-time.After(3 * time.Millisecond):
		}
	}
	close(release)
	wg.Wait()
	if problem == "" && l.ConcurrentRequests() != 0 {
		problem = "permits not returned after the hold check"
	}
	return problem
}

func genConc(rt *rapid.T) ConcCase {
	c := ConcCase{
		Limit:     rapid.IntRange(1, 8).Draw(rt, "limit"),
		TimeoutUS: rapid.SampledFrom([]int{0, 300, 1000, 1000, 5000, 20000}).Draw(rt, "timeout"),
	}
	n := rapid.IntRange(1, 48).Draw(rt, "n")
	for i := 0; i < n; i++ {
		svc := rapid.SampledFrom([]int{0, 20, 100, 300, 900, 1000, 1100, 3000}).Draw(rt, "svc")
		c.Reqs = append(c.Reqs, creq{
			ServiceUS: svc,
			Outcome:   rapid.SampledFrom([]byte{'o', 'o', 'e', 'p'}).Draw(rt, "outcome"),
			DelayUS:   rapid.SampledFrom([]int{0, 0, 50, 500, 1000, 2000}).Draw(rt, "delay"),
			Cancelled: c.TimeoutUS > 0 && rapid.IntRange(0, 9).Draw(rt, "cancelled") == 0,
		})
	}
	return c
}

func TestConcurrentLimiter(t *testing.T) {
	ev.Check(t, "concurrent-limiter", ev.N(600, 20000), func(rt *rapid.T) {
		c := genConc(rt)
		ev.S.Begin("concurrent-limiter", c.String())
		contended, problem := runConc(c)
		classes := []string{"climit"}
		if c.TimeoutUS > 0 {
			classes = append(classes, "with-wait-timeout")
		}
		ev.S.Case("concurrent-limiter", c.String(), contended, classes...)
		if problem != "" {
			ev.S.Violation("concurrent-limiter", "TestConcurrentLimiter", c.String(), problem, c)
			rt.Fatalf("%s: %s", c, problem)
		}
	})
}

// ---------------------------------------------------------------- rate limiter, sequential

type rstep struct {
	Tokens  int `json:"tokens"`
	SleepUS int `json:"sleep_us"` // idle time before the step
}

type RateCase struct {
	Rate      int64   `json:"rate"`
	Burst     float64 `json:"burst"` // 0 = unlimited (the default)
	TimeoutUS int     `json:"timeout_us"`
	Steps     []rstep `json:"steps"`
}

func (c RateCase) String() string {
	var b strings.Builder
	fmt.Fprintf(&b, "rate=%d/s burst=%v timeout=%dus steps=[", c.Rate, c.Burst, c.TimeoutUS)
	for i, s := range c.Steps {
		if i > 0 {
			b.WriteByte(' ')
		}
		if s.SleepUS > 0 {
			fmt.Fprintf(&b, "~%d ", s.SleepUS)
		}
		fmt.Fprintf(&b, "%d", s.Tokens)
	}
	b.WriteByte(']')
	return b.String()
}

type admit struct {
	t0, t1 time.Time
	tokens int
}

// boundProblem checks the rate bound over every window of admissions. The limiter caps the permits
// *left after* an acquisition at the burst and admits a caller as soon as one permit time is reached
// (the caller goes into debt), so the first and the last caller of a window are not charged: for all
// i<j, tokens of the admissions strictly between i and j <= burst + rate * (return of j - start of i).
func boundProblem(adm []admit, rate int64, burst float64) string {
	if math.IsInf(burst, 1) {
		return ""
	}
	for i := range adm {
		sum := 0
		for j := i + 1; j < len(adm); j++ {
			if j > i+1 {
				sum += adm[j-1].tokens
			}
			elapsed := adm[j].t1.Sub(adm[i].t0).Seconds()
			allowed := burst + float64(rate)*elapsed + 0.01
			if float64(sum) > allowed {
				return fmt.Sprintf("admissions %d..%d: %d tokens admitted between the first (%d tokens) and the last (%d tokens) within %.6fs; burst %v + rate %d * elapsed allows %.2f", i, j, sum, adm[i].tokens, adm[j].tokens, elapsed, burst, rate, allowed)
			}
		}
	}
	return ""
}

var payloadBuf []byte

// payload returns n bytes (the rate limiter's IO handler charges one permit per byte of the request).
func payload(n int) []byte {
	if n > len(payloadBuf) {
		payloadBuf = make([]byte, n)
	}
	return payloadBuf[:n]
}

func runRate(c RateCase) (bool, string) {
	opts := []limiter.Option{}
	burst := math.Inf(1)
	if c.Burst > 0 {
		burst = c.Burst
		opts = append(opts, limiter.WithMaxPermits(c.Burst))
	}
	timeout := time.Duration(c.TimeoutUS) * time.Microsecond
	if timeout > 0 {
		opts = append(opts, limiter.WithTimeout(timeout))
	}
	tn0 := time.Now()
	l := limiter.NewRateLimiter(c.Rate, opts...)
	tn1 := time.Now()
	client := core.NewClient("mock://c17r")
	client.Timeout = 0
	client.Use(l)
	var reached int64
	client.Use(func(ctx context.Context, request []byte, next core.NextIOHandler) ([]byte, error) {
		atomic.AddInt64(&reached, 1)
		return []byte("ok"), nil
	})
	interval := float64(time.Second) / float64(c.Rate)
	// shadow of the limiter's "next permit time" as an interval [lo, hi] in nanoseconds since tn0
	lo, hi := 0.0, float64(tn1.Sub(tn0))
	var adm []admit
	waited := false
	cc := newCtx(client)
	ctx := core.WithContext(context.Background(), cc)
	for i, s := range c.Steps {
		if s.SleepUS > 0 {
			time.Sleep(time.Duration(s.SleepUS) * time.Microsecond)
		}
		before := atomic.LoadInt64(&reached)
		t0 := time.Now()
		_, err := client.Request(ctx, payload(s.Tokens))
		t1 := time.Now()
		forwarded := atomic.LoadInt64(&reached) - before
		n0, n1 := float64(t0.Sub(tn0)), float64(t1.Sub(tn0))
		switch {
		case errors.Is(err, core.ErrTimeout):
			if forwarded != 0 {
				return waited, fmt.Sprintf("step %d: rejected request reached the next handler", i)
			}
			if timeout == 0 {
				return waited, fmt.Sprintf("step %d: timeout error although no timeout is configured", i)
			}
			// rejected only when the wait needed (next - now) exceeds the timeout: next <= hi, now >= t0
			if hi-n0 <= float64(timeout)-2e5 {
				return waited, fmt.Sprintf("step %d: rejected with a timeout although the wait needed was at most %.3fms (timeout %v)", i, (hi-n0)/1e6, timeout)
			}
			waited = true
		case err != nil:
			return waited, fmt.Sprintf("step %d: unexpected error %v", i, err)
		default:
			if forwarded != 1 {
				return waited, fmt.Sprintf("step %d: admitted request reached the next handler %d times", i, forwarded)
			}
			// admitted no earlier than the permit time
			if n1 < lo-2e5 {
				return waited, fmt.Sprintf("step %d: admitted %.3fms before a permit was due", i, (lo-n1)/1e6)
			}
			if lo > n0+2e5 {
				waited = true
			}
			adm = append(adm, admit{t0, t1, s.Tokens})
		}
		// next' = max(next + tokens*interval, now - burst*interval), with now in [t0, t1]
		nl, nh := lo+float64(s.Tokens)*interval, hi+float64(s.Tokens)*interval
		if !math.IsInf(burst, 1) {
			nl = math.Max(nl, n0-burst*interval)
			nh = math.Max(nh, n1-burst*interval)
		}
		lo, hi = nl-1, nh+1
	}
	return waited, boundProblem(adm, c.Rate, burst)
}

// genBandwidth: the limiter as a bandwidth cap (permits are bytes): rates of tens of millions to more than
// a thousand million per second, where one permit is worth a few nanoseconds or less, and requests worth
// fractions of a millisecond to a few milliseconds each.
func genBandwidth(rt *rapid.T) RateCase {
	rate := rapid.SampledFrom([]int64{64 << 20, 70000000, 300000000, 600000000, 1500000000}).Draw(rt, "rate")
	c := RateCase{
		Rate:      rate,
		Burst:     float64(rate) * rapid.SampledFrom([]float64{0, 0, 0.001, 0.005}).Draw(rt, "burstSeconds"),
		TimeoutUS: rapid.SampledFrom([]int{0, 0, 0, 3000, 10000}).Draw(rt, "timeout"),
	}
	n := rapid.IntRange(2, 8).Draw(rt, "n")
	for i := 0; i < n; i++ {
		c.Steps = append(c.Steps, rstep{
			Tokens:  int(float64(rate) * rapid.SampledFrom([]float64{0.0002, 0.001, 0.002, 0.004}).Draw(rt, "seconds")),
			SleepUS: rapid.SampledFrom([]int{0, 0, 0, 200, 1000}).Draw(rt, "sleep"),
		})
	}
	return c
}

func genRate(rt *rapid.T) RateCase {
	if rapid.IntRange(0, 3).Draw(rt, "bandwidth") == 0 {
		return genBandwidth(rt)
	}
	c := RateCase{
		Rate:      rapid.SampledFrom([]int64{1000, 2000, 5000, 10000, 50000}).Draw(rt, "rate"),
		Burst:     rapid.SampledFrom([]float64{0, 1, 2, 5, 20}).Draw(rt, "burst"),
		TimeoutUS: rapid.SampledFrom([]int{0, 0, 1000, 3000, 10000}).Draw(rt, "timeout"),
	}
	n := rapid.IntRange(1, 30).Draw(rt, "n")
	for i := 0; i < n; i++ {
		c.Steps = append(c.Steps, rstep{
			Tokens:  rapid.SampledFrom([]int{1, 1, 1, 2, 3, 5, 10, 20}).Draw(rt, "tokens"),
			SleepUS: rapid.SampledFrom([]int{0, 0, 0, 0, 200, 1000, 3000, 8000}).Draw(rt, "sleep"),
		})
	}
	return c
}

func TestRateSequential(t *testing.T) {
	ev.Check(t, "rate-sequential", ev.N(500, 12000), func(rt *rapid.T) {
		c := genRate(rt)
		ev.S.Begin("rate-sequential", c.String())
		waited, problem := runRate(c)
		classes := []string{"rate"}
		if c.Burst > 0 {
			classes = append(classes, "finite-burst")
		}
		if c.Rate >= 10000000 {
			classes = append(classes, "rate-bandwidth")
		}
		ev.S.Case("rate-sequential", c.String(), waited, classes...)
		if problem != "" {
			ev.S.Violation("rate-sequential", "TestRateSequential", c.String(), problem, c)
			rt.Fatalf("%s: %s", c, problem)
		}
	})
}

// ---------------------------------------------------------------- rate limiter, concurrent

// TestRateConcurrentSampled: G goroutines hammer Acquire; one-sided bound. Weak by nature (timer
// granularity limits throughput far below the bound) — see DESIGN.md; the forced variant below
// is the one that decides.
func TestRateConcurrentSampled(t *testing.T) {
	ev.Check(t, "rate-concurrent-sampled", ev.N(12, 200), func(rt *rapid.T) {
		rate := rapid.SampledFrom([]int64{2000, 20000, 200000}).Draw(rt, "rate")
		burst := rapid.SampledFrom([]float64{1, 10, 100}).Draw(rt, "burst")
		g := rapid.IntRange(2, 32).Draw(rt, "g")
		desc := fmt.Sprintf("rate=%d burst=%v G=%d", rate, burst, g)
		ev.S.Begin("rate-concurrent-sampled", desc)
		l := limiter.NewRateLimiter(rate, limiter.WithMaxPermits(burst))
		var admitted int64
		stop := make(chan struct{})
		var wg sync.WaitGroup
		t0 := time.Now()
		for i := 0; i < g; i++ {
			wg.Add(1)
			go func() {
				defer wg.Done()
				for {
					select {
					case <-stop:
						return
					default:
					}
					if l.Acquire(context.Background(), 1) == nil {
						atomic.AddInt64(&admitted, 1)
					}
				}
			}()
		}
		time.Sleep(100 * time.Millisecond)
		close(stop)
		wg.Wait()
		el := time.Since(t0).Seconds()
		allowed := burst + float64(rate)*el + float64(g)
		ev.S.Case("rate-concurrent-sampled", desc, true, "rate-concurrent")
		if float64(admitted) > allowed {
			msg := fmt.Sprintf("%d permits admitted in %.3fs, burst + rate*elapsed + G allows %.0f", admitted, el, allowed)
			ev.S.Violation("rate-concurrent-sampled", "TestRateConcurrentSampled", desc, msg, nil)
			rt.Fatalf("%s: %s", desc, msg)
		}
	})
}

type ForcedCase struct {
	K      int     `json:"k"`      // acquirers parked between load and store
	Tokens int     `json:"tokens"` // tokens each
	Burst  float64 `json:"burst"`
	Rate   int64   `json:"rate"`
	IdleMS int     `json:"idle_ms"` // idle time before the burst (banks permits up to burst)
}

func (c ForcedCase) String() string {
	return fmt.Sprintf("K=%d tokens=%d burst=%v rate=%d/s idle=%dms", c.K, c.Tokens, c.Burst, c.Rate, c.IdleMS)
}

var hookMu sync.Mutex

// runForced parks K acquirers at the yield point after they have loaded the limiter's state and
// releases them together: the schedule "all load, then all store". Admissions within the window
// must still respect burst + rate*elapsed (+ one caller's debt).
func runForced(c ForcedCase) string {
	hookMu.Lock()
	defer hookMu.Unlock()
	l := limiter.NewRateLimiter(c.Rate, limiter.WithMaxPermits(c.Burst), limiter.WithTimeout(time.Millisecond))
	time.Sleep(time.Duration(c.IdleMS) * time.Millisecond)
	var parked int64
	gate := make(chan struct{})
	var armed int32 = 1
	limiter.VerifSetHook(func(point string) {
		if point == "rate.afterLoad" && atomic.LoadInt32(&armed) == 1 {
			atomic.AddInt64(&parked, 1)
			<-gate
		}
	})
	defer limiter.VerifSetHook(nil)
	var admitted int64
	var wg sync.WaitGroup
	t0 := time.Now()
	for i := 0; i < c.K; i++ {
		wg.Add(1)
		go func() {
			defer wg.Done()
			if l.Acquire(context.Background(), c.Tokens) == nil {
				atomic.AddInt64(&admitted, int64(c.Tokens))
			}
		}()
	}
	deadline := time.Now().Add(10 * time.Second)
	for atomic.LoadInt64(&parked) < int64(c.K) && time.Now().Before(deadline) {
		time.Sleep(50 * time.Microsecond)
	}
	if atomic.LoadInt64(&parked) < int64(c.K) {
		atomic.StoreInt32(&armed, 0)
		close(gate)
		wg.Wait()
		return "" // the yield point was not reached by every acquirer (e.g. retry loop): nothing forced
	}
	atomic.StoreInt32(&armed, 0) // retries (if the implementation loops) are not parked again
	close(gate)
	wg.Wait()
	el := time.Since(t0).Seconds()
	allowed := c.Burst + float64(c.Rate)*el + 2*float64(c.Tokens) + 0.01
	if float64(admitted) > allowed {
		return fmt.Sprintf("%d tokens admitted within %.6fs when %d acquirers interleave between reading and updating the limiter state; burst %v + rate*elapsed + first and last caller allows %.2f", admitted, el, c.K, c.Burst, allowed)
	}
	return ""
}

func TestRateForcedInterleaving(t *testing.T) {
	ev.Check(t, "rate-forced", ev.N(40, 600), func(rt *rapid.T) {
		c := ForcedCase{
			K:      rapid.IntRange(2, 12).Draw(rt, "k"),
			Tokens: rapid.IntRange(1, 3).Draw(rt, "tokens"),
			Burst:  rapid.SampledFrom([]float64{1, 2, 4}).Draw(rt, "burst"),
			Rate:   rapid.SampledFrom([]int64{10, 100, 1000}).Draw(rt, "rate"),
			IdleMS: rapid.SampledFrom([]int{0, 5, 20}).Draw(rt, "idle"),
		}
		ev.S.Begin("rate-forced", c.String())
		problem := runForced(c)
		ev.S.Case("rate-forced", c.String(), true, "rate-forced")
		if problem != "" {
			ev.S.Violation("rate-forced", "TestRateForcedInterleaving", c.String(), problem, c)
			rt.Fatalf("%s: %s", c, problem)
		}
	})
}

// TestReplay re-executes one explicit case.
func TestReplay(t *testing.T) {
	var raw map[string]interface{}
	sub, ok := ev.ReplayCase(&raw)
	if !ok {
		t.Skip("no explicit replay case")
	}
	problem, desc := "", ""
	switch sub {
	case "concurrent-limiter":
		var c ConcCase
		ev.ReplayCase(&c)
		desc = c.String()
		for i := 0; i < 20 && problem == ""; i++ { // schedule-dependent: several attempts
			_, problem = runConc(c)
		}
	case "rate-sequential":
		var c RateCase
		ev.ReplayCase(&c)
		desc = c.String()
		for i := 0; i < 5 && problem == ""; i++ {
			_, problem = runRate(c)
		}
	case "rate-forced":
		var c ForcedCase
		ev.ReplayCase(&c)
		problem, desc = runForced(c), c.String()
	}
	if problem != "" {
		ev.S.Violation(sub, "TestReplay", desc, problem, raw)
		t.Fatalf("%s: %s", desc, problem)
	}
}
