package c18

import (
	"fmt"
	"sync"
	"testing"

	"verif/hp/ev"
)

// TestServerDown (nginx smooth round robin): several cycles of calls are in flight at once when one server
// goes down, so it collects more failures than its weight. Afterwards, with no further failures, the servers
// that never failed must keep serving in proportion to their weights among themselves (each about `weight`
// calls per cycle of the healthy servers' total; one cycle of tolerance for the phase the state is left in).
type DownCase struct {
	Weights []int  `json:"weights"`
	Victim  int    `json:"victim"`
	Cycles  int    `json:"cycles_in_flight"`
	How     string `json:"how"`
}

func (c DownCase) String() string {
	return fmt.Sprintf("nginxrr weights=%v: %d cycles in flight, then every call on s%d fails (%s); failure-free traffic afterwards", c.Weights, c.Cycles, c.Victim, c.How)
}

func runDown(c DownCase) string {
	r := newRig("nginxrr", c.Weights)
	total := 0
	for _, w := range c.Weights {
		total += w
	}
	n := total * c.Cycles
	victim := host(c.Victim)
	gate := make(chan struct{})
	var entered sync.WaitGroup
	entered.Add(n)
	r.hold = func(h string, seq int) byte {
		entered.Done()
		<-gate
		if h == victim {
			return c.How[0]
		}
		return 'o'
	}
	var wg sync.WaitGroup
	for i := 0; i < n; i++ {
		wg.Add(1)
		go func() {
			defer wg.Done()
			defer func() { recover() }()
			r.client.Invoke("fn", nil)
		}()
	}
	entered.Wait() // all picks are made while nothing has completed
	close(gate)
	wg.Wait()
	r.mu.Lock()
	r.hold, r.outcome = nil, nil
	first := len(r.picks)
	r.mu.Unlock()
	healthy := total - c.Weights[c.Victim]
	const K = 12
	for i := 0; i < healthy*K; i++ {
		r.client.Invoke("fn", nil)
	}
	r.mu.Lock()
	defer r.mu.Unlock()
	counts := map[string]int{}
	for _, h := range r.picks[first:] {
		if !r.valid(h) {
			return fmt.Sprintf("selected %q which is not a configured server", h)
		}
		counts[h]++
	}
	// the victim may or may not be served again (the statement only asks that its share is lowered); the
	// others share what it leaves in proportion to their weights
	rest := healthy*K - counts[victim]
	for i, w := range c.Weights {
		if i == c.Victim {
			if counts[victim] > c.Weights[c.Victim]*K+c.Weights[c.Victim] {
				return fmt.Sprintf("the failed server s%d got %d of %d calls, more than its configured share", i, counts[victim], healthy*K)
			}
			continue
		}
		exp := float64(rest) * float64(w) / float64(healthy)
		if got := float64(counts[host(i)]); got < exp-float64(w)-1 || got > exp+float64(w)+1 {
			return fmt.Sprintf("after s%d went down, healthy server s%d (weight %d of %d) got %d of the %d calls served by healthy servers, expected about %.0f: per-server counts %v", c.Victim, i, w, healthy, counts[host(i)], rest, exp, counts)
		}
	}
	return ""
}

func TestServerDown(t *testing.T) {
	vecs := [][]int{{1, 1, 3}, {2, 1}, {3, 1}, {1, 4}, {2, 3, 4}, {4, 1, 1}, {3, 3, 3}, {4, 3, 2, 1}, {1, 2, 3, 5, 8}}
	idx := 0
	for _, w := range vecs {
		for v := range w {
			for _, cycles := range []int{2, 3} {
				for _, how := range []string{"f", "p"} {
					idx++
					if idx%ev.S.NShards != ev.S.Shard {
						continue
					}
					c := DownCase{w, v, cycles, how}
					ev.S.Begin("server-down", c.String())
					problem := runDown(c)
					ev.S.Case("server-down", c.String(), true, "server-down")
					if problem != "" {
						ev.S.Violation("server-down", "TestServerDown", c.String(), problem, c)
						t.Fatalf("%s: %s", c, problem)
					}
				}
			}
		}
	}
	ev.S.Exhaustive("server-down", true)
}
