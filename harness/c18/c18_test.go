// C18 — load balancers always pick a valid server and honour their policy.
package c18

import (
	"context"
	"errors"
	"fmt"
	"math"
	"strings"
	"sync"
	"testing"
	"time"

	_ "github.com/hprose/hprose-golang/v3/rpc"
	"github.com/hprose/hprose-golang/v3/rpc/core"
	"github.com/hprose/hprose-golang/v3/rpc/plugins/loadbalance"
	"pgregory.net/rapid"
	"verif/hp/ev"
)

func TestMain(m *testing.M) { ev.Main(m, "C18") }

var kinds = []string{"roundrobin", "random", "leastactive", "weightedrr", "nginxrr", "weightedrandom", "weightedleastactive"}

func weighted(kind string) bool {
	return kind == "weightedrr" || kind == "nginxrr" || kind == "weightedrandom" || kind == "weightedleastactive"
}
func failureAware(kind string) bool {
	return kind == "nginxrr" || kind == "weightedrandom" || kind == "weightedleastactive"
}

func host(i int) string { return fmt.Sprintf("s%d", i) }

// rig is a client with one balancer and a scripted downstream that records the chosen server.
type rig struct {
	kind    string
	weights []int
	client  *core.Client
	mu      sync.Mutex
	picks   []string
	outcome func(host string, seq int) byte // 'o' ok, 'f' error, 'p' panic
	hold    func(host string, seq int) byte // optional: block inside the handler; non-zero result = outcome
	seq     int
}

func newRig(kind string, weights []int) *rig {
	r := &rig{kind: kind, weights: weights}
	n := len(weights)
	uris := make([]string, n)
	wm := map[string]int{}
	for i := 0; i < n; i++ {
		uris[i] = "mock://" + host(i)
		wm[uris[i]] = weights[i]
	}
	r.client = core.NewClient(uris...)
	r.client.Timeout = 0
	switch kind {
	case "roundrobin":
		r.client.Use(loadbalance.NewRoundRobinLoadBalance())
	case "random":
		r.client.Use(loadbalance.NewRandomLoadBalance())
	case "leastactive":
		r.client.Use(loadbalance.NewLeastActiveLoadBalance())
	case "weightedrr":
		r.client.Use(loadbalance.NewWeightedRoundRobinLoadBalance(wm))
	case "nginxrr":
		r.client.Use(loadbalance.NewNginxRoundRobinLoadBalance(wm))
	case "weightedrandom":
		r.client.Use(loadbalance.NewWeightedRandomLoadBalance(wm))
	case "weightedleastactive":
		r.client.Use(loadbalance.NewWeightedLeastActiveLoadBalance(wm))
	}
	r.client.Use(r.handler)
	return r
}

func (r *rig) handler(ctx context.Context, request []byte, next core.NextIOHandler) ([]byte, error) {
	u := core.GetClientContext(ctx).URL
	h := "<nil>"
	if u != nil {
		h = u.Host
	}
	r.mu.Lock()
	seq := r.seq
	r.seq++
	r.picks = append(r.picks, h)
	oc, hold := r.outcome, r.hold
	r.mu.Unlock()
	o := byte('o')
	if oc != nil {
		o = oc(h, seq)
	}
	if hold != nil {
		if ho := hold(h, seq); ho != 0 {
			o = ho
		}
	}
	switch o {
	case 'o':
		return []byte("Rtz"), nil
	case 'f':
		return nil, errors.New("server failure")
	default:
		panic("server panic")
	}
}

// call performs one call and returns the server it went to ("" when the handler was not reached).
func (r *rig) call() (string, error) {
	r.mu.Lock()
	before := len(r.picks)
	r.mu.Unlock()
	_, err := r.client.Invoke("fn", nil)
	r.mu.Lock()
	defer r.mu.Unlock()
	if len(r.picks) != before+1 {
		return "", fmt.Errorf("downstream reached %d times by one call (err=%v)", len(r.picks)-before, err)
	}
	return r.picks[before], err
}

func (r *rig) valid(h string) bool {
	for i := range r.weights {
		if h == host(i) {
			return true
		}
	}
	return false
}

func (r *rig) idx(h string) int {
	var i int
	fmt.Sscanf(h, "s%d", &i)
	return i
}

func safeCall(r *rig) (h string, err error, panicked interface{}) {
	defer func() {
		if e := recover(); e != nil {
			panicked = e
		}
	}()
	h, err = r.call()
	return
}

func gcdAll(w []int) int {
	g := 0
	for _, x := range w {
		a, b := g, x
		for b != 0 {
			a, b = b, a%b
		}
		g = a
	}
	return g
}

func sum(w []int) int {
	s := 0
	for _, x := range w {
		s += x
	}
	return s
}

// ---------------------------------------------------------------- cycles

type CycleCase struct {
	Kind    string `json:"kind"`
	Weights []int  `json:"weights"`
	Cycles  int    `json:"cycles"`
}

func (c CycleCase) String() string {
	return fmt.Sprintf("%s weights=%v cycles=%d", c.Kind, c.Weights, c.Cycles)
}

// runCycles: sequential calls, no failures; exact per-cycle counts for the deterministic policies.
func runCycles(c CycleCase) string {
	r := newRig(c.Kind, c.Weights)
	n := len(c.Weights)
	var cycleLen int
	want := make([]int, n)
	switch c.Kind {
	case "roundrobin":
		cycleLen = n
		for i := range want {
			want[i] = 1
		}
	case "weightedrr":
		g := gcdAll(c.Weights)
		cycleLen = sum(c.Weights) / g
		for i := range want {
			want[i] = c.Weights[i] / g
		}
	case "nginxrr":
		cycleLen = sum(c.Weights)
		copy(want, c.Weights)
	default:
		cycleLen = sum(c.Weights) // validity only
	}
	for cy := 0; cy < c.Cycles; cy++ {
		got := make([]int, n)
		for k := 0; k < cycleLen; k++ {
			h, err, p := safeCall(r)
			if p != nil {
				return fmt.Sprintf("cycle %d pick %d: balancer panicked: %v", cy, k, p)
			}
			if err != nil {
				return fmt.Sprintf("cycle %d pick %d: call failed: %v", cy, k, err)
			}
			if !r.valid(h) {
				return fmt.Sprintf("cycle %d pick %d: selected %q which is not a configured server", cy, k, h)
			}
			got[r.idx(h)]++
		}
		if c.Kind == "roundrobin" || c.Kind == "weightedrr" || c.Kind == "nginxrr" {
			for i := range want {
				if got[i] != want[i] {
					return fmt.Sprintf("cycle %d of %d picks: per-server counts %v, policy requires %v", cy, cycleLen, got, want)
				}
			}
		}
	}
	return ""
}

func weightVectors(maxN, maxW int) [][]int {
	var out [][]int
	var rec func(cur []int, n int)
	rec = func(cur []int, n int) {
		if len(cur) == n {
			out = append(out, append([]int(nil), cur...))
			return
		}
		for w := 1; w <= maxW; w++ {
			rec(append(cur, w), n)
		}
	}
	for n := 1; n <= maxN; n++ {
		rec(nil, n)
	}
	// co-prime / common-divisor / larger vectors
	out = append(out, []int{1, 2, 3, 5, 8}, []int{2, 4, 6, 8, 10}, []int{5, 5, 5, 5, 5}, []int{7, 1, 1, 1, 1}, []int{6, 9, 15}, []int{10, 1}, []int{1, 10}, []int{3, 3, 6, 12}, []int{1, 1, 1, 1, 1, 1})
	return out
}

func TestCyclesExhaustive(t *testing.T) {
	vecs := weightVectors(4, ev.Pick(4, 5))
	idx := 0
	for _, kind := range kinds {
		for _, w := range vecs {
			if !weighted(kind) {
				// unweighted policies only see the server count
				uniform := true
				for _, x := range w {
					if x != 1 {
						uniform = false
					}
				}
				if !uniform {
					continue
				}
			}
			idx++
			if idx%ev.S.NShards != ev.S.Shard {
				continue
			}
			c := CycleCase{kind, w, 3}
			ev.S.Begin("cycles", c.String())
			problem := runCycles(c)
			nonuniform := false
			for _, x := range w {
				if x != w[0] {
					nonuniform = true
				}
			}
			ev.S.Case("cycles", c.String(), len(w) >= 2 && (nonuniform || !weighted(kind)), "kind="+kind)
			if problem != "" {
				ev.S.Violation("cycles", "TestCyclesExhaustive", c.String(), problem, c)
				t.Fatalf("%s: %s", c, problem)
			}
		}
	}
	for n := 5; n <= 8; n++ { // larger server counts for the unweighted ones
		for _, kind := range []string{"roundrobin", "random", "leastactive"} {
			w := make([]int, n)
			for i := range w {
				w[i] = 1
			}
			c := CycleCase{kind, w, 3}
			if problem := runCycles(c); problem != "" {
				ev.S.Violation("cycles", "TestCyclesExhaustive", c.String(), problem, c)
				t.Fatalf("%s: %s", c, problem)
			}
			ev.S.Case("cycles", c.String(), true, "kind="+kind)
		}
	}
	ev.S.Exhaustive("cycles", true)
	ev.S.Note("exhaustive_bound_cycles", fmt.Sprintf("all weight vectors in {1..%d}^n for n<=4 plus 9 co-prime/common-divisor vectors, 3 full cycles each, for each of the seven balancers (unweighted ones: n=1..8)", ev.Pick(4, 5)))
}

// ---------------------------------------------------------------- outcome histories (failure-aware)

type HistCase struct {
	Kind    string `json:"kind"`
	Weights []int  `json:"weights"`
	History string `json:"history"` // outcome of the k-th call: o f p
	Tail    int    `json:"tail"`    // further successful calls
}

func (c HistCase) String() string {
	return fmt.Sprintf("%s weights=%v history=%s tail=%d", c.Kind, c.Weights, c.History, c.Tail)
}

// runHistory: any outcome history keeps every pick valid, never panics, and every call reports its own outcome.
func runHistory(c HistCase) string {
	r := newRig(c.Kind, c.Weights)
	hist := c.History
	r.outcome = func(h string, seq int) byte {
		if seq < len(hist) {
			return hist[seq]
		}
		return 'o'
	}
	for k := 0; k < len(hist)+c.Tail; k++ {
		h, err, p := safeCall(r)
		if p != nil {
			return fmt.Sprintf("call %d: balancer panicked: %v", k, p)
		}
		if !r.valid(h) {
			return fmt.Sprintf("call %d: selected %q which is not a configured server (err=%v)", k, h, err)
		}
		want := byte('o')
		if k < len(hist) {
			want = hist[k]
		}
		switch want {
		case 'o':
			if err != nil {
				return fmt.Sprintf("call %d: successful call returned error %v", k, err)
			}
		case 'f':
			if err == nil || !strings.Contains(err.Error(), "server failure") {
				return fmt.Sprintf("call %d: failing call returned err=%v", k, err)
			}
		case 'p':
			if failureAware(c.Kind) {
				if err == nil || !strings.Contains(err.Error(), "server panic") {
					return fmt.Sprintf("call %d: panicking call returned err=%v", k, err)
				}
			}
		}
	}
	return ""
}

func histories(maxLen int) []string {
	var out []string
	var rec func(p string)
	rec = func(p string) {
		if len(p) > 0 {
			out = append(out, p)
		}
		if len(p) == maxLen {
			return
		}
		for _, ch := range "ofp" {
			rec(p + string(ch))
		}
	}
	rec("")
	return out
}

func TestHistoriesExhaustive(t *testing.T) {
	hs := histories(ev.Pick(5, 6))
	vecs := [][]int{{1}, {1, 1}, {2, 1}, {1, 3}, {1, 1, 1}, {3, 2, 1}, {2, 2, 4}, {1, 2, 3, 4}}
	idx := 0
	for _, kind := range kinds {
		for _, w := range vecs {
			if !weighted(kind) && sum(w) != len(w) {
				continue
			}
			for _, h := range hs {
				if !failureAware(kind) && strings.Contains(h, "p") && kind != "leastactive" {
					continue // a downstream panic simply propagates through these; nothing to observe
				}
				idx++
				if idx%ev.S.NShards != ev.S.Shard {
					continue
				}
				c := HistCase{kind, w, h, 2 * sum(w)}
				ev.S.Begin("histories", c.String())
				problem := runHistoryGuard(c)
				ev.S.Case("histories", c.String(), strings.ContainsAny(h, "fp"), "kind="+kind)
				if problem != "" {
					ev.S.Violation("histories", "TestHistoriesExhaustive", c.String(), problem, c)
					t.Fatalf("%s: %s", c, problem)
				}
			}
		}
	}
	ev.S.Exhaustive("histories", true)
	ev.S.Note("exhaustive_bound_histories", fmt.Sprintf("every outcome history over {ok,fail,panic} of length 1..%d x 8 weight vectors x balancers, followed by 2*sum(w) successful calls", ev.Pick(5, 6)))
}

// runHistoryGuard: for balancers that let a downstream panic propagate (all but the
// failure-aware ones) the panic is the call's legitimate outcome; the harness catches it.
func runHistoryGuard(c HistCase) string {
	if failureAware(c.Kind) || !strings.Contains(c.History, "p") {
		return runHistory(c)
	}
	// leastactive with panics: counts must still return to zero -> checked by spread afterwards
	r := newRig(c.Kind, c.Weights)
	hist := c.History
	r.outcome = func(h string, seq int) byte {
		if seq < len(hist) {
			return hist[seq]
		}
		return 'o'
	}
	for k := 0; k < len(hist); k++ {
		h, _, _ := safeCall(r)
		r.mu.Lock()
		if h == "" && len(r.picks) > 0 {
			h = r.picks[len(r.picks)-1]
		}
		r.mu.Unlock()
		if !r.valid(h) {
			return fmt.Sprintf("call %d: selected %q which is not a configured server", k, h)
		}
	}
	return spreadCheck(r, "after history "+hist)
}

// spreadCheck: with nothing in flight, n calls held simultaneously must land on n distinct servers
// (only true if every in-flight count went back to zero).
func spreadCheck(r *rig, when string) string {
	n := len(r.weights)
	release := make(chan struct{})
	entered := make(chan string, n)
	r.mu.Lock()
	r.outcome = nil
	r.hold = func(h string, seq int) byte {
		entered <- h
		<-release
		return 'o'
	}
	r.mu.Unlock()
	var wg sync.WaitGroup
	seen := map[string]int{}
	problem := ""
	for k := 0; k < n; k++ {
		wg.Add(1)
		go func() {
			defer wg.Done()
			defer func() { recover() }()
			r.client.Invoke("fn", nil)
		}()
		select {
		case h := <-entered:
			seen[h]++
		case <-time.After(10 * time.Second):
			problem = "held call never reached the downstream handler " + when
		}
		if problem != "" {
			break
		}
	}
	close(release)
	wg.Wait()
	r.mu.Lock()
	r.hold = nil
	r.mu.Unlock()
	if problem != "" {
		return problem
	}
	if len(seen) != n {
		return fmt.Sprintf("%d simultaneous calls %s went to %v instead of %d distinct servers: an in-flight count did not return to zero", n, when, seen, n)
	}
	return ""
}

// ---------------------------------------------------------------- least-active state machine

type laCall struct {
	host    string
	release chan byte
	done    chan struct{}
}

// TestLeastActiveModel: the harness holds calls in flight, so it knows the true in-flight vector;
// every pick must be in its argmin. Calls finish ok / with an error / by panic.
func TestLeastActiveModel(t *testing.T) {
	ev.Steps(40)
	ev.Check(t, "leastactive-model", ev.N(400, 12000), func(rt *rapid.T) {
		kind := rapid.SampledFrom([]string{"leastactive", "weightedleastactive"}).Draw(rt, "kind")
		n := rapid.IntRange(1, 5).Draw(rt, "n")
		w := make([]int, n)
		for i := range w {
			w[i] = 1
			if kind == "weightedleastactive" {
				w[i] = rapid.IntRange(1, 4).Draw(rt, fmt.Sprintf("w%d", i))
			}
		}
		r := newRig(kind, w)
		// the plain least-active balancer reads the client's server list at every call: the list may shrink and grow
		// between calls, also while calls are in flight ("one of the currently configured servers")
		cur := n
		allURIs := make([]string, n)
		for i := range allURIs {
			allURIs[i] = "mock://" + host(i)
		}
		if kind == "leastactive" && n > 1 && rapid.Bool().Draw(rt, "startSmall") {
			cur = rapid.IntRange(1, n-1).Draw(rt, "cur0")
			r.client.SetURI(allURIs[:cur]...)
		}
		entered := make(chan *laCall, 1)
		var pendingMu sync.Mutex
		var nextCall *laCall
		r.hold = func(h string, seq int) byte {
			pendingMu.Lock()
			c := nextCall
			pendingMu.Unlock()
			c.host = h
			entered <- c
			return <-c.release
		}
		inflight := make([]int, n)
		var open []*laCall
		var trace []string
		failed := ""
		finishAll := func() {
			for _, c := range open {
				c.release <- 'o'
				<-c.done
			}
			open = nil
		}
		defer finishAll()
		desc := func() string { return fmt.Sprintf("%s weights=%v trace=%s", kind, w, strings.Join(trace, ",")) }
		rt.Repeat(map[string]func(*rapid.T){
			"start": func(rt *rapid.T) {
				if len(open) >= 12 {
					rt.Skip("enough calls in flight")
				}
				c := &laCall{release: make(chan byte, 1), done: make(chan struct{})}
				pendingMu.Lock()
				nextCall = c
				pendingMu.Unlock()
				go func() {
					defer close(c.done)
					defer func() { recover() }()
					r.client.Invoke("fn", nil)
				}()
				select {
				case <-entered:
				case <-time.After(10 * time.Second):
					failed = "call never reached the downstream handler"
					rt.Fatalf("%s", failed)
				}
				min := math.MaxInt32
				for _, a := range inflight[:cur] {
					if a < min {
						min = a
					}
				}
				trace = append(trace, "start->"+c.host)
				if !r.valid(c.host) || r.idx(c.host) >= cur {
					failed = fmt.Sprintf("selected %q which is not one of the %d currently configured servers", c.host, cur)
				} else if inflight[r.idx(c.host)] != min {
					failed = fmt.Sprintf("picked %s with %d requests in flight while the fewest is %d (in-flight vector %v)", c.host, inflight[r.idx(c.host)], min, inflight)
				}
				if failed != "" {
					open = append(open, c)
					ev.S.Violation("leastactive-model", "TestLeastActiveModel", desc(), failed, nil)
					rt.Fatalf("%s: %s", desc(), failed)
				}
				inflight[r.idx(c.host)]++
				open = append(open, c)
			},
			"resize": func(rt *rapid.T) {
				if kind != "leastactive" || n < 2 {
					rt.Skip("fixed server list")
				}
				m := rapid.IntRange(1, n).Draw(rt, "size")
				if m == cur {
					rt.Skip("same size")
				}
				r.client.SetURI(allURIs[:m]...)
				trace = append(trace, fmt.Sprintf("servers:%d->%d", cur, m))
				cur = m
			},
			"finish": func(rt *rapid.T) {
				if len(open) == 0 {
					rt.Skip("nothing in flight")
				}
				k := rapid.IntRange(0, len(open)-1).Draw(rt, "which")
				o := rapid.SampledFrom([]byte{'o', 'f', 'p'}).Draw(rt, "outcome")
				c := open[k]
				open = append(open[:k], open[k+1:]...)
				c.release <- o
				<-c.done
				inflight[r.idx(c.host)]--
				trace = append(trace, fmt.Sprintf("finish(%s,%c)", c.host, o))
			},
		})
		ev.S.Begin("leastactive-model", desc())
		finishAll()
		if cur != n {
			r.client.SetURI(allURIs...)
			cur = n
		}
		r.mu.Lock()
		r.hold = nil
		r.mu.Unlock()
		nt := false
		for _, s := range trace {
			if strings.HasPrefix(s, "finish") && !strings.HasSuffix(s, "o)") {
				nt = true
			}
		}
		resized := false
		for _, s := range trace {
			if strings.HasPrefix(s, "servers:") {
				resized = true
			}
		}
		ev.S.Case("leastactive-model", desc(), nt && n >= 2, "kind="+kind, fmt.Sprintf("la-resized=%v", resized))
		if p := spreadCheck(r, "after the trace"); p != "" {
			ev.S.Violation("leastactive-model", "TestLeastActiveModel", desc(), p, nil)
			rt.Fatalf("%s: %s", desc(), p)
		}
	})
}

// ---------------------------------------------------------------- failure-aware share

type ShareCase struct {
	Kind    string `json:"kind"`
	Weights []int  `json:"weights"`
	Victim  int    `json:"victim"`
	Fails   int    `json:"fails"` // how many calls on the victim fail before it recovers
	How     string `json:"how"`   // "f" the victim returns errors, "p" it panics
}

func (c ShareCase) String() string {
	return fmt.Sprintf("%s weights=%v victim=s%d fails=%d how=%s", c.Kind, c.Weights, c.Victim, c.Fails, c.How)
}

// runShare: phase 1 — while every call on the victim fails its share falls well below its weight share;
// phase 2 — after its calls succeed again the share returns.
func runShare(c ShareCase) string {
	r := newRig(c.Kind, c.Weights)
	W := sum(c.Weights)
	victim := host(c.Victim)
	p := float64(c.Weights[c.Victim]) / float64(W)
	failing := true
	failsLeft := c.Fails
	r.outcome = func(h string, seq int) byte {
		if h == victim && failing && failsLeft > 0 {
			failsLeft--
			if c.How == "p" {
				return 'p'
			}
			return 'f'
		}
		return 'o'
	}
	count := func(picks int) (int, string) {
		got := 0
		for k := 0; k < picks; k++ {
			h, _, pn := safeCall(r)
			if pn != nil {
				return 0, fmt.Sprintf("balancer panicked: %v", pn)
			}
			if !r.valid(h) {
				return 0, fmt.Sprintf("selected %q which is not a configured server", h)
			}
			if h == victim {
				got++
			}
		}
		return got, ""
	}
	if c.Fails < 0 {
		// the victim fails for ever: over a long window its share must drop far below its weight share
		failsLeft = math.MaxInt32
		if _, pr := count(20 * W); pr != "" {
			return pr
		}
		N := 400
		got, pr := count(N)
		if pr != "" {
			return pr
		}
		full := p * float64(N)
		if float64(got) > full/2 {
			return fmt.Sprintf("server %s failed every call yet got %d of %d picks (full-weight share would be %.0f): share not reduced", victim, got, N, full)
		}
		return ""
	}
	// bounded number of failures (< weight), then everything succeeds: share must be restored
	for guard := 0; failsLeft > 0 && guard < 200*W; guard++ {
		if _, pr := count(1); pr != "" {
			return pr
		}
	}
	failing = false
	// let it recover: its own successes restore it
	if _, pr := count(40 * W); pr != "" {
		return pr
	}
	N := 2000
	if c.Kind == "nginxrr" {
		N = 4 * W
	}
	got, pr := count(N)
	if pr != "" {
		return pr
	}
	exp := p * float64(N)
	low := exp - 6*math.Sqrt(float64(N)*p*(1-p)) - 1
	if c.Kind == "nginxrr" {
		low = exp - 3
	}
	if len(c.Weights) > 1 && float64(got) < low {
		return fmt.Sprintf("after %d failures followed by successes server %s got %d of %d picks, expected about %.0f (>= %.0f): share not restored", c.Fails, victim, got, N, exp, low)
	}
	return ""
}

func TestFailureAwareShare(t *testing.T) {
	vecs := [][]int{{2, 1}, {3, 1}, {4, 4}, {1, 4}, {2, 3, 4}, {4, 1, 1}, {3, 3, 3}, {2, 2, 2, 2}, {4, 3, 2, 1}, {1, 2, 3, 5, 8}}
	idx := 0
	for _, kind := range []string{"nginxrr", "weightedrandom", "weightedleastactive"} {
		for _, w := range vecs {
			for v := range w {
				for _, fails := range []int{-1, 1, w[v] - 1} {
					if fails == 0 || (fails > 0 && fails >= w[v]) {
						continue
					}
					for _, how := range []string{"f", "p"} {
						idx++
						if idx%ev.S.NShards != ev.S.Shard {
							continue
						}
						c := ShareCase{kind, w, v, fails, how}
						ev.S.Begin("share", c.String())
						problem := runShare(c)
						ev.S.Case("share", c.String(), true, "kind="+kind, "how="+how)
						if problem != "" {
							ev.S.Violation("share", "TestFailureAwareShare", c.String(), problem, c)
							t.Fatalf("%s: %s", c, problem)
						}
					}
				}
			}
		}
	}
}

// ---------------------------------------------------------------- concurrent validity

func TestConcurrentValidity(t *testing.T) {
	ev.Check(t, "concurrent", ev.N(120, 3000), func(rt *rapid.T) {
		kind := rapid.SampledFrom(kinds).Draw(rt, "kind")
		n := rapid.IntRange(1, 6).Draw(rt, "n")
		w := make([]int, n)
		for i := range w {
			w[i] = 1
			if weighted(kind) {
				w[i] = rapid.IntRange(1, 5).Draw(rt, fmt.Sprintf("w%d", i))
			}
		}
		g := rapid.IntRange(2, 16).Draw(rt, "goroutines")
		per := rapid.IntRange(5, 60).Draw(rt, "per")
		failEvery := rapid.IntRange(0, 4).Draw(rt, "failEvery")
		desc := fmt.Sprintf("%s weights=%v G=%d per=%d failEvery=%d", kind, w, g, per, failEvery)
		ev.S.Begin("concurrent", desc)
		r := newRig(kind, w)
		if failEvery > 0 {
			r.outcome = func(h string, seq int) byte {
				if seq%failEvery == 0 {
					return 'f'
				}
				return 'o'
			}
		}
		var wg sync.WaitGroup
		var pmu sync.Mutex
		problem := ""
		start := make(chan struct{})
		for i := 0; i < g; i++ {
			wg.Add(1)
			go func() {
				defer wg.Done()
				defer func() {
					if e := recover(); e != nil {
						pmu.Lock()
						problem = fmt.Sprintf("balancer panicked under concurrency: %v", e)
						pmu.Unlock()
					}
				}()
				<-start
				for k := 0; k < per; k++ {
					r.client.Invoke("fn", nil)
				}
			}()
		}
		close(start)
		wg.Wait()
		r.mu.Lock()
		if problem == "" && len(r.picks) != g*per {
			problem = fmt.Sprintf("%d calls reached the downstream %d times", g*per, len(r.picks))
		}
		for _, h := range r.picks {
			if problem == "" && !r.valid(h) {
				problem = fmt.Sprintf("selected %q which is not a configured server", h)
			}
		}
		r.mu.Unlock()
		if problem == "" && (kind == "leastactive" || kind == "weightedleastactive") {
			problem = spreadCheck(r, "after concurrent traffic")
		}
		ev.S.Case("concurrent", desc, n >= 2, "kind="+kind)
		if problem != "" {
			ev.S.Violation("concurrent", "TestConcurrentValidity", desc, problem, nil)
			rt.Fatalf("%s: %s", desc, problem)
		}
	})
}

// TestReplay re-executes one explicit case.
func TestReplay(t *testing.T) {
	var raw map[string]interface{}
	sub, ok := ev.ReplayCase(&raw)
	if !ok {
		t.Skip("no explicit replay case")
	}
	problem, desc := "", ""
	switch sub {
	case "cycles":
		var c CycleCase
		ev.ReplayCase(&c)
		problem, desc = runCycles(c), c.String()
	case "histories":
		var c HistCase
		ev.ReplayCase(&c)
		problem, desc = runHistoryGuard(c), c.String()
	case "share":
		var c ShareCase
		ev.ReplayCase(&c)
		problem, desc = runShare(c), c.String()
	}
	if problem != "" {
		ev.S.Violation(sub, "TestReplay", desc, problem, raw)
		t.Fatalf("%s: %s", desc, problem)
	}
}
