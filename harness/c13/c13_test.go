// C13 — requests larger than MaxRequestLength are never processed.
package c13

import (
	"bufio"
	"bytes"
	"fmt"
	"io"
	"math"
	"net"
	"net/http"
	"net/url"
	"os"
	"strings"
	"sync"
	"testing"
	"time"

	"github.com/fasthttp/websocket"
	"github.com/hprose/hprose-golang/v3/rpc/core"
	"pgregory.net/rapid"
	"verif/hp/echo"
	"verif/hp/ev"
	"verif/hp/tp"
	"verif/hp/wire"
)

func TestMain(m *testing.M) { ev.Main(m, "C13") }

const udpMax = 65507 - 8
const noLimit = 0x7FFFFFFF

type endpoint struct {
	kind   string
	pool   bool
	svc    *echo.Service
	server *tp.Server
	client *core.Client
}

var (
	endpoints []*endpoint
	byKind    = map[string]*endpoint{}
	serial    sync.Mutex
)

func setup() {
	if endpoints != nil {
		return
	}
	for _, kind := range tp.Kinds {
		for _, pool := range []bool{false, true} {
			if pool && kind != "tcp" && kind != "udp" && kind != "ws" {
				continue
			}
			s := echo.New()
			if pool {
				tp.SetPool(s.Service, tp.NewGoPool(4))
			}
			srv, err := tp.Start(kind, s.Service)
			if err != nil {
				panic(err)
			}
			ep := &endpoint{kind: kind, pool: pool, svc: s, server: srv, client: srv.Client(5 * time.Second)}
			endpoints = append(endpoints, ep)
			if !pool {
				byKind[kind] = ep
			}
		}
	}
}

func report(rt interface{ Fatalf(string, ...interface{}) }, sub, test, canon, problem string) {
	if problem == "" {
		return
	}
	if os.Getenv("VERIF_TRIAGE") != "" {
		fmt.Printf("TRIAGE %s | %s\n", strings.ReplaceAll(problem, "\n", " // "), canon)
		return
	}
	ev.S.Violation(sub, test, canon, problem, nil)
	rt.Fatalf("%s\n=> %s", canon, problem)
}

const keyReset = "socket-too-large-reset"

func connError(err error) bool {
	m := err.Error()
	for _, s := range []string{"connection reset by peer", "broken pipe", "EOF", "use of closed network connection"} {
		if strings.Contains(m, s) {
			return true
		}
	}
	return false
}

func tooLarge(err error) bool {
	return err != nil && strings.Contains(strings.ToLower(err.Error()), "too large")
}

func waitQuiet(s *echo.Service, d time.Duration) (seen [][]byte, fn int) {
	time.Sleep(d)
	seen, fn, _ = s.Take()
	return
}

// buildRequest makes a request of exactly size bytes: a real call of the published function when
// possible (size >= 20), otherwise an echo request.
func buildRequest(size int, seed uint32, call bool) (req []byte, isCall bool) {
	if call && size >= 20 {
		// blob call: 17 + digits(n) + n bytes
		for n := size - 18; n >= 0 && n > size-26; n-- {
			if r := echo.BlobCall(n, seed); len(r) == size {
				return r, true
			}
		}
	}
	r := echo.Gen(seed, size)
	if size > 0 && r[0] == 'C' {
		r[0] = 'D'
	}
	if size >= 4 && string(r[:4]) == string(echo.Magic) {
		r[1] = 'x'
	}
	return r, false
}

func genLimit(rt *rapid.T, max int) int {
	boundaries := []int{0, 1, 2, 11, 12, 13, 20, 100, 255, 256, 1011, 1012, 1013, 1024, 4095, 4096, 8192, 65498, 65499, 65500, 65535, 65536, 100000, 1 << 20}
	var ok []int
	for _, b := range boundaries {
		if b <= max {
			ok = append(ok, b)
		}
	}
	switch rapid.IntRange(0, 3).Draw(rt, "limitMode") {
	case 0:
		return rapid.SampledFrom(ok).Draw(rt, "limitBoundary")
	case 1:
		return rapid.IntRange(0, 300).Draw(rt, "limitSmall")
	default:
		return rapid.IntRange(0, max).Draw(rt, "limit")
	}
}

// TestLibraryClient: truthful declaration (the library's own client) around every limit.
func TestLibraryClient(t *testing.T) {
	setup()
	ev.Check(t, "library-client", ev.N(3000, 300000), func(rt *rapid.T) {
		ep := rapid.SampledFrom(endpoints).Draw(rt, "endpoint")
		maxLimit := 1<<20 + 10
		if ep.kind == "udp" {
			maxLimit = udpMax - 2
		}
		limit := genLimit(rt, maxLimit)
		delta := rapid.SampledFrom([]int{-1, 0, 1, 1, 2, 100, 5000, -100}).Draw(rt, "delta")
		if rapid.IntRange(0, 9).Draw(rt, "far") == 0 {
			delta = rapid.IntRange(1, 1<<20).Draw(rt, "farDelta")
		}
		size := limit + delta
		if size < 0 {
			size = 0
		}
		if rapid.IntRange(0, 11).Draw(rt, "hugeLimit") == 0 {
			// limits beyond what a frame can announce: everything that can be sent is within them
			limit = rapid.SampledFrom([]int{1 << 31, 1<<31 + 1, 3 << 30, 1 << 32, 1<<32 + 5, 1 << 40, math.MaxInt64, math.MaxInt32, math.MaxInt32 - 1}).Draw(rt, "limitValue")
			size = rapid.IntRange(0, 5000).Draw(rt, "sizeUnderHugeLimit")
			if ep.kind == "udp" && size > udpMax {
				size = udpMax
			}
		}
		if ep.kind == "udp" && rapid.IntRange(0, 3).Draw(rt, "aroundDatagramCapacity") == 0 {
			// just above what one datagram can carry: over any limit a UDP service can have, and the client
			// itself has to refuse it with the same error
			size = udpMax + rapid.IntRange(-2, 60).Draw(rt, "capacityDelta")
		}
		// what a datagram can carry bounds a UDP request whatever the service allows
		eff := limit
		if ep.kind == "udp" && eff > udpMax {
			eff = udpMax
		}
		seed := rapid.Uint32().Draw(rt, "seed")
		req, isCall := buildRequest(size, seed, rapid.Bool().Draw(rt, "call"))
		canon := fmt.Sprintf("%s pool=%v MaxRequestLength=%d request=%d bytes call=%v seed=%d fasthttp-client=%v", ep.kind, ep.pool, limit, size, isCall, seed, tp.FastHTTPClient())
		ev.S.Begin("library-client", canon)
		serial.Lock()
		defer serial.Unlock()
		ep.svc.Take()
		ep.svc.MaxRequestLength = limit
		resp, err := tp.Raw(ep.client, req)
		wait := time.Duration(0)
		if size > eff {
			wait = 3 * time.Millisecond // a refused request must not show up late either
		}
		seen, fn := waitQuiet(ep.svc, wait)
		ep.svc.MaxRequestLength = noLimit
		problem := ""
		refusedByReset := false
		if size > eff {
			switch {
			case len(seen) > 0 || fn > 0:
				problem = fmt.Sprintf("a %d-byte request was processed although MaxRequestLength is %d (IO plugin saw %d requests, function invoked %d times)", size, limit, len(seen), fn)
			case err == nil:
				problem = fmt.Sprintf("a %d-byte request over the limit %d got a successful response of %d bytes", size, limit, len(resp))
			case !tooLarge(err):
				problem = fmt.Sprintf("a %d-byte request over the limit %d failed with %q instead of a request-too-large error", size, limit, err)
				// known finding: input side = stream socket and over the limit; failure side = refused (nothing processed)
				// but reported as a connection error because the server closes while the client is still writing
				if (ep.kind == "tcp" || ep.kind == "unix") && connError(err) && ev.S.Known(keyReset) {
					ev.S.Exclude(keyReset, canon+" => "+problem)
					problem = ""
					refusedByReset = true
				}
			}
		} else {
			switch {
			case err != nil:
				problem = fmt.Sprintf("a %d-byte request within the limit %d failed: %v", size, limit, err)
			case len(seen) != 1 || !bytes.Equal(seen[0], req):
				problem = fmt.Sprintf("a %d-byte request within the limit %d was handed to the IO plugin %d times / changed", size, limit, len(seen))
			case isCall && fn != 1:
				problem = fmt.Sprintf("the published function was invoked %d times for a call within the limit", fn)
			case !isCall && !bytes.Equal(resp, produced(req)):
				problem = "the echo of a request within the limit came back changed"
			}
		}
		// the next request within the (restored) limit must go through
		if problem == "" && size > eff {
			small, _ := buildRequest(30, seed+1, true)
			if _, err := tp.Raw(ep.client, small); err != nil {
				problem = fmt.Sprintf("after a refused request the next small call failed: %v", err)
			}
			ep.svc.Take()
		}
		rel := "within"
		if size > eff {
			rel = "over"
		}
		if size == eff || size == eff+1 {
			rel += "-edge"
		}
		_ = refusedByReset
		ev.S.Case("library-client", canon, true, "lib="+ep.kind+"/"+rel, fmt.Sprintf("lib-pool=%v", ep.pool), fmt.Sprintf("lib-call=%v", isCall))
		report(rt, "library-client", "TestLibraryClient", canon, problem)
	})
}

func produced(b []byte) []byte {
	if len(b) == 0 {
		return []byte("Rnz")
	}
	return b
}

// ---- hand-made requests: absent, smaller and larger declarations

func httpSend(host string, raw []byte) (status int, body []byte) {
	c, err := net.DialTimeout("tcp", host, 2*time.Second)
	if err != nil {
		return -1, nil
	}
	defer c.Close()
	c.Write(raw)
	c.SetReadDeadline(time.Now().Add(1500 * time.Millisecond))
	br := bufio.NewReader(c)
	resp, err := http.ReadResponse(br, nil)
	for err == nil && resp.StatusCode == 100 {
		// the interim answer to "Expect: 100-continue": the real one follows
		resp, err = http.ReadResponse(br, nil)
	}
	if err != nil {
		return 0, nil
	}
	defer resp.Body.Close()
	body, _ = io.ReadAll(resp.Body)
	return resp.StatusCode, body
}

func chunked(body []byte, chunk int) []byte {
	var b bytes.Buffer
	for off := 0; off < len(body); off += chunk {
		end := off + chunk
		if end > len(body) {
			end = len(body)
		}
		fmt.Fprintf(&b, "%x\r\n", end-off)
		b.Write(body[off:end])
		b.WriteString("\r\n")
	}
	b.WriteString("0\r\n\r\n")
	return b.Bytes()
}

// TestHTTPDeclarations: POST and GET with truthful, chunked (absent) and understated lengths on the
// net/http and fasthttp servers and on the plain-http side of the websocket handlers.
func TestHTTPDeclarations(t *testing.T) {
	setup()
	ev.Check(t, "http-declarations", ev.N(1500, 60000), func(rt *rapid.T) {
		kind := rapid.SampledFrom([]string{"http", "fasthttp", "ws", "wsfast"}).Draw(rt, "kind")
		ep := byKind[kind]
		u, _ := url.Parse(ep.server.URL)
		limit := genLimit(rt, 200000)
		delta := rapid.SampledFrom([]int{-1, 0, 1, 1, 2, 100, 5000, 100000}).Draw(rt, "delta")
		size := limit + delta
		if size < 0 {
			size = 0
		}
		method := rapid.SampledFrom([]string{"POST", "POST", "GET"}).Draw(rt, "method")
		decl := rapid.SampledFrom([]string{"truthful", "chunked", "chunked-small-chunks", "understated"}).Draw(rt, "declaration")
		seed := rapid.Uint32().Draw(rt, "seed")
		req, isCall := buildRequest(size, seed, rapid.Bool().Draw(rt, "call"))
		var raw bytes.Buffer
		fmt.Fprintf(&raw, "%s / HTTP/1.1\r\nHost: %s\r\nConnection: close\r\n", method, u.Host)
		expect := method == "POST" && rapid.IntRange(0, 3).Draw(rt, "expectContinue") == 0
		if expect {
			// what curl and other clients send ahead of larger bodies
			raw.WriteString("Expect: 100-continue\r\n")
		}
		delivered := req // what a conforming server takes as the body
		switch decl {
		case "truthful":
			fmt.Fprintf(&raw, "Content-Length: %d\r\n\r\n", size)
			raw.Write(req)
		case "chunked":
			raw.WriteString("Transfer-Encoding: chunked\r\n\r\n")
			raw.Write(chunked(req, 4096))
		case "chunked-small-chunks":
			raw.WriteString("Transfer-Encoding: chunked\r\n\r\n")
			raw.Write(chunked(req, 1+int(seed%97)))
		case "understated":
			// Content-Length below the limit, more bytes follow: the body is the declared prefix
			d := limit
			if d > size {
				d = size
			}
			delivered = req[:d]
			fmt.Fprintf(&raw, "Content-Length: %d\r\n\r\n", d)
			raw.Write(req)
		}
		canon := fmt.Sprintf("%s server MaxRequestLength=%d: %s with %d body bytes, length %s, expect-continue=%v, call=%v seed=%d", kind, limit, method, size, decl, expect, isCall, seed)
		ev.S.Begin("http-declarations", canon)
		serial.Lock()
		defer serial.Unlock()
		ep.svc.Take()
		ep.svc.MaxRequestLength = limit
		status, _ := httpSend(u.Host, raw.Bytes())
		seen, fn := waitQuiet(ep.svc, 2*time.Millisecond)
		ep.svc.MaxRequestLength = noLimit
		problem := ""
		for _, s := range seen {
			if len(s) > limit {
				problem = fmt.Sprintf("the IO plugin was handed %d bytes although MaxRequestLength is %d (status %d, function invoked %d times)", len(s), limit, status, fn)
			}
		}
		if problem == "" && len(delivered) <= limit && decl != "understated" {
			if len(seen) != 1 || !bytes.Equal(seen[0], delivered) || status != 200 {
				problem = fmt.Sprintf("a %d-byte body within the limit %d was not processed normally (status %d, %d deliveries)", size, limit, status, len(seen))
			}
		}
		if problem == "" && len(delivered) > limit && status == 200 {
			problem = fmt.Sprintf("a %d-byte body over the limit %d was answered with status 200", size, limit)
		}
		if problem == "" && len(delivered) > limit && decl == "truthful" && status != 413 {
			problem = fmt.Sprintf("a %d-byte body over the limit %d was answered with status %d instead of 413", size, limit, status)
		}
		rel := "within"
		if len(delivered) > limit {
			rel = "over"
		}
		ev.S.Case("http-declarations", canon, true, "http="+kind+"/"+decl+"/"+rel, "http-method="+method, fmt.Sprintf("http-expect-continue=%v", expect))
		report(rt, "http-declarations", "TestHTTPDeclarations", canon, problem)
	})
}

func dialStream(ep *endpoint) (net.Conn, error) {
	u, _ := url.Parse(ep.server.URL)
	if ep.kind == "unix" {
		return net.DialTimeout("unix", u.Path, 2*time.Second)
	}
	return net.DialTimeout("tcp", u.Host, 2*time.Second)
}

// TestRawFrames: hand-made socket frames, datagrams and websocket messages around the limit, with
// truthful, understated and overstated declarations.
func TestRawFrames(t *testing.T) {
	setup()
	ev.Check(t, "raw-frames", ev.N(1500, 60000), func(rt *rapid.T) {
		kind := rapid.SampledFrom([]string{"tcp", "unix", "udp", "ws", "wsfast"}).Draw(rt, "kind")
		ep := byKind[kind]
		max := 200000
		if kind == "udp" {
			max = udpMax - 2
		}
		limit := genLimit(rt, max)
		delta := rapid.SampledFrom([]int{-1, 0, 1, 1, 2, 100, 5000}).Draw(rt, "delta")
		size := limit + delta
		if size < 0 {
			size = 0
		}
		if kind == "udp" && size > udpMax {
			size = udpMax
		}
		decl := "truthful"
		if kind == "udp" || kind == "tcp" || kind == "unix" {
			decl = rapid.SampledFrom([]string{"truthful", "truthful", "understated", "overstated"}).Draw(rt, "declaration")
		}
		seed := rapid.Uint32().Draw(rt, "seed")
		req, isCall := buildRequest(size, seed, rapid.Bool().Draw(rt, "call"))
		declared := size
		switch decl {
		case "understated":
			declared = limit
			if declared > size {
				declared = size
			}
		case "overstated":
			declared = size + 1 + int(seed%50)
		}
		canon := fmt.Sprintf("%s MaxRequestLength=%d: hand-made frame carrying %d bytes declaring %d (%s) call=%v seed=%d", kind, limit, size, declared, decl, isCall, seed)
		ev.S.Begin("raw-frames", canon)
		serial.Lock()
		defer serial.Unlock()
		ep.svc.Take()
		ep.svc.MaxRequestLength = limit
		var respErr, gotResp bool
		var respBody []byte
		switch kind {
		case "tcp", "unix":
			c, err := dialStream(ep)
			if err != nil {
				rt.Fatalf("dial: %v", err)
			}
			c.Write(append(wire.SocketHeader(declared, 5, false), req...))
			c.SetReadDeadline(time.Now().Add(300 * time.Millisecond))
			h := make([]byte, 12)
			if _, err := io.ReadFull(c, h); err == nil {
				if l, _, e, ok := wire.ParseSocketHeader(h); ok {
					respBody = make([]byte, l)
					if _, err := io.ReadFull(c, respBody); err == nil {
						gotResp, respErr = true, e
					}
				}
			}
			c.Close()
		case "udp":
			u, _ := url.Parse(ep.server.URL)
			addr, _ := net.ResolveUDPAddr("udp", u.Host)
			c, err := net.DialUDP("udp", nil, addr)
			if err != nil {
				rt.Fatalf("dial: %v", err)
			}
			c.Write(append(wire.UDPHeader(declared, 5, false), req...))
			c.SetReadDeadline(time.Now().Add(100 * time.Millisecond))
			buf := make([]byte, 65536)
			if n, err := c.Read(buf); err == nil && n >= 8 {
				if _, _, e, ok := wire.ParseUDPHeader(buf[:8]); ok {
					gotResp, respErr, respBody = true, e, append([]byte(nil), buf[8:n]...)
				}
			}
			c.Close()
		default:
			d := websocket.Dialer{Subprotocols: []string{"hprose"}, HandshakeTimeout: 2 * time.Second}
			c, _, err := d.Dial(ep.server.URL, nil)
			if err != nil {
				rt.Fatalf("ws dial: %v", err)
			}
			c.WriteMessage(websocket.BinaryMessage, wire.WSFrame(5, req, false))
			c.SetReadDeadline(time.Now().Add(300 * time.Millisecond))
			if mt, msg, err := c.ReadMessage(); err == nil && mt == websocket.BinaryMessage && len(msg) >= 4 {
				_, e := wire.ParseWSHeader(msg[:4])
				gotResp, respErr, respBody = true, e, msg[4:]
			}
			c.Close()
		}
		seen, fn := waitQuiet(ep.svc, 2*time.Millisecond)
		ep.svc.MaxRequestLength = noLimit
		problem := ""
		for _, s := range seen {
			if len(s) > limit {
				problem = fmt.Sprintf("the IO plugin was handed %d bytes although MaxRequestLength is %d (function invoked %d times)", len(s), limit, fn)
			}
		}
		if problem == "" && decl == "truthful" {
			if size > limit {
				if len(seen) > 0 || fn > 0 {
					problem = fmt.Sprintf("a %d-byte request was processed although MaxRequestLength is %d", size, limit)
				} else if !gotResp || !respErr || !strings.Contains(strings.ToLower(string(respBody)), "too large") {
					problem = fmt.Sprintf("a %d-byte request over the limit %d was not answered with a request-too-large error frame (response=%v error-flag=%v body=%.40q)", size, limit, gotResp, respErr, respBody)
				}
			} else if len(seen) != 1 || !bytes.Equal(seen[0], req) || !gotResp || respErr {
				problem = fmt.Sprintf("a %d-byte request within the limit %d was not processed normally (%d deliveries, response=%v error-flag=%v)", size, limit, len(seen), gotResp, respErr)
			}
		}
		if problem == "" && kind == "udp" && decl != "truthful" && declared != size && (len(seen) > 0 || (gotResp && !respErr)) {
			problem = fmt.Sprintf("a datagram carrying %d bytes and declaring %d was processed", size, declared)
		}
		rel := "within"
		if size > limit {
			rel = "over"
		}
		ev.S.Case("raw-frames", canon, true, "raw="+kind+"/"+decl+"/"+rel)
		report(rt, "raw-frames", "TestRawFrames", canon, problem)
	})
}

func TestFinding(t *testing.T) {
	key := ev.FindingKey()
	if key != keyReset {
		t.Skip("no open finding " + key)
	}
	setup()
	for _, kind := range []string{"tcp", "unix"} {
		ep := byKind[kind]
		ep.svc.MaxRequestLength = 100
		for i := 0; i < 300; i++ {
			req, _ := buildRequest(101+(i%3)*400000, uint32(i), false)
			_, err := tp.Raw(ep.client, req)
			if err != nil && !tooLarge(err) && connError(err) {
				ev.FindingResult(key, true, fmt.Sprintf("%s: a %d-byte request over the limit 100 failed with %q (attempt %d)", kind, len(req), err, i+1))
				return
			}
		}
	}
	ev.FindingResult(key, false, "600 over-limit requests on tcp and unix all failed with the request-too-large error")
}
