// C03 — encoder output is well-formed Hprose and denotes the encoded value.
package c03

import (
	"bytes"
	"fmt"
	"math/big"
	"os"
	"reflect"
	"strings"
	"testing"
	"time"

	hio "github.com/hprose/hprose-golang/v3/io"
	"pgregory.net/rapid"
	"verif/hp/ev"
	"verif/hp/ref"
	"verif/hp/uni"
)

func TestMain(m *testing.M) {
	time.Local = time.FixedZone("VERIF", 8*3600)
	ev.Main(m, "C03")
}

type finding struct {
	key   string
	match func(f uni.Features, problem string) bool
}

var findings = []finding{
	{"bigfloat-shortest-digits", func(f uni.Features, problem string) bool {
		return f.BigFloat && strings.Contains(problem, "does not denote") && strings.Contains(problem, "[1 ulp apart at the original precision]")
	}},
	// a string with well-formed lead/continuation structure that is nevertheless not UTF-8, AND the reader stops at a string payload
	{"lax-utf8-string", func(f uni.Features, problem string) bool {
		return f.LaxUTF8 && strings.Contains(problem, "invalid UTF-8 in string payload")
	}},
}

func classify(f uni.Features, problem string) string {
	for _, k := range findings {
		if ev.S.Known(k.key) && k.match(f, problem) {
			return k.key
		}
	}
	return ""
}

// encodeAll writes the values to one encoder (no Reset in between) and returns the bytes.
func encodeAll(vals []reflect.Value, simple bool, useWrite []bool) (out []byte, problem string) {
	defer func() {
		if e := recover(); e != nil {
			problem = fmt.Sprintf("encoder panicked: %v", e)
		}
	}()
	var buf bytes.Buffer
	enc := hio.NewEncoder(&buf).Simple(simple)
	for i, v := range vals {
		var err error
		if useWrite[i] {
			err = enc.Write(v.Interface())
		} else {
			err = enc.Encode(v.Interface())
		}
		if err != nil {
			return buf.Bytes(), "encoder error: " + err.Error()
		}
	}
	return buf.Bytes(), ""
}

func check(vals []reflect.Value, simple bool, useWrite []bool) (wire []byte, problem string) {
	wire, problem = encodeAll(vals, simple, useWrite)
	if problem != "" {
		return
	}
	nodes, p, err := ref.ParseAll(wire)
	if err != nil {
		return wire, "output is not well-formed: " + err.Error()
	}
	if len(nodes) != len(vals) {
		return wire, fmt.Sprintf("%d values were written but the stream holds %d", len(vals), len(nodes))
	}
	if simple && p.RefTags > 0 {
		return wire, "simple mode emitted a back-reference"
	}
	for i, v := range vals {
		want := uni.FromGo(v)
		if !ref.EqualOpt(want, nodes[i], ref.Options{NilIsEmpty: true}) {
			return wire, fmt.Sprintf("value %d does not denote what was encoded: first difference at %s\n encoded %s\n stream  %s", i, ref.Diff(want, nodes[i], ref.Options{NilIsEmpty: true}), trunc(want.String()), trunc(nodes[i].String()))
		}
	}
	return wire, ""
}

func trunc(s string) string {
	if len(s) > 700 {
		return s[:700] + "…"
	}
	return s
}

func runCase(tb interface{ Fatalf(string, ...interface{}) }, sub, test string, vals []reflect.Value, simple bool, useWrite []bool) {
	var parts []string
	var f uni.Features
	f.Types = map[string]bool{}
	for i, v := range vals {
		fi := uni.Describe(v)
		f.BadYear = f.BadYear || fi.BadYear
		f.BigInf = f.BigInf || fi.BigInf
		f.BigFloat = f.BigFloat || fi.BigFloat
		f.BadUTF8 = f.BadUTF8 || fi.BadUTF8
		f.LaxUTF8 = f.LaxUTF8 || fi.LaxUTF8
		f.NonZeroLeaf = f.NonZeroLeaf || fi.NonZeroLeaf
		w := "E"
		if useWrite[i] {
			w = "W"
		}
		parts = append(parts, fmt.Sprintf("%s:%s=%s", w, v.Type(), trunc(uni.FromGo(v).String())[:min(300, len(trunc(uni.FromGo(v).String())))]))
	}
	canon := fmt.Sprintf("simple=%v %s", simple, strings.Join(parts, " ; "))
	ev.S.Begin(sub, canon)
	wire, problem := check(vals, simple, useWrite)
	nontrivial := len(wire) > 1 && (bytes.ContainsAny(wire, "amo") || bytes.Contains(wire, []byte("s")))
	classes := []string{fmt.Sprintf("simple=%v", simple), fmt.Sprintf("values=%d", len(vals))}
	if !simple && bytes.Contains(wire, []byte("r")) {
		classes = append(classes, "has-r-tag")
	}
	ev.S.Case(sub, canon, nontrivial, classes...)
	if f.BadYear && strings.HasPrefix(problem, "encoder error") && strings.Contains(problem, "year") {
		return // not representable: rejected through the error, as required
	}
	if problem == "" {
		return
	}
	detail := fmt.Sprintf("%s\nwire: %q", problem, trunc(string(wire)))
	if key := classify(f, problem); key != "" {
		ev.S.Exclude(key, canon+" => "+trunc(detail)[:min(300, len(trunc(detail)))])
		return
	}
	if os.Getenv("VERIF_TRIAGE") != "" {
		fmt.Printf("TRIAGE %s | %s | wire=%q\n", strings.ReplaceAll(problem, "\n", " // "), canon[:min(300, len(canon))], trunc(string(wire))[:min(200, len(trunc(string(wire))))])
		return
	}
	ev.S.Violation(sub, test, canon, detail, nil)
	tb.Fatalf("%s\n=> %s", canon, detail)
}

func min(a, b int) int {
	if a < b {
		return a
	}
	return b
}

func genType(rt *rapid.T, depth int) reflect.Type {
	leaves := uni.Leaves()
	if depth <= 0 || rapid.IntRange(0, 3).Draw(rt, "leaf") == 0 {
		return rapid.SampledFrom(leaves).Draw(rt, "leafT")
	}
	pos := rapid.SampledFrom(uni.Positions).Draw(rt, "pos")
	if t := pos.Build(genType(rt, depth-1)); t != nil {
		return t
	}
	return rapid.SampledFrom(leaves).Draw(rt, "leafT2")
}

func TestMatrix(t *testing.T) {
	per := ev.Pick(40, 800)
	i := 0
	for _, leaf := range uni.Leaves() {
		for _, pos := range uni.Positions {
			typ := pos.Build(leaf)
			if typ == nil {
				continue
			}
			i++
			if i%ev.S.NShards != ev.S.Shard {
				continue
			}
			ev.Check(t, fmt.Sprintf("matrix:%s@%s", leaf, pos.Name), per, func(rt *rapid.T) {
				v := uni.Gen(rt, typ, 3, uni.Opts{})
				runCase(rt, "matrix", "TestMatrix", []reflect.Value{v}, rapid.Bool().Draw(rt, "simple"), []bool{rapid.Bool().Draw(rt, "write")})
			})
		}
	}
	for _, k := range uni.FastMapTypes {
		for _, vt := range uni.FastMapTypes {
			if !uni.Hashable(k) {
				continue
			}
			i++
			if i%ev.S.NShards != ev.S.Shard {
				continue
			}
			typ := reflect.MapOf(k, vt)
			ev.Check(t, "matrix:"+typ.String(), per, func(rt *rapid.T) {
				v := uni.Gen(rt, typ, 2, uni.Opts{})
				runCase(rt, "matrix", "TestMatrix", []reflect.Value{v}, rapid.Bool().Draw(rt, "simple"), []bool{rapid.Bool().Draw(rt, "write")})
			})
		}
	}
	ev.S.Exhaustive("matrix-cells", true)
}

func TestSequences(t *testing.T) {
	ev.Check(t, "sequences", ev.N(40000, 6000000), func(rt *rapid.T) {
		n := rapid.IntRange(1, 5).Draw(rt, "n")
		var vals []reflect.Value
		var useWrite []bool
		o := uni.Opts{}
		// one shared pool across the values of a sequence, so later values repeat strings of earlier ones
		shared := uni.Gen(rt, reflect.TypeOf([]interface{}(nil)), 0, o)
		_ = shared
		for i := 0; i < n; i++ {
			typ := genType(rt, 3)
			vals = append(vals, uni.Gen(rt, typ, 3, o))
			useWrite = append(useWrite, rapid.Bool().Draw(rt, "write"))
		}
		if n >= 2 && rapid.Bool().Draw(rt, "repeatValue") {
			vals[n-1] = vals[0] // the very same value again: in reference mode Encode may answer with a back-reference
		}
		runCase(rt, "sequences", "TestSequences", vals, rapid.Bool().Draw(rt, "simple"), useWrite)
	})
}

// TestRefClutter: in reference mode a marker string and a shared pointer are written, then a
// "clutter" value of an enumerated kind (every kind of item that takes reference indices), then the
// marker and the pointer again. If the clutter's reference accounting is off by even one, the
// back-references resolve to the wrong item under the independent reader.
func TestRefClutter(t *testing.T) {
	per := ev.Pick(25, 1200)
	for i, ct := range uni.ClutterTypes() {
		if i%ev.S.NShards != ev.S.Shard {
			continue
		}
		ct := ct
		ev.Check(t, "ref-clutter:"+ct.String(), per, func(rt *rapid.T) {
			o := uni.Opts{MaxLen: 5}
			marker := rapid.SampledFrom([]string{"MARKER-α", "mk", "märker😀"}).Draw(rt, "marker")
			shared := &uni.Plain{A: rapid.IntRange(0, 99).Draw(rt, "pa"), B: marker, C: 1.5}
			x1 := uni.Gen(rt, ct, 3, o)
			x2 := uni.Gen(rt, ct, 3, o)
			v := []interface{}{marker, shared, x1.Interface(), marker, shared, x2.Interface(), shared, marker}
			if isNilable(x1) {
				v[2] = nilSafe(x1)
			}
			if isNilable(x2) {
				v[5] = nilSafe(x2)
			}
			runCase(rt, "ref-clutter", "TestRefClutter", []reflect.Value{reflect.ValueOf(v)}, false, []bool{rapid.Bool().Draw(rt, "write")})
		})
	}
	ev.S.Exhaustive("ref-clutter-kinds", true)
}

func isNilable(v reflect.Value) bool {
	switch v.Kind() {
	case reflect.Ptr, reflect.Map, reflect.Slice, reflect.Interface:
		return true
	}
	return false
}

func nilSafe(v reflect.Value) interface{} {
	if v.IsNil() {
		return nil
	}
	return v.Interface()
}

// TestEncoderReuse: one Encoder writes several messages with Reset (and mode switches) between them, the way a
// connection-scoped encoder is used. Every message is read on its own, with fresh class and reference tables: it must
// be well-formed by itself and denote its value.
func TestEncoderReuse(t *testing.T) {
	ev.Check(t, "encoder-reuse", ev.N(3000, 1000000), func(rt *rapid.T) {
		n := rapid.IntRange(2, 4).Draw(rt, "messages")
		o := uni.Opts{NoBadYears: true, NoLaxUTF8: true, NoBigPrec: true, MaxLen: 3}
		structs := uni.Structs
		var vals []reflect.Value
		var modes []bool
		var between []string
		for i := 0; i < n; i++ {
			var ty reflect.Type
			if rapid.IntRange(0, 2).Draw(rt, "structy") > 0 {
				ty = rapid.SampledFrom(structs).Draw(rt, "st")
				if rapid.Bool().Draw(rt, "slice") {
					ty = reflect.SliceOf(ty)
				}
			} else {
				ty = genType(rt, 2)
			}
			vals = append(vals, uni.Gen(rt, ty, 2, o))
			modes = append(modes, rapid.Bool().Draw(rt, "simple"))
			between = append(between, rapid.SampledFrom([]string{"Reset", "Reset+ResetBuffer", "Simple-then-Reset"}).Draw(rt, "between"))
		}
		var parts []string
		for i, v := range vals {
			parts = append(parts, fmt.Sprintf("[simple=%v %s] %s=%s", modes[i], between[i], v.Type(), trunc(uni.FromGo(v).String())[:min(120, len(trunc(uni.FromGo(v).String())))]))
		}
		canon := "one encoder: " + strings.Join(parts, " ; ")
		ev.S.Begin("encoder-reuse", canon)
		problem := ""
		var wire []byte
		func() {
			defer func() {
				if e := recover(); e != nil {
					problem = fmt.Sprintf("encoder panicked: %v", e)
				}
			}()
			enc := new(hio.Encoder)
			for i, v := range vals {
				switch between[i] {
				case "Reset":
					enc.Simple(modes[i])
					enc.Reset()
				case "Reset+ResetBuffer":
					enc.Simple(modes[i])
					enc.Reset().ResetBuffer()
				default:
					enc.Reset()
					enc.Simple(modes[i])
				}
				before := len(enc.Bytes())
				if between[i] == "Reset+ResetBuffer" {
					before = 0
				}
				if err := enc.Encode(v.Interface()); err != nil {
					if strings.Contains(err.Error(), "year") {
						return
					}
					problem = fmt.Sprintf("message %d: encoder error %v", i, err)
					return
				}
				msg := enc.Bytes()[before:]
				wire = msg
				nodes, p, err := ref.ParseAll(msg)
				switch {
				case err != nil:
					problem = fmt.Sprintf("message %d is not well-formed on its own: %v", i, err)
				case len(nodes) != 1:
					problem = fmt.Sprintf("message %d holds %d values", i, len(nodes))
				case modes[i] && p.RefTags > 0:
					problem = fmt.Sprintf("message %d: simple mode emitted a back-reference", i)
				default:
					want := uni.FromGo(v)
					if !ref.EqualOpt(want, nodes[0], ref.Options{NilIsEmpty: true}) {
						problem = fmt.Sprintf("message %d does not denote what was encoded: first difference at %s", i, ref.Diff(want, nodes[0], ref.Options{NilIsEmpty: true}))
					}
				}
				if problem != "" {
					return
				}
			}
		}()
		ev.S.Case("encoder-reuse", canon, true, fmt.Sprintf("reuse-messages=%d", n))
		if problem == "" {
			return
		}
		var f uni.Features
		f.Types = map[string]bool{}
		for _, v := range vals {
			fi := uni.Describe(v)
			f.BigInf, f.BigFloat, f.LaxUTF8, f.BadUTF8 = f.BigInf || fi.BigInf, f.BigFloat || fi.BigFloat, f.LaxUTF8 || fi.LaxUTF8, f.BadUTF8 || fi.BadUTF8
		}
		detail := fmt.Sprintf("%s\nwire: %q", problem, trunc(string(wire)))
		if key := classify(f, problem); key != "" {
			ev.S.Exclude(key, canon+" => "+trunc(detail)[:min(300, len(trunc(detail)))])
			return
		}
		if os.Getenv("VERIF_TRIAGE") != "" {
			fmt.Printf("TRIAGE %s | %s\n", strings.ReplaceAll(problem, "\n", " // "), canon[:min(300, len(canon))])
			return
		}
		ev.S.Violation("encoder-reuse", "TestEncoderReuse", canon, detail, nil)
		rt.Fatalf("%s\n=> %s", canon, detail)
	})
}

// TestRegressions: inputs of repaired defects.
func TestRegressions(t *testing.T) {
	type withErr struct {
		A int
		E error
		B string
	}
	for _, simple := range []bool{true, false} {
		runCase(t, "regressions", "TestRegressions", []reflect.Value{reflect.ValueOf(withErr{1, nil, "z"})}, simple, []bool{false})
		runCase(t, "regressions", "TestRegressions", []reflect.Value{reflect.ValueOf(&withErr{1, nil, "z"}), reflect.ValueOf([]withErr{{2, nil, "y"}, {3, nil, "x"}})}, simple, []bool{false, true})
	}
}

func TestFinding(t *testing.T) {
	key := ev.FindingKey()
	if r, ok := reproducers[key]; ok {
		reproduced, detail := r()
		ev.FindingResult(key, reproduced, detail)
		return
	}
	t.Skip("no open finding " + key)
}

var reproducers = map[string]func() (bool, string){
	"bigfloat-shortest-digits": func() (bool, string) {
		x, _, _ := big.ParseFloat("3.56011817361152221294437234773184650275074557e-307", 10, 53, big.ToNearestEven)
		_, problem := check([]reflect.Value{reflect.ValueOf(x)}, true, []bool{false})
		return strings.Contains(problem, "1 ulp apart"), problem
	},
	"lax-utf8-string": func() (bool, string) {
		_, problem := check([]reflect.Value{reflect.ValueOf("ab\xed\xa0\x80")}, true, []bool{false})
		return strings.Contains(problem, "invalid UTF-8 in string payload"), problem
	},
}
