// C01 — typed round trip: Unmarshal(Marshal(v)) reproduces v for every supported value.
package c01

import (
	"bytes"
	"fmt"
	"math/big"
	"os"
	"reflect"
	"regexp"
	"strings"
	"testing"
	"time"

	hio "github.com/hprose/hprose-golang/v3/io"
	"pgregory.net/rapid"
	"verif/hp/ev"
	"verif/hp/ref"
	"verif/hp/uni"
)

func TestMain(m *testing.M) {
	// a fixed non-zero offset makes a UTC/local mix-up change the instant, and has no DST gaps
	time.Local = time.FixedZone("VERIF", 8*3600)
	// struct types must be registered to come back as structs from an interface{} destination (documented)
	for _, st := range uni.Structs {
		hio.Register(reflect.New(st).Interface())
	}
	ev.Main(m, "C01")
}

type outcome struct {
	stage   string // "" ok | encode-panic | encode-error | decode-panic | decode-error | mismatch
	message string
	wire    []byte
}

var entries = []string{"marshal", "formatter", "encoder", "reader"}

// roundTrip encodes v (of static type t) and decodes into a fresh variable of the same type.
func roundTrip(v reflect.Value, simple bool, entry string) (o outcome, got reflect.Value) {
	t := v.Type()
	var data []byte
	func() {
		defer func() {
			if e := recover(); e != nil {
				o = outcome{stage: "encode-panic", message: fmt.Sprint(e)}
			}
		}()
		var err error
		switch entry {
		case "encoder":
			var buf bytes.Buffer
			enc := hio.NewEncoder(&buf).Simple(simple)
			err = enc.Encode(v.Interface())
			data = buf.Bytes()
		default:
			data, err = hio.Formatter{Simple: simple}.Marshal(v.Interface())
		}
		if err != nil {
			o = outcome{stage: "encode-error", message: err.Error()}
		}
	}()
	if o.stage != "" {
		return o, got
	}
	o.wire = data
	p := reflect.New(t)
	func() {
		defer func() {
			if e := recover(); e != nil {
				o = outcome{stage: "decode-panic", message: fmt.Sprint(e), wire: data}
			}
		}()
		var err error
		switch entry {
		case "reader":
			err = hio.Formatter{Simple: simple, LongType: hio.LongTypeBigInt}.UnmarshalFromReader(bytes.NewReader(data), p.Interface())
		case "encoder":
			dec := hio.NewDecoder(data).Simple(simple)
			dec.LongType = hio.LongTypeBigInt
			dec.Decode(p.Interface())
			err = dec.Error
		default:
			err = hio.Formatter{Simple: simple, LongType: hio.LongTypeBigInt}.Unmarshal(data, p.Interface())
		}
		if err != nil {
			o = outcome{stage: "decode-error", message: err.Error(), wire: data}
		}
	}()
	if o.stage != "" {
		return o, got
	}
	got = p.Elem()
	a, b := uni.FromGo(v), uni.FromGo(got)
	if !ref.EqualOpt(a, b, ref.Options{NilIsEmpty: true}) {
		o = outcome{stage: "mismatch", message: fmt.Sprintf("first difference at %s\noriginal %s\n decoded %s", ref.Diff(a, b, ref.Options{NilIsEmpty: true}), trunc(a.String(), 1500), trunc(b.String(), 1500)), wire: data}
	}
	return o, got
}

func trunc(s string, n int) string {
	if len(s) > n {
		return s[:n] + "…"
	}
	return s
}

// ---------------------------------------------------------------- known findings (two-sided matchers)

type finding struct {
	key   string
	match func(t reflect.Type, f uni.Features, o outcome) bool
}

var findings = []finding{
	// a big.Float of more than 64 bits somewhere in the value AND the first difference is a double whose
	// decoded precision is the decoder's default (64) and whose values agree to 64 bits
	{"bigfloat-precision", func(t reflect.Type, f uni.Features, o outcome) bool {
		return f.BigPrec && o.stage == "mismatch" && bigPrecRe.MatchString(o.message)
	}},
	// a big.Float in the value AND the decoded number is the neighbouring float at the original precision
	{"bigfloat-shortest-digits", func(t reflect.Type, f uni.Features, o outcome) bool {
		return f.BigFloat && o.stage == "mismatch" && ulpRe.MatchString(o.message) && !bigPrecRe.MatchString(o.message)
	}},
}

var ulpRe = regexp.MustCompile(`first difference at [^\n]*: double [^\n]*\[1 ulp apart at the original precision\]`)

var bigPrecRe = regexp.MustCompile(`first difference at [^\n]*: double [^\n]*prec (6[5-9]|[7-9][0-9]|[1-9][0-9]{2,})\) vs double [^\n]*prec 64\)`)

func classify(t reflect.Type, f uni.Features, o outcome) string {
	for _, k := range findings {
		if ev.S.Known(k.key) && k.match(t, f, o) {
			return k.key
		}
	}
	return ""
}

// one case; returns false when the case failed and was not excluded
func runCase(tb interface{ Fatalf(string, ...interface{}) }, sub, test string, v reflect.Value, simple bool, entry string, extraClass ...string) {
	t := v.Type()
	f := uni.Describe(v)
	node := uni.FromGo(v)
	canon := fmt.Sprintf("%s simple=%v entry=%s value=%s", t, simple, entry, trunc(node.String(), 400))
	ev.S.Begin(sub, canon)
	o, _ := roundTrip(v, simple, entry)
	nontrivial := f.NonZeroLeaf && (f.Depth >= 1 || f.BoundaryLeaf || t.Kind() != reflect.Struct)
	classes := append([]string{"mode-simple=" + fmt.Sprint(simple), "entry=" + entry, "kind=" + t.Kind().String()}, extraClass...)
	ev.S.Case(sub, canon, nontrivial, classes...)
	if f.BadYear {
		// a year outside 0..9999 cannot be carried: it must be rejected through the error, never by a panic
		if o.stage == "encode-error" && strings.Contains(o.message, "year") {
			return
		}
		if o.stage == "" {
			o = outcome{stage: "accepted-bad-year", message: "a time with a year outside 0..9999 was encoded without error", wire: o.wire}
		}
	}
	if o.stage == "" {
		return
	}
	detail := fmt.Sprintf("%s: %s\nwire: %q", o.stage, o.message, trunc(string(o.wire), 600))
	if key := classify(t, f, o); key != "" {
		ev.S.Exclude(key, canon+" => "+trunc(detail, 300))
		return
	}
	if os.Getenv("VERIF_TRIAGE") != "" {
		fmt.Printf("TRIAGE %s entry=%s | %s | %s | %s | wire=%q\n", o.stage, entry, t, trunc(strings.ReplaceAll(o.message, "\n", " // "), 200), trunc(node.String(), 120), trunc(string(o.wire), 120))
		return
	}
	ev.S.Violation(sub, test, canon, detail, nil)
	tb.Fatalf("%s\n=> %s", canon, detail)
}

// ---------------------------------------------------------------- the type x position matrix

type cell struct {
	leaf reflect.Type
	pos  uni.Position
	t    reflect.Type
}

func matrix() []cell {
	var out []cell
	for _, leaf := range uni.Leaves() {
		for _, pos := range uni.Positions {
			if t := pos.Build(leaf); t != nil {
				out = append(out, cell{leaf, pos, t})
			}
		}
	}
	// all 15x15 specialised maps
	for _, k := range uni.FastMapTypes {
		for _, v := range uni.FastMapTypes {
			if !uni.Hashable(k) {
				continue
			}
			out = append(out, cell{v, uni.Position{Name: "map[" + k.String() + "]V"}, reflect.MapOf(k, v)})
		}
	}
	return out
}

func TestMatrix(t *testing.T) {
	cells := matrix()
	per := ev.Pick(25, 600)
	n := 0
	for i, c := range cells {
		if i%ev.S.NShards != ev.S.Shard {
			continue
		}
		n++
		c := c
		sub := "matrix"
		name := fmt.Sprintf("%s@%s", c.leaf, c.pos.Name)
		ev.Check(t, sub+":"+name, per, func(rt *rapid.T) {
			v := uni.Gen(rt, c.t, 3, uni.Opts{})
			simple := rapid.Bool().Draw(rt, "simple")
			entry := rapid.SampledFrom(entries).Draw(rt, "entry")
			runCase(rt, sub, "TestMatrix", v, simple, entry, "pos="+c.pos.Name)
		})
	}
	ev.S.Note("matrix_cells", len(cells))
	ev.S.Note("matrix_note", "every leaf type x position and all 15x15 specialised map types enumerated (sharded); values per cell drawn by rapid with boundary bias")
	ev.S.Exhaustive("matrix-cells", true)
}

// ---------------------------------------------------------------- random type trees

func genType(rt *rapid.T, depth int) reflect.Type {
	leaves := uni.Leaves()
	if depth <= 0 || rapid.IntRange(0, 3).Draw(rt, "leaf") == 0 {
		return rapid.SampledFrom(leaves).Draw(rt, "leafT")
	}
	switch rapid.IntRange(0, 6).Draw(rt, "ctor") {
	case 0:
		return reflect.PtrTo(genType(rt, depth-1))
	case 1:
		return reflect.SliceOf(genType(rt, depth-1))
	case 2:
		return reflect.ArrayOf(rapid.IntRange(0, 3).Draw(rt, "alen"), genType(rt, depth-1))
	case 3:
		var kt reflect.Type
		for {
			kt = rapid.SampledFrom(leaves).Draw(rt, "keyT")
			if uni.Hashable(kt) {
				break
			}
		}
		return reflect.MapOf(kt, genType(rt, depth-1))
	case 4:
		n := rapid.IntRange(0, 4).Draw(rt, "nfields")
		var fs []reflect.StructField
		for i := 0; i < n; i++ {
			f := reflect.StructField{Name: fmt.Sprintf("F%d", i), Type: genType(rt, depth-1)}
			switch rapid.IntRange(0, 5).Draw(rt, "tag") {
			case 0:
				f.Tag = reflect.StructTag(fmt.Sprintf(`hprose:"h%d"`, i))
			case 1:
				f.Tag = reflect.StructTag(fmt.Sprintf(`json:"j%d,omitempty"`, i))
			}
			fs = append(fs, f)
		}
		return reflect.StructOf(fs)
	case 5:
		return reflect.SliceOf(reflect.SliceOf(genType(rt, depth-1)))
	default:
		return reflect.MapOf(reflect.TypeOf(""), genType(rt, depth-1))
	}
}

func TestRandomTypes(t *testing.T) {
	ev.Check(t, "random-types", ev.N(60000, 12000000), func(rt *rapid.T) {
		typ := genType(rt, ev.Pick(3, 4))
		v := uni.Gen(rt, typ, 4, uni.Opts{})
		simple := rapid.Bool().Draw(rt, "simple")
		entry := rapid.SampledFrom(entries).Draw(rt, "entry")
		runCase(rt, "random-types", "TestRandomTypes", v, simple, entry)
	})
}

// ---------------------------------------------------------------- regression cases kept from earlier findings

func TestRegressions(t *testing.T) {
	// map decoder temp reuse (fixed in 69081cf): a later, shorter slice value must not overwrite an earlier one
	type M = map[string][]uni.Inner
	for i := 0; i < 50; i++ { // map iteration order is random
		v := M{"t2": {{X: 6, Y: "m6"}, {X: 7, Y: "m7"}, {X: 8, Y: "m8"}}, "t1": {{X: 9, Y: "m9"}}}
		for _, simple := range []bool{true, false} {
			runCase(t, "regressions", "TestRegressions", reflect.ValueOf(v), simple, "marshal")
		}
		p1, p2 := &uni.Inner{X: 1, Y: "one"}, &uni.Inner{X: 2, Y: "two"}
		runCase(t, "regressions", "TestRegressions", reflect.ValueOf(map[string]*uni.Inner{"a": p1, "b": p2, "c": p1}), false, "marshal")
	}
	// a string that is not valid UTF-8 travels as bytes; a later occurrence is a back-reference to that bytes item,
	// here decoded into pointers to a named string type (found by the thorough tier)
	raw := uni.MyString("a\x80b")
	pr := &raw
	ppr := &pr
	for _, simple := range []bool{true, false} {
		runCase(t, "regressions", "TestRegressions", reflect.ValueOf(map[string][1]**uni.MyString{"a\x80b": {ppr}}), simple, "marshal")
		runCase(t, "regressions", "TestRegressions", reflect.ValueOf([]**uni.MyString{ppr, ppr}), simple, "marshal")
		runCase(t, "regressions", "TestRegressions", reflect.ValueOf(struct {
			A string
			B **uni.MyString
			C *uni.MyString
		}{"a\x80b", ppr, pr}), simple, "marshal")
	}
}

func TestFinding(t *testing.T) {
	key := ev.FindingKey()
	if r, ok := reproducers[key]; ok {
		reproduced, detail := r()
		ev.FindingResult(key, reproduced, detail)
		return
	}
	t.Skip("no open finding " + key)
}

var reproducers = map[string]func() (bool, string){
	"bigfloat-shortest-digits": func() (bool, string) {
		x, _, _ := big.ParseFloat("3.56011817361152221294437234773184650275074557e-307", 10, 53, big.ToNearestEven)
		return reproduce(x, true)
	},
	"bigfloat-precision": func() (bool, string) {
		x := new(big.Float).SetPrec(100).Quo(big.NewFloat(1), big.NewFloat(3))
		return reproduce([]*big.Float{x}, true)
	},
}

// reproduce runs a single value through the round trip and reports whether it fails.
func reproduce(v interface{}, simple bool) (bool, string) {
	o, _ := roundTrip(reflect.ValueOf(v), simple, "marshal")
	return o.stage != "", o.stage + ": " + trunc(o.message, 300)
}

var _ = os.Getenv
var _ = strings.Contains
