package c20

import (
	"context"
	"errors"
	"fmt"
	"sync/atomic"
	"testing"
	"time"

	"github.com/hprose/hprose-golang/v3/rpc/core"
	"github.com/hprose/hprose-golang/v3/rpc/plugins/circuitbreaker"
	"pgregory.net/rapid"
	"verif/hp/ev"
)

// TestLateFailure: several calls are forwarded while the breaker is closed and the harness decides when
// each fails. The first threshold+1 failures open the breaker; the remaining calls fail later (error or
// panic). The recovery time runs from the LAST failure: a probe issued when the recovery time has passed
// since the failure that opened the breaker, but not since the last one, must still be rejected; a probe
// issued after the recovery time since the last failure must be forwarded.
func TestLateFailure(t *testing.T) {
	const rec = 240 * time.Millisecond
	ev.Check(t, "late-failure", ev.N(24, 600), func(rt *rapid.T) {
		thr := rapid.Uint64Range(0, 3).Draw(rt, "threshold")
		late := rapid.IntRange(1, 3).Draw(rt, "lateFailures")
		how := rapid.SampledFrom([]byte{'e', 'p'}).Draw(rt, "lateKind")
		mock := rapid.Bool().Draw(rt, "mock")
		lateAfter := time.Duration(rapid.IntRange(120, 200).Draw(rt, "lateAfterMs")) * time.Millisecond
		desc := fmt.Sprintf("thr=%d recovery=%v mock=%v: %d calls fail at once (the breaker opens), %d more calls forwarded before that fail %v later (%c); probes", thr, rec, mock, thr+1, late, lateAfter, how)
		ev.S.Begin("late-failure", desc)
		opts := []circuitbreaker.Option{circuitbreaker.WithThreshold(thr), circuitbreaker.WithRecoverTime(rec)}
		if mock {
			opts = append(opts, circuitbreaker.WithMockService(func(ctx context.Context, name string, args []interface{}) ([]interface{}, error) {
				return []interface{}{"mock:" + name}, nil
			}))
		}
		cb := circuitbreaker.New(opts...)
		client := core.NewClient("mock://c20l")
		client.Timeout = 0
		client.Use(cb)
		var forwarded int64
		entered := make(chan chan byte, 16)
		var probing int32
		client.Use(func(ctx context.Context, request []byte, next core.NextIOHandler) ([]byte, error) {
			atomic.AddInt64(&forwarded, 1)
			if atomic.LoadInt32(&probing) == 1 {
				return []byte("Ri1;z"), nil
			}
			rel := make(chan byte, 1)
			entered <- rel
			switch <-rel {
			case 'e':
				return nil, errors.New("down-error")
			default:
				panic("down-panic")
			}
		})
		n := int(thr) + 1 + late
		done := make(chan error, n)
		var rels []chan byte
		for i := 0; i < n; i++ {
			go func() { _, err := client.Invoke("fn", nil); done <- err }()
			select {
			case r := <-entered:
				rels = append(rels, r)
			case <-time.After(5 * time.Second):
				rt.Fatalf("harness: call %d was not forwarded while the breaker was closed", i)
			}
		}
		// the first threshold+1 fail now: the breaker opens
		for i := 0; i <= int(thr); i++ {
			rels[i] <- 'e'
			<-done
		}
		time.Sleep(lateAfter)
		for i := int(thr) + 1; i < n; i++ {
			rels[i] <- how
			<-done
		}
		lastFailure := time.Now() // no failure completes after this moment
		atomic.StoreInt32(&probing, 1)
		problem := ""
		// probe 1: the recovery time has passed since the breaker opened, not since the last failure
		time.Sleep(rec - lateAfter + 20*time.Millisecond)
		before := atomic.LoadInt64(&forwarded)
		_, err := client.Invoke("fn", nil)
		sinceLast := time.Since(lastFailure)
		conclusive := sinceLast < rec-30*time.Millisecond
		if conclusive && atomic.LoadInt64(&forwarded) != before {
			problem = fmt.Sprintf("a call issued %v after the last failure (recovery time %v) was forwarded: the breaker counts the recovery time from the failure that opened it", sinceLast.Round(time.Millisecond), rec)
		} else if conclusive && !mock && !errors.Is(err, circuitbreaker.ErrBreaker) {
			problem = fmt.Sprintf("the rejected call returned %v instead of the break error", err)
		}
		// probe 2: after the recovery time since the last failure the call goes through
		if problem == "" {
			time.Sleep(time.Until(lastFailure.Add(rec + 40*time.Millisecond)))
			before = atomic.LoadInt64(&forwarded)
			_, err = client.Invoke("fn", nil)
			if atomic.LoadInt64(&forwarded) != before+1 || err != nil {
				problem = fmt.Sprintf("a call issued %v after the last failure (recovery time %v) was not forwarded (err %v)", time.Since(lastFailure).Round(time.Millisecond), rec, err)
			}
		}
		ev.S.Case("late-failure", desc, conclusive, "late-failure", fmt.Sprintf("late-failure-conclusive=%v", conclusive))
		if problem != "" {
			ev.S.Violation("late-failure", "TestLateFailure", desc, problem, nil)
			rt.Fatalf("%s: %s", desc, problem)
		}
	})
}
