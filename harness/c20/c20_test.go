// C20 — the circuit breaker stops forwarding while open and recovers afterwards.
package c20

import (
	"context"
	"errors"
	"fmt"
	"math"
	"regexp"
	"strings"
	"sync"
	"sync/atomic"
	"testing"
	"time"

	_ "github.com/hprose/hprose-golang/v3/rpc"
	"github.com/hprose/hprose-golang/v3/rpc/core"
	"github.com/hprose/hprose-golang/v3/rpc/plugins/circuitbreaker"
	"pgregory.net/rapid"
	"verif/hp/ev"
)

func TestMain(m *testing.M) { ev.Main(m, "C20") }

// A case: a breaker configuration and a sequence of downstream outcomes.
// Outcomes: 'o' success, 'e' error, 'p' panic, 's' sleep past the recovery time, 'h' sleep a little more than
// half of it (timed mode only).
type Case struct {
	Threshold uint64 `json:"threshold"`
	Recovery  string `json:"recovery"` // "zero" | "inf" | "timed"
	Mock      bool   `json:"mock"`
	Seq       string `json:"seq"`
}

func (c Case) String() string {
	return fmt.Sprintf("thr=%d rec=%s mock=%v seq=%s", c.Threshold, c.Recovery, c.Mock, c.Seq)
}

const timedRecovery = 60 * time.Millisecond

type downstream struct {
	calls   int64
	outcome byte
	token   int
}

func (d *downstream) handler(ctx context.Context, request []byte, next core.NextIOHandler) ([]byte, error) {
	atomic.AddInt64(&d.calls, 1)
	switch d.outcome {
	case 'o':
		return []byte(fmt.Sprintf("Ri%d;z", d.token)), nil
	case 'e':
		// every error is a failure, whatever kind it is: the kind rotates with the position in the sequence
		switch d.token % 7 {
		case 6:
			// a downstream that sits behind a breaker of its own: the same text, another error value
			return nil, errors.New(circuitbreaker.ErrBreaker.Error())
		case 1:
			return nil, context.Canceled
		case 2:
			return nil, fmt.Errorf("down-error-%d: %w", d.token, context.Canceled)
		case 3:
			return nil, context.DeadlineExceeded
		case 4:
			return nil, core.ErrTimeout
		case 5:
			cctx, cancel := context.WithCancel(ctx)
			cancel()
			return nil, cctx.Err()
		}
		return nil, fmt.Errorf("down-error-%d", d.token)
	default:
		panic(fmt.Sprintf("down-panic-%d", d.token))
	}
}

// downError is the text of the error the downstream returns at position i.
func downError(i int) string {
	switch i % 7 {
	case 6:
		return circuitbreaker.ErrBreaker.Error()
	case 1, 5:
		return context.Canceled.Error()
	case 2:
		return fmt.Sprintf("down-error-%d: %v", i, context.Canceled)
	case 3:
		return context.DeadlineExceeded.Error()
	case 4:
		return core.ErrTimeout.Error()
	}
	return fmt.Sprintf("down-error-%d", i)
}

// run executes the case against the real plugin installed in a real client and
// compares every step with the reference model. It returns "" when all agree.
func run(c Case) (crossed bool, problem string) {
	var rec time.Duration
	switch c.Recovery {
	case "zero":
		rec = 0
	case "inf":
		rec = 24 * time.Hour
	case "inf-max":
		rec = time.Duration(math.MaxInt64) // the largest "never recover" a caller can write
	case "inf-290y":
		rec = 290 * 365 * 24 * time.Hour
	default:
		rec = timedRecovery
	}
	opts := []circuitbreaker.Option{circuitbreaker.WithThreshold(c.Threshold), circuitbreaker.WithRecoverTime(rec)}
	var mockCalls int64
	if c.Mock {
		opts = append(opts, circuitbreaker.WithMockService(func(ctx context.Context, name string, args []interface{}) ([]interface{}, error) {
			atomic.AddInt64(&mockCalls, 1)
			return []interface{}{"mock:" + name}, nil
		}))
	}
	cb := circuitbreaker.New(opts...)
	d := &downstream{}
	client := core.NewClient("mock://c20")
	client.Timeout = 0
	client.Use(cb)
	client.Use(d.handler) // inner: plays the downstream

	// model
	var fails uint64         // consecutive failures of forwarded calls since last success (certain part)
	uncertain := false       // after a recovery let-through the statement leaves the count open
	var failsSinceRec uint64 // failures since that let-through
	var lastFailBefore, lastFailAfter time.Time

	for i := 0; i < len(c.Seq); i++ {
		o := c.Seq[i]
		if o == 's' {
			time.Sleep(timedRecovery + 25*time.Millisecond)
			continue
		}
		if o == 'h' {
			// a little more than half the recovery time: two of them with a rejected call in between
			// pass the recovery time of the last real failure, not of the rejected call
			time.Sleep(timedRecovery/2 + 10*time.Millisecond)
			continue
		}
		d.outcome, d.token = o, i
		before := atomic.LoadInt64(&d.calls)
		mockBefore := atomic.LoadInt64(&mockCalls)
		t0 := time.Now()
		res, err := client.Invoke("fn", []interface{}{i})
		t1 := time.Now()
		forwarded := atomic.LoadInt64(&d.calls) - before
		mocked := atomic.LoadInt64(&mockCalls) - mockBefore

		// what does the model allow?
		open := fails > c.Threshold // more than threshold consecutive failures
		mustReject, mustForward, maybeRecovered := false, false, false
		switch c.Recovery {
		case "zero":
			mustForward = true
		case "inf", "inf-max", "inf-290y":
			mustReject, mustForward = open, !open
		default: // timed
			// the interval the breaker can have computed lies within [lo, hi]
			hi := t1.Sub(lastFailBefore)
			lo := t0.Sub(lastFailAfter)
			maybeRecovered = hi >= rec
			switch {
			case uncertain:
				// after a let-through the statement leaves the count open: rejecting again is
				// required only once a fresh count exceeds the threshold
				if failsSinceRec > c.Threshold && hi < rec {
					mustReject = true
				} else if lo >= rec {
					mustForward = true
				}
			case !open:
				mustForward = true
			case hi < rec:
				mustReject = true
			case lo >= rec:
				mustForward = true
			}
		}
		step := fmt.Sprintf("step %d (%c): forwarded=%d mocked=%d res=%v err=%v; model fails=%d uncertain=%v", i, o, forwarded, mocked, res, err, fails, uncertain)
		if forwarded > 1 {
			return crossed, "downstream invoked more than once: " + step
		}
		if mustReject && forwarded != 0 {
			return crossed, "forwarded while it should be open: " + step
		}
		if mustForward && forwarded != 1 {
			return crossed, "rejected while it should be closed: " + step
		}
		if forwarded == 0 {
			crossed = true
			// rejected: break error, or mock result
			if c.Mock {
				if err != nil || mocked != 1 || len(res) != 1 || res[0] != "mock:fn" {
					return crossed, "rejected call not served by the mock service: " + step
				}
			} else {
				if !errors.Is(err, circuitbreaker.ErrBreaker) {
					return crossed, "rejected call did not return the break error: " + step
				}
			}
			continue
		}
		if mocked != 0 {
			return crossed, "mock service used for a forwarded call: " + step
		}
		// forwarded: the caller must see the downstream's outcome
		switch o {
		case 'o':
			if err != nil || len(res) != 1 || fmt.Sprint(res[0]) != fmt.Sprint(i) {
				return crossed, "forwarded success not returned: " + step
			}
		case 'e':
			if err == nil || err.Error() != downError(i) {
				return crossed, "forwarded error not returned: " + step
			}
		case 'p':
			if err == nil || !strings.Contains(err.Error(), fmt.Sprintf("down-panic-%d", i)) {
				return crossed, "forwarded panic not turned into its error: " + step
			}
		}
		// model update
		wasOpen := open || uncertain
		if o == 'o' {
			fails, uncertain, failsSinceRec = 0, false, 0
		} else {
			lastFailBefore, lastFailAfter = t0, t1
			if c.Recovery == "timed" && wasOpen {
				// a let-through after recovery (or still inside an uncertain period)
				if !uncertain || maybeRecovered {
					uncertain, failsSinceRec = true, 0
				}
				failsSinceRec++
			} else {
				fails++
			}
		}
	}
	return crossed, ""
}

func report(t interface{ Fatalf(string, ...interface{}) }, sub, test string, c Case, problem string) {
	ev.S.Violation(sub, test, c.String(), problem, c)
	t.Fatalf("%s: %s", c, problem)
}

// TestExhaustive enumerates every outcome sequence up to the bound for every
// threshold, both extreme recovery times and mock absent/present.
func TestExhaustive(t *testing.T) {
	maxLen := ev.Pick(7, 9)
	thresholds := []uint64{0, 1, 2, 3, 5}
	if ev.Thorough() {
		thresholds = []uint64{0, 1, 2, 3, 4, 5, 7}
	}
	alphabet := "oep"
	var seqs []string
	var gen func(prefix string)
	gen = func(prefix string) {
		if len(prefix) > 0 {
			seqs = append(seqs, prefix)
		}
		if len(prefix) == maxLen {
			return
		}
		for i := 0; i < len(alphabet); i++ {
			gen(prefix + string(alphabet[i]))
		}
	}
	gen("")
	idx := 0
	for _, thr := range thresholds {
		for _, rec := range []string{"zero", "inf", "inf-max", "inf-290y"} {
			for _, mock := range []bool{false, true} {
				for _, s := range seqs {
					idx++
					if idx%ev.S.NShards != ev.S.Shard {
						continue
					}
					c := Case{thr, rec, mock, s}
					ev.S.Begin("exhaustive", c.String())
					crossed, problem := run(c)
					nt := crossed || (rec == "zero" && countFails(s) > int(thr))
					ev.S.Case("exhaustive", c.String(), nt, "rec="+rec, fmt.Sprintf("thr=%d", thr), fmt.Sprintf("mock=%v", mock))
					if problem != "" {
						report(t, "exhaustive", "TestExhaustive", c, problem)
					}
				}
			}
		}
	}
	ev.S.Exhaustive("exhaustive", true)
	ev.S.Note("exhaustive_bound", fmt.Sprintf("sequences over {ok,error,panic} of length 1..%d x thresholds %v x {zero,infinite} recovery x mock {absent,present}", maxLen, thresholds))
}

func countFails(s string) int {
	best, cur := 0, 0
	for i := 0; i < len(s); i++ {
		if s[i] == 'o' {
			cur = 0
		} else if s[i] != 's' && s[i] != 'h' {
			cur++
			if cur > best {
				best = cur
			}
		}
	}
	return best
}

// TestLongRandom draws longer sequences and larger thresholds than the
// enumeration reaches.
func TestLongRandom(t *testing.T) {
	ev.Check(t, "long-random", ev.N(3000, 60000), func(rt *rapid.T) {
		c := Case{
			Threshold: rapid.Uint64Range(0, 12).Draw(rt, "threshold"),
			Recovery:  rapid.SampledFrom([]string{"zero", "inf", "inf-max", "inf-290y"}).Draw(rt, "recovery"),
			Mock:      rapid.Bool().Draw(rt, "mock"),
			Seq:       rapid.StringOfN(rapid.SampledFrom([]rune("oeepp")), 1, 60, -1).Draw(rt, "seq"),
		}
		ev.S.Begin("long-random", c.String())
		crossed, problem := run(c)
		ev.S.Case("long-random", c.String(), crossed || (c.Recovery == "zero" && countFails(c.Seq) > int(c.Threshold)), "long")
		if problem != "" {
			report(rt, "long-random", "TestLongRandom", c, problem)
		}
	})
}

// TestTimed uses a real, finite recovery time. The oracle only asserts what the
// measured clock readings force (see run).
func TestTimed(t *testing.T) {
	ev.Check(t, "timed", ev.N(60, 1200), func(rt *rapid.T) {
		c := Case{
			Threshold: rapid.Uint64Range(0, 3).Draw(rt, "threshold"),
			Recovery:  "timed",
			Mock:      rapid.Bool().Draw(rt, "mock"),
			Seq:       rapid.StringOfN(rapid.SampledFrom([]rune("oeeppeshh")), 2, 14, -1).Draw(rt, "seq"),
		}
		ev.S.Begin("timed", c.String())
		crossed, problem := run(c)
		probed := regexp.MustCompile(`h[oep]+h[oep]`).MatchString(c.Seq)
		ev.S.Case("timed", c.String(), crossed && strings.ContainsAny(c.Seq, "sh"), "timed", fmt.Sprintf("timed-call-between-half-sleeps=%v", probed && crossed))
		if problem != "" {
			report(rt, "timed", "TestTimed", c, problem)
		}
	})
}

// TestConcurrent: G callers against an always-failing / always-succeeding downstream.
func TestConcurrent(t *testing.T) {
	ev.Check(t, "concurrent", ev.N(150, 3000), func(rt *rapid.T) {
		thr := rapid.Uint64Range(0, 6).Draw(rt, "threshold")
		g := rapid.IntRange(2, 24).Draw(rt, "goroutines")
		per := rapid.IntRange(1, 12).Draw(rt, "callsPerGoroutine")
		allFail := rapid.Bool().Draw(rt, "allFail")
		desc := fmt.Sprintf("thr=%d G=%d per=%d allFail=%v", thr, g, per, allFail)
		ev.S.Begin("concurrent", desc)
		cb := circuitbreaker.New(circuitbreaker.WithThreshold(thr), circuitbreaker.WithRecoverTime(24*time.Hour))
		var forwarded, rejected, wrong int64
		client := core.NewClient("mock://c20c")
		client.Timeout = 0
		client.Use(cb)
		client.Use(func(ctx context.Context, request []byte, next core.NextIOHandler) ([]byte, error) {
			atomic.AddInt64(&forwarded, 1)
			if allFail {
				return nil, errors.New("boom")
			}
			return []byte("Rtz"), nil
		})
		var wg sync.WaitGroup
		start := make(chan struct{})
		for i := 0; i < g; i++ {
			wg.Add(1)
			go func() {
				defer wg.Done()
				<-start
				for k := 0; k < per; k++ {
					_, err := client.Invoke("fn", nil)
					switch {
					case errors.Is(err, circuitbreaker.ErrBreaker):
						atomic.AddInt64(&rejected, 1)
					case allFail && (err == nil || err.Error() != "boom"):
						atomic.AddInt64(&wrong, 1)
					case !allFail && err != nil:
						atomic.AddInt64(&wrong, 1)
					}
				}
			}()
		}
		close(start)
		wg.Wait()
		total := int64(g * per)
		problem := ""
		switch {
		case wrong != 0:
			problem = fmt.Sprintf("%d calls returned a wrong outcome", wrong)
		case forwarded+rejected != total:
			problem = fmt.Sprintf("forwarded %d + rejected %d != %d calls", forwarded, rejected, total)
		case !allFail && rejected != 0:
			problem = fmt.Sprintf("%d calls rejected although every call succeeds", rejected)
		case allFail && forwarded > int64(thr)+1+int64(g-1):
			problem = fmt.Sprintf("forwarded %d failing calls, bound threshold+1+(G-1)=%d", forwarded, int64(thr)+1+int64(g-1))
		}
		if problem == "" && allFail {
			// once every caller is done the breaker must be open: a later call is rejected
			before := atomic.LoadInt64(&forwarded)
			_, err := client.Invoke("fn", nil)
			if total > int64(thr) && (!errors.Is(err, circuitbreaker.ErrBreaker) || atomic.LoadInt64(&forwarded) != before) {
				problem = fmt.Sprintf("after %d failures (threshold %d) a later call was forwarded, err=%v", total, thr, err)
			}
		}
		ev.S.Case("concurrent", desc, allFail && total > int64(thr), "concurrent")
		if problem != "" {
			ev.S.Violation("concurrent", "TestConcurrent", desc, problem, nil)
			rt.Fatalf("%s: %s", desc, problem)
		}
	})
}

// ---------------------------------------------------------------- overlapping calls (harness-owned schedule)

type heldCall struct {
	id      int
	release chan byte
	done    chan error
	res     []interface{}
}

// TestOverlap holds forwarded calls in flight and decides itself when and how each one
// completes, so overlapping calls have a known linearisation: a call is judged at its
// start against the failures/successes that have *completed* so far.
func TestOverlap(t *testing.T) {
	ev.Steps(40)
	ev.Check(t, "overlap", ev.N(1500, 40000), func(rt *rapid.T) {
		thr := rapid.Uint64Range(0, 4).Draw(rt, "threshold")
		mock := rapid.Bool().Draw(rt, "mock")
		opts := []circuitbreaker.Option{circuitbreaker.WithThreshold(thr), circuitbreaker.WithRecoverTime(24 * time.Hour)}
		if mock {
			opts = append(opts, circuitbreaker.WithMockService(func(ctx context.Context, name string, args []interface{}) ([]interface{}, error) {
				return []interface{}{"mock:" + name}, nil
			}))
		}
		cb := circuitbreaker.New(opts...)
		client := core.NewClient("mock://c20o")
		client.Timeout = 0
		client.Use(cb)
		entered := make(chan *heldCall, 1)
		var curMu sync.Mutex
		var cur *heldCall
		client.Use(func(ctx context.Context, request []byte, next core.NextIOHandler) ([]byte, error) {
			curMu.Lock()
			c := cur
			curMu.Unlock()
			entered <- c
			switch <-c.release {
			case 'o':
				return []byte(fmt.Sprintf("Ri%d;z", c.id)), nil
			case 'e':
				return nil, fmt.Errorf("down-error-%d", c.id)
			default:
				panic(fmt.Sprintf("down-panic-%d", c.id))
			}
		})
		var open []*heldCall
		var trace []string
		var fails uint64
		overlapped, crossed := false, false
		next := 0
		desc := func() string { return fmt.Sprintf("thr=%d mock=%v trace=%s", thr, mock, strings.Join(trace, ",")) }
		fail := func(msg string) {
			for _, c := range open {
				c.release <- 'o'
				<-c.done
			}
			open = nil
			ev.S.Violation("overlap", "TestOverlap", desc(), msg, nil)
			rt.Fatalf("%s: %s", desc(), msg)
		}
		rt.Repeat(map[string]func(*rapid.T){
			"start": func(rt *rapid.T) {
				if len(open) >= 6 {
					rt.Skip("enough in flight")
				}
				c := &heldCall{id: next, release: make(chan byte, 1), done: make(chan error, 1)}
				next++
				curMu.Lock()
				cur = c
				curMu.Unlock()
				go func() {
					res, err := client.Invoke("fn", nil)
					c.res = res
					c.done <- err
				}()
				wantReject := fails > thr
				select {
				case <-entered:
					trace = append(trace, fmt.Sprintf("start%d->forwarded", c.id))
					open = append(open, c)
					if len(open) > 1 {
						overlapped = true
					}
					if wantReject {
						fail(fmt.Sprintf("call %d forwarded while it should be open (%d consecutive completed failures)", c.id, fails))
					}
				case err := <-c.done:
					trace = append(trace, fmt.Sprintf("start%d->rejected", c.id))
					crossed = true
					if !wantReject {
						fail(fmt.Sprintf("call %d rejected (err=%v res=%v) while it should be closed (%d consecutive completed failures)", c.id, err, c.res, fails))
					}
					if mock {
						if err != nil || len(c.res) != 1 || c.res[0] != "mock:fn" {
							fail(fmt.Sprintf("rejected call %d not served by the mock: res=%v err=%v", c.id, c.res, err))
						}
					} else if !errors.Is(err, circuitbreaker.ErrBreaker) {
						fail(fmt.Sprintf("rejected call %d returned %v instead of the break error", c.id, err))
					}
				case <-time.After(20 * time.Second):
					fail(fmt.Sprintf("call %d neither returned nor reached the downstream handler", c.id))
				}
			},
			"finish": func(rt *rapid.T) {
				if len(open) == 0 {
					rt.Skip("nothing in flight")
				}
				k := rapid.IntRange(0, len(open)-1).Draw(rt, "which")
				o := rapid.SampledFrom([]byte{'o', 'e', 'e', 'p'}).Draw(rt, "outcome")
				c := open[k]
				open = append(open[:k], open[k+1:]...)
				c.release <- o
				var err error
				select {
				case err = <-c.done:
				case <-time.After(20 * time.Second):
					fail(fmt.Sprintf("call %d did not return after the downstream answered", c.id))
				}
				trace = append(trace, fmt.Sprintf("finish%d(%c)", c.id, o))
				switch o {
				case 'o':
					fails = 0
					if err != nil || len(c.res) != 1 || fmt.Sprint(c.res[0]) != fmt.Sprint(c.id) {
						fail(fmt.Sprintf("call %d: forwarded success not returned: res=%v err=%v", c.id, c.res, err))
					}
				default:
					fails++
					if err == nil || !strings.Contains(err.Error(), fmt.Sprintf("-%d", c.id)) {
						fail(fmt.Sprintf("call %d: forwarded failure not returned: err=%v", c.id, err))
					}
				}
			},
		})
		for _, c := range open {
			c.release <- 'o'
			<-c.done
		}
		ev.S.Begin("overlap", desc())
		ev.S.Case("overlap", desc(), overlapped && crossed, "overlap")
	})
}

// TestReplay re-executes one explicit case from a replay file (no generator involved).
func TestReplay(t *testing.T) {
	var c Case
	sub, ok := ev.ReplayCase(&c)
	if !ok {
		t.Skip("no explicit replay case")
	}
	if _, problem := run(c); problem != "" {
		report(t, sub, "TestReplay", c, problem)
	}
}
