package c10

import (
	"context"
	"fmt"
	"sync"
	"sync/atomic"
	"testing"
	"time"

	"github.com/hprose/hprose-golang/v3/rpc/core"
	"github.com/hprose/hprose-golang/v3/rpc/plugins/reverse"
	"pgregory.net/rapid"
	"verif/hp/ev"
	"verif/hp/tp"
)

// TestReverseAbandoned: reverse calls (service -> provider) that their callers give up - by cancellation, by
// a deadline, or with a context that is already done - while no provider of that id is listening. Each must
// return promptly with an error and leave nothing behind: a provider that comes online afterwards must be
// handed only the calls made from then on.
func TestReverseAbandoned(t *testing.T) {
	var pseq int64
	ev.Check(t, "reverse-abandoned", ev.N(40, 1200), func(rt *rapid.T) {
		kind := rapid.SampledFrom([]string{"tcp", "unix", "ws", "http"}).Draw(rt, "kind")
		n := rapid.IntRange(1, 4).Draw(rt, "abandoned")
		hows := make([]string, n)
		for i := range hows {
			hows[i] = rapid.SampledFrom([]string{"cancel", "deadline", "already-cancelled", "caller-timeout"}).Draw(rt, "how")
		}
		id := atomic.AddInt64(&caseSeq, 1)
		pid := fmt.Sprintf("ab-%d-%d", id, atomic.AddInt64(&pseq, 1))
		canon := fmt.Sprintf("reverse over %s: %d calls given up by %v while no provider listens, then the provider comes online", kind, n, hows)
		ev.S.Begin("reverse-abandoned", canon)
		s := core.NewService()
		caller := reverse.NewCaller(s)
		caller.HeartBeat = 0
		caller.Timeout = 10 * time.Second
		srv, err := tp.Start(kind, s)
		if err != nil {
			if tp.ResourceError(err) {
				rt.Skip("no port")
			}
			rt.Fatalf("server: %v", err)
		}
		defer srv.Close()
		problem := ""
		var wg sync.WaitGroup
		var mu sync.Mutex
		for i, how := range hows {
			wg.Add(1)
			go func(i int, how string) {
				defer wg.Done()
				ctx, cancel := context.WithCancel(context.Background())
				defer cancel()
				c := caller
				switch how {
				case "cancel":
					time.AfterFunc(30*time.Millisecond, cancel)
				case "deadline":
					var c2 context.CancelFunc
					ctx, c2 = context.WithTimeout(ctx, 30*time.Millisecond)
					defer c2()
				case "already-cancelled":
					cancel()
				}
				t0 := time.Now()
				var res []interface{}
				var err error
				if how == "caller-timeout" {
					// the Caller's own time-out is the bound
					ctx2, c2 := context.WithTimeout(ctx, 30*time.Millisecond)
					defer c2()
					res, err = c.InvokeContext(ctx2, pid, "note", []interface{}{fmt.Sprintf("abandoned-%d", i)}, stringType)
				} else {
					res, err = c.InvokeContext(ctx, pid, "note", []interface{}{fmt.Sprintf("abandoned-%d", i)}, stringType)
				}
				el := time.Since(t0)
				mu.Lock()
				defer mu.Unlock()
				switch {
				case problem != "":
				case err == nil:
					problem = fmt.Sprintf("call %d (%s) returned %v without an error although no provider was listening", i, how, res)
				case el > 30*time.Millisecond+prompt:
					problem = fmt.Sprintf("call %d (%s) returned after %v (%v)", i, how, el.Round(time.Millisecond), err)
				}
			}(i, how)
		}
		done := make(chan struct{})
		go func() { wg.Wait(); close(done) }()
		select {
		case <-done:
		case <-time.After(prompt + grace):
			mu.Lock()
			if problem == "" {
				problem = "an abandoned reverse call never returned"
			}
			mu.Unlock()
		}
		var seenMu sync.Mutex
		var seen []string
		if problem == "" {
			pc := srv.Client(0)
			defer pc.Abort() // a hijacked websocket connection outlives the server's Close
			prov := reverse.NewProvider(pc, pid)
			prov.AddFunction(func(tag string) string {
				seenMu.Lock()
				seen = append(seen, tag)
				seenMu.Unlock()
				return "n:" + tag
			}, "note")
			prov.RetryInterval = 10 * time.Millisecond
			go prov.Listen()
			defer prov.Close()
			time.Sleep(20 * time.Millisecond)
			res, err := caller.InvokeContext(context.Background(), pid, "note", []interface{}{"fresh"}, stringType)
			if err != nil || len(res) != 1 || res[0] != "n:fresh" {
				problem = fmt.Sprintf("the call made once the provider was online returned %v, %v", res, err)
			}
			time.Sleep(10 * time.Millisecond)
			seenMu.Lock()
			if problem == "" && fmt.Sprint(seen) != "[fresh]" {
				problem = fmt.Sprintf("the provider was handed %v: calls their callers had given up were still queued", seen)
			}
			seenMu.Unlock()
		}
		ev.S.Case("reverse-abandoned", canon, true, "reverse-abandoned="+kind)
		report(rt, "reverse-abandoned", "TestReverseAbandoned", canon, problem)
	})
}
