package c10

import (
	"context"
	"fmt"
	"io"
	"net"
	"sync"
	"sync/atomic"
	"testing"
	"time"

	"github.com/hprose/hprose-golang/v3/rpc/core"
	"pgregory.net/rapid"
	"verif/hp/ev"
	"verif/hp/tp"
)

// TestStalledHandshake: the peer accepts the TCP connection and then stays silent, i.e. it falls silent
// before the request (for a websocket client: in the middle of the opening handshake). The pending calls
// must end by their time-out, their caller's deadline, cancellation or Abort; afterwards the front lets
// connections through to a real server and the client must work.
type front struct {
	ln     net.Listener
	stall  int32
	target string
	mu     sync.Mutex
	held   []net.Conn
}

// recover: the peer comes back: what is left of the silent connections is dropped, new ones are answered.
func (f *front) recover() {
	atomic.StoreInt32(&f.stall, 0)
	f.mu.Lock()
	for _, c := range f.held {
		c.Close()
	}
	f.held = nil
	f.mu.Unlock()
}

func startFront(target string) (*front, error) {
	ln, err := net.Listen("tcp", "127.0.0.1:0")
	if err != nil {
		return nil, err
	}
	f := &front{ln: ln, target: target, stall: 1}
	go func() {
		for {
			c, err := ln.Accept()
			if err != nil {
				return
			}
			go func() {
				defer c.Close()
				if atomic.LoadInt32(&f.stall) == 1 {
					f.mu.Lock()
					f.held = append(f.held, c)
					f.mu.Unlock()
					io.Copy(io.Discard, c) // reads what the client sends, never answers
					return
				}
				t, err := net.Dial("tcp", f.target)
				if err != nil {
					return
				}
				defer t.Close()
				// when either side ends, both connections are closed
				go func() {
					io.Copy(t, c)
					t.Close()
					c.Close()
				}()
				io.Copy(c, t)
			}()
		}
	}()
	return f, nil
}

func TestStalledHandshake(t *testing.T) {
	ev.Check(t, "stalled-handshake", ev.N(40, 1200), func(rt *rapid.T) {
		kind := rapid.SampledFrom([]string{"ws", "ws", "tcp", "http"}).Draw(rt, "kind")
		n := rapid.IntRange(1, 3).Draw(rt, "pending")
		timeoutMs := rapid.SampledFrom([]int{0, 0, 120, 300, 30000}).Draw(rt, "timeoutMs")
		terminators := []string{"cancel", "abort", "caller-deadline"}
		if timeoutMs > 0 && timeoutMs < 30000 {
			terminators = append(terminators, "timeout", "timeout")
		}
		term := rapid.SampledFrom(terminators).Draw(rt, "terminator")
		termAfter := time.Duration(rapid.IntRange(20, 150).Draw(rt, "terminateAfterMs")) * time.Millisecond
		id := atomic.AddInt64(&caseSeq, 1)
		canon := fmt.Sprintf("%s client timeout=%dms, %d calls to a peer that accepts the connection and stays silent; terminated by %s after %v", kind, timeoutMs, n, term, termAfter)
		ev.S.Begin("stalled-handshake", canon)
		base := settle(0, 0)
		base = settle(base, 0)
		s := core.NewService()
		s.AddFunction(func(tag string) string { return "q:" + tag }, "quick")
		srv, err := tp.Start(kind, s)
		if err != nil {
			if tp.ResourceError(err) {
				rt.Skip("no port")
			}
			rt.Fatalf("server: %v", err)
		}
		defer srv.Close()
		real := srv.URL[len(kind)+3:]
		if i := len(real) - 1; real[i] == '/' {
			real = real[:i]
		}
		f, err := startFront(real)
		if err != nil {
			rt.Skip("no port")
		}
		defer f.ln.Close()
		client := core.NewClient(kind + "://" + f.ln.Addr().String() + "/")
		if kind == "tcp" {
			client = core.NewClient("tcp://" + f.ln.Addr().String())
		}
		client.Timeout = time.Duration(timeoutMs) * time.Millisecond
		t0 := time.Now()
		calls := make([]*call, n)
		if term == "caller-deadline" {
			callerDeadlineAfter = termAfter
		}
		for i := range calls {
			calls[i] = startCall(client, "quick", fmt.Sprintf("t-%d-%d", id, i), t0)
		}
		callerDeadlineAfter = 0
		var bound time.Duration
		switch term {
		case "cancel":
			time.Sleep(termAfter)
			for _, k := range calls {
				k.cancel()
			}
			bound = time.Since(t0) + prompt
		case "abort":
			time.Sleep(termAfter)
			done := make(chan struct{})
			go func() { client.Abort(); close(done) }()
			select {
			case <-done:
			case <-time.After(prompt + grace):
			}
			bound = termAfter + prompt
		case "caller-deadline":
			bound = termAfter + slack
		default:
			bound = time.Duration(timeoutMs)*time.Millisecond + slack
		}
		if timeoutMs > 0 {
			if tb := time.Duration(timeoutMs)*time.Millisecond + slack; tb < bound {
				bound = tb
			}
		}
		problem := ""
		for i, k := range calls {
			select {
			case o := <-k.done:
				if o.err == nil && problem == "" {
					problem = fmt.Sprintf("call %d returned %q without an error although the peer never answered", i, o.s)
				}
				if o.at > bound && problem == "" {
					problem = fmt.Sprintf("call %d returned after %v, later than the %v it had (%v)", i, o.at.Round(time.Millisecond), bound.Round(time.Millisecond), o.err)
				}
			case <-time.After(time.Until(t0.Add(bound + grace))):
				if problem == "" {
					problem = fmt.Sprintf("call %d had not returned %v after it should have (bound %v)", i, grace, bound.Round(time.Millisecond))
				}
			}
		}
		if problem == "" {
			// the peer is reachable now: the client must work (one call may still run into what is left of the
			// stalled connection)
			f.recover()
			client.Timeout = 3 * time.Second
			for try := 0; try < 4; try++ {
				problem = ""
				k := startCall(client, "quick", fmt.Sprintf("t-%d-after%d", id, try), time.Now())
				select {
				case o := <-k.done:
					if o.err != nil || o.s != "q:"+k.tag {
						problem = fmt.Sprintf("once the peer answers, the next call on the same client returned %q, %v", o.s, o.err)
					}
				case <-time.After(5 * time.Second):
					problem = "once the peer answers, the next call on the same client never returned"
				}
				if problem == "" {
					break
				}
				time.Sleep(30 * time.Millisecond)
			}
		}
		if problem == "" {
			client.Abort()
			f.ln.Close()
			srv.Close()
			problem = leakReport(base)
		}
		ev.S.Case("stalled-handshake", canon, true, "stalled="+kind, "stalled-terminator="+term, fmt.Sprintf("stalled-timeout=%v", timeoutMs > 0))
		report(rt, "stalled-handshake", "TestStalledHandshake", canon, problem)
	})
}

var _ = context.Background
