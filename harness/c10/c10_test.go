// C10 — every call terminates: response, error, timeout, cancellation or abort.
package c10

import (
	"bufio"
	"context"
	"fmt"
	"io"
	"net"
	"net/http"
	"os"
	"reflect"
	"runtime"
	"strings"
	"sync"
	"sync/atomic"
	"testing"
	"time"

	"github.com/hprose/hprose-golang/v3/rpc/core"
	"github.com/hprose/hprose-golang/v3/rpc/plugins/timeout"
	"github.com/hprose/hprose-golang/v3/rpc/socket"
	"github.com/hprose/hprose-golang/v3/rpc/udp"
	"github.com/hprose/hprose-golang/v3/rpc/websocket"
	"pgregory.net/rapid"
	"verif/hp/echo"
	"verif/hp/ev"
	"verif/hp/peer"
	"verif/hp/tp"
	"verif/hp/wire"
)

func TestMain(m *testing.M) { ev.Main(m, "C10") }

const slack = 700 * time.Millisecond // scheduling slack on a loaded machine
const prompt = 1500 * time.Millisecond

// grace: how long past its bound a call is waited for before it is declared stuck
const grace = 5 * time.Second

var stringType = reflect.TypeOf("")

func respBody(s string) []byte { return []byte(fmt.Sprintf("Rs%d\"%s\"z", len(s), s)) }

func report(rt interface{ Fatalf(string, ...interface{}) }, sub, test, canon, problem string) {
	if problem == "" {
		return
	}
	if tp.ResourceError(fmt.Errorf("%s", problem)) {
		// the machine ran out of ports or descriptors: no verdict on this case
		ev.S.Class("no-verdict-resource-exhaustion", 1)
		time.Sleep(500 * time.Millisecond)
		return
	}
	if os.Getenv("VERIF_TRIAGE") != "" {
		fmt.Printf("TRIAGE %s | %s\n", strings.ReplaceAll(problem, "\n", " // "), canon)
		return
	}
	ev.S.Violation(sub, test, canon, problem, nil)
	rt.Fatalf("%s\n=> %s", canon, problem)
}

// pending returns the connections held and pending-call entries registered in the client's transport.
func pending(c *core.Client, kind string) (conns, entries int) {
	switch kind {
	case "tcp", "unix":
		return socket.VerifPending(c.GetTransport("socket"))
	case "ws", "wsfast":
		return websocket.VerifPending(c.GetTransport("websocket"))
	case "udp":
		return udp.VerifPending(c.GetTransport("udp"))
	}
	return 0, 0
}

func setHook(kind string, h func(string)) {
	switch kind {
	case "tcp", "unix":
		socket.VerifSetHook(h)
	case "ws", "wsfast":
		websocket.VerifSetHook(h)
	case "udp":
		udp.VerifSetHook(h)
	}
}

// settle waits until the number of goroutines is back at (or below) base.
func settle(base int, d time.Duration) int {
	deadline := time.Now().Add(d)
	for {
		n := runtime.NumGoroutine()
		if n <= base || time.Now().After(deadline) {
			return n
		}
		time.Sleep(5 * time.Millisecond)
	}
}

func leakReport(base int) string {
	n := settle(base, 4*time.Second)
	if n <= base {
		return ""
	}
	buf := make([]byte, 1<<18)
	buf = buf[:runtime.Stack(buf, true)]
	// name the goroutines of the library that are still around
	var left []string
	for _, g := range strings.Split(string(buf), "\n\n") {
		if strings.Contains(g, "hprose-golang/v3/rpc/") && !strings.Contains(g, "Handler).bind") && !strings.Contains(g, "Handler).Serve") {
			lines := strings.Split(g, "\n")
			if len(lines) > 1 {
				for _, l := range lines[1:] {
					if strings.Contains(l, "hprose-golang/v3/rpc/") {
						left = append(left, strings.TrimSpace(strings.Split(l, "(0x")[0]))
						break
					}
				}
			}
		}
	}
	if len(left) == 0 {
		return "" // whatever is left does not belong to the library
	}
	if os.Getenv("VERIF_DEBUG_LEAK") != "" {
		fmt.Printf("LEAKDUMP\n%s\nENDLEAKDUMP\n", buf)
	}
	if len(left) > 4 {
		left = left[:4]
	}
	return fmt.Sprintf("%d goroutines more than before the case after quiescence; still running: %s", n-base, strings.Join(left, ", "))
}

type outcome struct {
	s   string
	err error
	at  time.Duration
}

type call struct {
	tag    string
	cancel context.CancelFunc
	done   chan outcome
}

// callerMode says what the caller's own context looks like in the current case: "plain" (cancellable only),
// "far-deadline" (a deadline ten minutes away: the client's time-out still has to end the call) or
// "per-call-timeout" (the time-out is given in the ClientContext instead of on the client).
var callerMode = "plain"

// callerDeadlineAfter, when set, gives the caller's context a deadline that long after the case's start.
var callerDeadlineAfter time.Duration

func drawCallerMode(rt *rapid.T) string {
	callerMode = rapid.SampledFrom([]string{"plain", "plain", "far-deadline", "per-call-timeout", "far-deadline+per-call-timeout"}).Draw(rt, "callerContext")
	return callerMode
}

func startCall(c *core.Client, name, tag string, t0 time.Time) *call {
	ctx, cancel := context.WithCancel(context.Background())
	mode := callerMode
	if callerDeadlineAfter > 0 {
		var cancelDeadline context.CancelFunc
		ctx, cancelDeadline = context.WithDeadline(ctx, t0.Add(callerDeadlineAfter))
		inner := cancel
		cancel = func() { cancelDeadline(); inner() }
	}
	if strings.Contains(mode, "far-deadline") {
		var cancelDeadline context.CancelFunc
		ctx, cancelDeadline = context.WithDeadline(ctx, time.Now().Add(10*time.Minute))
		inner := cancel
		cancel = func() { cancelDeadline(); inner() }
	}
	k := &call{tag: tag, cancel: cancel, done: make(chan outcome, 1)}
	go func() {
		cc := core.NewClientContext()
		cc.ReturnType = []reflect.Type{stringType}
		if strings.Contains(mode, "per-call-timeout") && c.Timeout > 0 {
			cc.Timeout = c.Timeout
		}
		res, err := c.InvokeContext(core.WithContext(ctx, cc), name, []interface{}{tag})
		o := outcome{err: err, at: time.Since(t0)}
		if err == nil && len(res) == 1 {
			o.s, _ = res[0].(string)
		}
		k.done <- o
	}()
	return k
}

// ---- scripted peer faults

type behaviour struct {
	name  string
	kinds []string
	// lost: the connection is lost, the calls must fail promptly whatever the timeout
	lost bool
	// answered: the calls get proper answers
	answered bool
	// rejected: the client itself must notice (invalid frame) and fail the calls promptly
	rejected bool
	// corrupts: the peer leaves a partial frame in the stream; it has to close the connection before anything
	// sensible can be exchanged again
	corrupts bool
	do       func(p *peer.Peer, frames []peer.Frame)
	// oneMore: after do, one more call is issued on the client (it is checked like the pending ones)
	oneMore bool
}

var streamKinds = []string{"tcp", "unix"}
var connKinds = []string{"tcp", "unix", "ws"}
var allKinds = []string{"tcp", "unix", "udp", "ws"}

func behaviours() []behaviour {
	return []behaviour{
		{name: "answers every call", kinds: allKinds, answered: true, do: func(p *peer.Peer, fs []peer.Frame) {
			for _, f := range fs {
				p.Send(peer.Frame{Index: f.Index, Body: respBody("q:" + tagOf(f.Body))})
			}
		}},
		{name: "stays silent", kinds: allKinds, do: func(p *peer.Peer, fs []peer.Frame) {}},
		{name: "shuts down its receiving side and stays silent (the next write of the client fails, its reads see nothing); one more call follows", kinds: []string{"unix"}, lost: true, oneMore: true,
			do: func(p *peer.Peer, fs []peer.Frame) { p.CloseRead() }},
		{name: "closes the connection", kinds: connKinds, lost: true, do: func(p *peer.Peer, fs []peer.Frame) { p.Drop() }},
		{name: "resets the connection", kinds: []string{"tcp", "ws"}, lost: true, do: func(p *peer.Peer, fs []peer.Frame) { p.Reset() }},
		{name: "ends the session with a websocket close frame 1000 (normal closure)", kinds: []string{"ws"}, lost: true, do: func(p *peer.Peer, fs []peer.Frame) { p.CloseFrame(1000) }},
		{name: "ends the session with a websocket close frame 1001 (going away)", kinds: []string{"ws"}, lost: true, do: func(p *peer.Peer, fs []peer.Frame) { p.CloseFrame(1001) }},
		{name: "ends the session with a websocket close frame 1011 (internal error)", kinds: []string{"ws"}, lost: true, do: func(p *peer.Peer, fs []peer.Frame) { p.CloseFrame(1011) }},
		{name: "sends 5 bytes of a header and stays silent", kinds: streamKinds, corrupts: true, do: func(p *peer.Peer, fs []peer.Frame) {
			p.Raw(wire.SocketHeader(20, fs[0].Index, false)[:5])
		}},
		{name: "sends 5 bytes of a header and closes", kinds: streamKinds, lost: true, do: func(p *peer.Peer, fs []peer.Frame) {
			p.Raw(wire.SocketHeader(20, fs[0].Index, false)[:5])
			time.Sleep(2 * time.Millisecond)
			p.Drop()
		}},
		{name: "sends a header and half of the body and stays silent", kinds: streamKinds, corrupts: true, do: func(p *peer.Peer, fs []peer.Frame) {
			b := respBody("q:" + tagOf(fs[0].Body))
			p.Raw(append(wire.SocketHeader(len(b), fs[0].Index, false), b[:len(b)/2]...))
		}},
		{name: "sends a header and half of the body and closes", kinds: streamKinds, lost: true, do: func(p *peer.Peer, fs []peer.Frame) {
			b := respBody("q:" + tagOf(fs[0].Body))
			p.Raw(append(wire.SocketHeader(len(b), fs[0].Index, false), b[:len(b)/2]...))
			time.Sleep(2 * time.Millisecond)
			p.Drop()
		}},
		{name: "announces 2 GiB and stays silent", kinds: streamKinds, corrupts: true, do: func(p *peer.Peer, fs []peer.Frame) {
			p.Raw(wire.SocketHeader(0x7fffffff, fs[0].Index, false))
		}},
		{name: "sends a frame with a wrong checksum", kinds: []string{"tcp", "unix", "udp"}, rejected: true, do: func(p *peer.Peer, fs []peer.Frame) {
			var b []byte
			if p.Kind == "udp" {
				b = wire.UDPFrame(fs[0].Index, respBody("x"), false)
			} else {
				b = wire.SocketFrame(fs[0].Index, respBody("x"), false)
			}
			b[1] ^= 4
			p.Raw(b)
		}},
		{name: "sends a websocket message of one byte", kinds: []string{"ws"}, rejected: true, do: func(p *peer.Peer, fs []peer.Frame) { p.Raw([]byte{7}) }},
		{name: "sends a datagram of 3 bytes", kinds: []string{"udp"}, rejected: true, do: func(p *peer.Peer, fs []peer.Frame) { p.Raw([]byte{1, 2, 3}) }},
		{name: "sends an error frame", kinds: allKinds, rejected: true, do: func(p *peer.Peer, fs []peer.Frame) {
			p.Send(peer.Frame{Index: fs[0].Index, Body: []byte("server says no"), Err: true})
		}},
		{name: "answers only strangers", kinds: allKinds, do: func(p *peer.Peer, fs []peer.Frame) {
			for i := range fs {
				p.Send(peer.Frame{Index: 20000 + i, Body: respBody("stray")})
			}
		}},
		{name: "answers the first call only", kinds: allKinds, do: func(p *peer.Peer, fs []peer.Frame) {
			p.Send(peer.Frame{Index: fs[0].Index, Body: respBody("q:" + tagOf(fs[0].Body))})
		}},
	}
}

func timeoutLike(err error) bool {
	m := err.Error()
	return core.IsTimeoutError(err) || strings.Contains(m, "timeout") || strings.Contains(m, "deadline exceeded")
}

func tagOf(body []byte) string {
	s := string(body)
	i := strings.Index(s, "t-")
	if i < 0 {
		return ""
	}
	j := strings.IndexByte(s[i:], '"')
	if j < 0 {
		return ""
	}
	return s[i : i+j]
}

var caseSeq int64

func TestPeerFaults(t *testing.T) {
	bs := behaviours()
	ev.Check(t, "peer-faults", ev.N(600, 16000), func(rt *rapid.T) {
		kind := rapid.SampledFrom(allKinds).Draw(rt, "kind")
		var mine []behaviour
		for _, b := range bs {
			for _, k := range b.kinds {
				if k == kind {
					mine = append(mine, b)
				}
			}
		}
		b := mine[rapid.IntRange(0, len(mine)-1).Draw(rt, "behaviour")]
		n := rapid.IntRange(1, 4).Draw(rt, "pending")
		// 30 s stands for "a timeout that is far away": the call must be ended by cancel or abort, not wait for it
		timeoutMs := rapid.SampledFrom([]int{0, 0, 120, 300, 30000}).Draw(rt, "timeoutMs")
		terminators := []string{"cancel", "abort"}
		if timeoutMs > 0 && timeoutMs < 30000 {
			terminators = append(terminators, "timeout", "timeout")
		}
		term := rapid.SampledFrom(terminators).Draw(rt, "terminator")
		termAfter := time.Duration(rapid.IntRange(5, 60).Draw(rt, "terminateAfterMs")) * time.Millisecond
		id := atomic.AddInt64(&caseSeq, 1)
		canon := fmt.Sprintf("%s client timeout=%dms, %d calls pending, peer %s; terminated by %s after %v; caller context %s", kind, timeoutMs, n, b.name, term, termAfter, drawCallerMode(rt))
		defer func() { callerMode = "plain" }()
		ev.S.Begin("peer-faults", canon)

		base := settle(0, 0)
		base = settle(base, 0)
		p, err := peer.Start(kind)
		if err != nil {
			rt.Fatalf("peer: %v", err)
		}
		client := core.NewClient(p.URL)
		client.Timeout = time.Duration(timeoutMs) * time.Millisecond
		t0 := time.Now()
		calls := make([]*call, n)
		for i := range calls {
			calls[i] = startCall(client, "quick", fmt.Sprintf("t-%d-%d", id, i), t0)
		}
		problem := ""
		frames, err := p.RecvN(n, 3*time.Second)
		if err != nil && timeoutMs == 0 {
			problem = "harness: " + err.Error()
		}
		var acted, terminated time.Duration
		if len(frames) > 0 {
			// the first frame in the script is the first call's, whatever order they arrived in
			for i, f := range frames {
				if strings.Contains(string(f.Body), calls[0].tag+"\"") {
					frames[0], frames[i] = frames[i], frames[0]
				}
			}
			b.do(p, frames)
			if b.oneMore {
				time.Sleep(2 * time.Millisecond)
				calls = append(calls, startCall(client, "quick", fmt.Sprintf("t-%d-more", id), t0))
			}
			acted = time.Since(t0)
		}
		needTerminator := !(b.lost || b.answered || b.rejected)
		if needTerminator || b.name == "answers the first call only" || b.name == "sends an error frame" {
			time.Sleep(termAfter)
			switch term {
			case "cancel":
				for _, k := range calls {
					k.cancel()
				}
			case "abort":
				client.Abort()
			}
			terminated = time.Since(t0)
		}
		// every call must return, in time
		for i, k := range calls {
			var bound time.Duration
			switch {
			case b.lost || b.rejected || b.answered:
				bound = acted + prompt
			case term == "timeout":
				bound = time.Duration(timeoutMs)*time.Millisecond + slack
			default:
				bound = terminated + prompt
			}
			if timeoutMs > 0 {
				if tb := time.Duration(timeoutMs)*time.Millisecond + slack; tb < bound {
					bound = tb
				}
			}
			select {
			case o := <-k.done:
				switch {
				case b.answered || (b.name == "answers the first call only" && i == 0):
					if timeoutMs > 0 && o.err != nil && timeoutLike(o.err) {
						break // a short client timeout may expire before a proper answer gets through on a loaded machine
					}
					if (o.err != nil || o.s != "q:"+k.tag) && problem == "" {
						problem = fmt.Sprintf("call %d was answered properly and returned %q, %v", i, o.s, o.err)
					}
				case o.err == nil && problem == "":
					problem = fmt.Sprintf("call %d returned %q without an error although the peer %s", i, o.s, b.name)
				}
				if o.at > bound && problem == "" {
					problem = fmt.Sprintf("call %d returned after %v, later than the %v it had (%v)", i, o.at.Round(time.Millisecond), bound.Round(time.Millisecond), o.err)
				}
			case <-time.After(time.Until(t0.Add(bound + grace))):
				if problem == "" {
					problem = fmt.Sprintf("call %d had not returned %v after it should have (bound %v)", i, grace, bound.Round(time.Millisecond))
				}
				k.cancel()
				client.Abort()
				select {
				case <-k.done:
				case <-time.After(3 * time.Second):
				}
			}
		}
		// nothing registered any more
		if problem == "" {
			deadline := time.Now().Add(time.Second)
			for {
				_, entries := pending(client, kind)
				cf := client.VerifCancelFuncs()
				if entries == 0 && cf == 0 {
					break
				}
				if time.Now().After(deadline) {
					problem = fmt.Sprintf("after all calls returned the transport still holds %d pending-call entries and the client %d cancel functions", entries, cf)
					break
				}
				time.Sleep(5 * time.Millisecond)
			}
		}
		// the client stays usable: the peer now answers
		if problem == "" {
			if b.corrupts {
				p.Drop()
				time.Sleep(30 * time.Millisecond)
			}
			for len(p.In) > 0 {
				<-p.In
			}
			stop := make(chan struct{})
			go func() {
				for {
					select {
					case f := <-p.In:
						p.Send(peer.Frame{Index: f.Index, Body: respBody("q:" + tagOf(f.Body))})
					case <-stop:
						return
					}
				}
			}()
			client.Timeout = 3 * time.Second
			// when the connection was lost, a call that still runs into the dead connection may fail; the calls
			// after it must reconnect and succeed
			tries := 1
			if b.lost || b.corrupts || b.rejected {
				tries = 4
			}
			for try := 0; try < tries; try++ {
				problem = ""
				k := startCall(client, "quick", fmt.Sprintf("t-%d-after%d", id, try), time.Now())
				select {
				case o := <-k.done:
					if o.err != nil || o.s != "q:"+k.tag {
						problem = fmt.Sprintf("the next call on the same client returned %q, %v", o.s, o.err)
					}
				case <-time.After(5 * time.Second):
					problem = "the next call on the same client never returned"
				}
				if problem == "" {
					break
				}
				time.Sleep(30 * time.Millisecond)
			}
			close(stop)
		}
		client.Abort()
		p.Close()
		if problem == "" {
			problem = leakReport(base)
		}
		ev.S.Case("peer-faults", canon, !b.answered, "peer="+kind+"/"+b.name, "terminator="+term, fmt.Sprintf("timeout=%v", timeoutMs > 0), "caller-context="+callerMode)
		report(rt, "peer-faults", "TestPeerFaults", canon, problem)
	})
}

// ---- real servers: slow functions, timeouts, cancellation, abort

var (
	gateMu  sync.Mutex
	gateMap = map[string]chan struct{}{}
	arrived = make(chan string, 1<<16)
)

func gate(tag string) chan struct{} {
	gateMu.Lock()
	defer gateMu.Unlock()
	g, ok := gateMap[tag]
	if !ok {
		g = make(chan struct{})
		gateMap[tag] = g
	}
	return g
}

func release(tag string) {
	g := gate(tag)
	gateMu.Lock()
	defer gateMu.Unlock()
	select {
	case <-g:
	default:
		close(g)
	}
}

func Gated(tag string) string {
	arrived <- tag
	select {
	case <-gate(tag):
	case <-time.After(20 * time.Second):
	}
	return "g:" + tag
}

func Quick(tag string) string { return "q:" + tag }

type endpoint struct {
	kind   string
	server *tp.Server
}

var endpoints []*endpoint

func setup() {
	if endpoints != nil {
		return
	}
	for _, kind := range tp.Kinds {
		if only := os.Getenv("VERIF_C10_KIND"); only != "" && only != kind {
			continue
		}
		s := core.NewService()
		s.AddFunction(Gated, "gated")
		s.AddFunction(Quick, "quick")
		srv, err := tp.Start(kind, s)
		if err != nil {
			panic(err)
		}
		endpoints = append(endpoints, &endpoint{kind, srv})
	}
}

func TestRealServer(t *testing.T) {
	setup()
	ev.Check(t, "real-server", ev.N(600, 24000), func(rt *rapid.T) {
		ep := rapid.SampledFrom(endpoints).Draw(rt, "endpoint")
		n := rapid.IntRange(1, 6).Draw(rt, "pending")
		timeoutMs := rapid.SampledFrom([]int{0, 0, 120, 300, 30000}).Draw(rt, "timeoutMs")
		terminators := []string{"cancel", "abort", "cancel-one"}
		if timeoutMs > 0 && timeoutMs < 30000 {
			terminators = append(terminators, "timeout", "timeout")
		}
		term := rapid.SampledFrom(terminators).Draw(rt, "terminator")
		termAfter := time.Duration(rapid.IntRange(2, 40).Draw(rt, "terminateAfterMs")) * time.Millisecond
		lateRelease := rapid.Bool().Draw(rt, "releaseLater")
		id := atomic.AddInt64(&caseSeq, 1)
		canon := fmt.Sprintf("%s server, client timeout=%dms, %d calls of a slow function pending, terminated by %s, functions complete afterwards=%v fasthttp-client=%v", ep.kind, timeoutMs, n, term, lateRelease, tp.FastHTTPClient())
		ev.S.Begin("real-server", canon)
		for len(arrived) > 0 {
			<-arrived
		}
		client := ep.server.Client(time.Duration(timeoutMs) * time.Millisecond)
		t0 := time.Now()
		calls := make([]*call, n)
		for i := range calls {
			calls[i] = startCall(client, "gated", fmt.Sprintf("t-%d-%d", id, i), t0)
		}
		problem := ""
		got := 0
		wait := time.After(3 * time.Second)
	arrive:
		for got < n {
			select {
			case <-arrived:
				got++
			case <-wait:
				if timeoutMs == 0 {
					problem = fmt.Sprintf("only %d of %d calls reached the service", got, n)
				}
				break arrive
			}
		}
		time.Sleep(termAfter)
		var terminated time.Duration
		switch term {
		case "cancel":
			for _, k := range calls {
				k.cancel()
			}
		case "cancel-one":
			calls[0].cancel()
		case "abort":
			client.Abort()
		}
		terminated = time.Since(t0)
		if term == "cancel-one" {
			// the others are released and must get their answers
			time.Sleep(5 * time.Millisecond)
			for _, k := range calls[1:] {
				release(k.tag)
			}
		}
		for i, k := range calls {
			bound := terminated + prompt
			if term == "timeout" {
				bound = time.Duration(timeoutMs)*time.Millisecond + slack
			}
			if timeoutMs > 0 {
				if tb := time.Duration(timeoutMs)*time.Millisecond + slack; tb < bound {
					bound = tb
				}
			}
			select {
			case o := <-k.done:
				survivor := term == "cancel-one" && i > 0
				switch {
				case survivor && (timeoutMs == 0 || timeoutMs >= 30000):
					if (o.err != nil || o.s != "g:"+k.tag) && problem == "" {
						problem = fmt.Sprintf("call %d, not cancelled and answered, returned %q, %v", i, o.s, o.err)
					}
				case !survivor && o.err == nil && problem == "":
					problem = fmt.Sprintf("call %d (argument %q) returned %q after %v without an error although its function had not completed", i, k.tag, o.s, o.at.Round(time.Millisecond))
				}
				if o.at > bound && problem == "" {
					problem = fmt.Sprintf("call %d returned after %v, later than the %v it had (%v)", i, o.at.Round(time.Millisecond), bound.Round(time.Millisecond), o.err)
				}
			case <-time.After(time.Until(t0.Add(bound + grace))):
				if problem == "" {
					problem = fmt.Sprintf("call %d had not returned %v after it should have (bound %v)", i, grace, bound.Round(time.Millisecond))
				}
				k.cancel()
				client.Abort()
				release(k.tag)
				select {
				case <-k.done:
				case <-time.After(3 * time.Second):
				}
			}
		}
		if lateRelease {
			for _, k := range calls {
				release(k.tag)
			}
			time.Sleep(3 * time.Millisecond)
		}
		if problem == "" {
			deadline := time.Now().Add(time.Second)
			for {
				_, entries := pending(client, ep.kind)
				cf := client.VerifCancelFuncs()
				if entries == 0 && cf == 0 {
					break
				}
				if time.Now().After(deadline) {
					problem = fmt.Sprintf("after all calls returned the transport still holds %d pending-call entries and the client %d cancel functions", entries, cf)
					break
				}
				time.Sleep(5 * time.Millisecond)
			}
		}
		if problem == "" {
			client.Timeout = 3 * time.Second
			k := startCall(client, "quick", fmt.Sprintf("t-%d-after", id), time.Now())
			select {
			case o := <-k.done:
				if o.err != nil || o.s != "q:"+k.tag {
					problem = fmt.Sprintf("the next call on the same client returned %q, %v", o.s, o.err)
				}
			case <-time.After(5 * time.Second):
				problem = "the next call on the same client never returned"
			}
		}
		for _, k := range calls {
			release(k.tag)
		}
		client.Abort()
		gateMu.Lock()
		for _, k := range calls {
			delete(gateMap, k.tag)
		}
		gateMu.Unlock()
		ev.S.Case("real-server", canon, true, "real="+ep.kind, "real-terminator="+term, fmt.Sprintf("real-timeout=%v", timeoutMs > 0))
		report(rt, "real-server", "TestRealServer", canon, problem)
	})
}

// TestNoAccumulation: many rounds of (calls, failure, recovery) on one client; goroutines, pending
// entries and cancel functions must not grow with the number of rounds.
func TestNoAccumulation(t *testing.T) {
	setup()
	rounds := ev.Pick(25, 150)
	k := 0
	for _, ep := range endpoints {
		for _, how := range []string{"abort", "cancel", "timeout"} {
			k++
			if ev.S.NShards > 1 && k%ev.S.NShards != ev.S.Shard {
				continue
			}
			if how == "server-restart" && (ep.kind == "mock" || ep.kind == "udp") {
				continue
			}
			canon := fmt.Sprintf("%s: %d rounds of two pending slow calls ended by %s, each followed by a successful call", ep.kind, rounds, how)
			ev.S.Begin("no-accumulation", canon)
			srv := ep.server
			if how == "server-restart" {
				s := core.NewService()
				s.AddFunction(Gated, "gated")
				s.AddFunction(Quick, "quick")
				var err error
				if srv, err = tp.Start(ep.kind, s); err != nil {
					t.Fatal(err)
				}
			}
			client := srv.Client(0)
			if how == "timeout" {
				client.Timeout = 40 * time.Millisecond
			}
			// warm up, then take the baseline
			startCall(client, "quick", "t-warm", time.Now())
			time.Sleep(30 * time.Millisecond)
			base := settle(runtime.NumGoroutine(), 0)
			problem := ""
			for r := 0; r < rounds && problem == ""; r++ {
				id := atomic.AddInt64(&caseSeq, 1)
				a := startCall(client, "gated", fmt.Sprintf("t-%d-a", id), time.Now())
				b := startCall(client, "gated", fmt.Sprintf("t-%d-b", id), time.Now())
				time.Sleep(3 * time.Millisecond)
				switch how {
				case "abort":
					client.Abort()
				case "cancel":
					a.cancel()
					b.cancel()
				case "server-restart":
					// connection loss: every connection of the server is closed by aborting through a raw reset is not
					// available; closing the listener does not close connections, so use the client's own abort of the socket
					client.Abort()
				}
				for _, c := range []*call{a, b} {
					select {
					case o := <-c.done:
						if o.err == nil {
							problem = fmt.Sprintf("round %d: a call returned %q without an error", r, o.s)
						}
					case <-time.After(4 * time.Second):
						problem = fmt.Sprintf("round %d: a call did not return after %s", r, how)
						client.Abort()
					}
					release(c.tag)
				}
				if problem == "" {
					client.Timeout = 3 * time.Second
					q := startCall(client, "quick", fmt.Sprintf("t-%d-q", id), time.Now())
					select {
					case o := <-q.done:
						if o.err != nil || o.s != "q:"+q.tag {
							problem = fmt.Sprintf("round %d: the call after the failure returned %q, %v", r, o.s, o.err)
						}
					case <-time.After(5 * time.Second):
						problem = fmt.Sprintf("round %d: the call after the failure never returned", r)
					}
					if how == "timeout" {
						client.Timeout = 40 * time.Millisecond
					} else {
						client.Timeout = 0
					}
				}
			}
			if problem == "" {
				time.Sleep(50 * time.Millisecond)
				_, entries := pending(client, ep.kind)
				if cf := client.VerifCancelFuncs(); entries != 0 || cf != 0 {
					problem = fmt.Sprintf("after %d rounds the transport holds %d pending-call entries and the client %d cancel functions", rounds, entries, cf)
				}
			}
			if problem == "" {
				// one connection's worth of goroutines may remain (client and server side); growth with the rounds may not
				allowance := 12
				if n := settle(base+allowance, 4*time.Second); n > base+allowance {
					problem = fmt.Sprintf("%d goroutines before, %d after %d rounds: they accumulate (%s)", base, n, rounds, leakReport(base+allowance))
				}
			}
			client.Abort()
			if how == "server-restart" {
				srv.Close()
			}
			ev.S.Case("no-accumulation", canon, true, "accumulation="+ep.kind+"/"+how)
			report(t, "no-accumulation", "TestNoAccumulation", canon, problem)
		}
	}
}

// ---- forced interleavings with the verif yield points

// TestForcedRaces: a call is held at a yield point of conn.Transport while the connection is lost,
// the client aborted or the context cancelled, then let go.
func TestForcedRaces(t *testing.T) {
	points := []string{"transport.beforeStore", "transport.afterStore"}
	events := []string{"connection-lost", "abort", "cancel"}
	k := 0
	rounds := ev.Pick(1, 8)
	for round := 0; round < rounds; round++ {
		for _, kind := range []string{"tcp", "unix", "ws", "udp"} {
			for _, point := range points {
				for _, event := range events {
					for _, timeoutMs := range []int{0, 300} {
						if kind == "udp" && event == "connection-lost" {
							continue
						}
						k++
						if ev.S.NShards > 1 && k%ev.S.NShards != ev.S.Shard {
							continue
						}
						canon := fmt.Sprintf("%s client timeout=%dms: a call is held at %s while %s happens, then continues (round %d)", kind, timeoutMs, point, event, round)
						ev.S.Begin("forced-races", canon)
						base := settle(runtime.NumGoroutine(), 0)
						p, err := peer.Start(kind)
						if err != nil {
							t.Fatal(err)
						}
						stop := make(chan struct{})
						var answering int32 = 1
						go func() {
							for {
								select {
								case f := <-p.In:
									if atomic.LoadInt32(&answering) == 1 {
										p.Send(peer.Frame{Index: f.Index, Body: respBody("q:" + tagOf(f.Body))})
									}
								case <-stop:
									return
								}
							}
						}()
						client := core.NewClient(p.URL)
						client.Timeout = 3 * time.Second
						problem := ""
						// a first call establishes the connection
						w := startCall(client, "quick", "t-warm", time.Now())
						if o := <-w.done; o.err != nil {
							problem = "harness: warm-up call failed: " + o.err.Error()
						}
						client.Timeout = time.Duration(timeoutMs) * time.Millisecond
						var armed int32 = 1
						reached, resume, cleaned := make(chan struct{}, 4), make(chan struct{}), make(chan struct{}, 4)
						setHook(kind, func(pt string) {
							if pt == point && atomic.CompareAndSwapInt32(&armed, 1, 0) {
								reached <- struct{}{}
								<-resume
							}
							if pt == "close.afterClean" {
								select {
								case cleaned <- struct{}{}:
								default:
								}
							}
						})
						t0 := time.Now()
						x := startCall(client, "quick", "t-x", t0)
						var happened time.Duration
						if problem == "" {
							select {
							case <-reached:
							case <-time.After(3 * time.Second):
								problem = "harness: the call never reached the yield point"
							}
						}
						if problem == "" {
							switch event {
							case "connection-lost":
								atomic.StoreInt32(&answering, 0)
								p.Drop()
								select {
								case <-cleaned:
								case <-time.After(3 * time.Second):
									problem = "harness: the client never noticed the lost connection"
								}
							case "abort":
								atomic.StoreInt32(&answering, 0)
								client.Abort()
							case "cancel":
								atomic.StoreInt32(&answering, 0)
								x.cancel()
							}
							happened = time.Since(t0)
						}
						close(resume)
						setHook(kind, nil)
						if problem == "" {
							bound := happened + prompt
							select {
							case o := <-x.done:
								if o.err == nil {
									problem = fmt.Sprintf("the call returned %q without an error although %s happened before it was sent", o.s, event)
								} else if o.at > bound {
									problem = fmt.Sprintf("the call returned after %v, %s had happened at %v (%v)", o.at.Round(time.Millisecond), event, happened.Round(time.Millisecond), o.err)
								}
							case <-time.After(time.Until(t0.Add(bound + grace))):
								what := "never (no timeout is set)"
								if timeoutMs > 0 {
									what = fmt.Sprintf("only by its %dms timeout at best", timeoutMs)
								}
								problem = fmt.Sprintf("the call was still pending %v after %s; it would return %s", (prompt + grace).Round(time.Second), event, what)
								x.cancel()
								client.Abort()
								select {
								case <-x.done:
								case <-time.After(3 * time.Second):
								}
							}
						} else {
							x.cancel()
						}
						if problem == "" {
							time.Sleep(20 * time.Millisecond)
							_, entries := pending(client, kind)
							if cf := client.VerifCancelFuncs(); entries != 0 || cf != 0 {
								problem = fmt.Sprintf("afterwards the transport holds %d pending-call entries and the client %d cancel functions", entries, cf)
							}
						}
						if problem == "" {
							atomic.StoreInt32(&answering, 1)
							client.Timeout = 3 * time.Second
							q := startCall(client, "quick", "t-after", time.Now())
							select {
							case o := <-q.done:
								if o.err != nil || o.s != "q:t-after" {
									problem = fmt.Sprintf("the next call on the same client returned %q, %v", o.s, o.err)
								}
							case <-time.After(5 * time.Second):
								problem = "the next call on the same client never returned"
							}
						}
						close(stop)
						client.Abort()
						p.Close()
						if problem == "" {
							problem = leakReport(base)
						}
						if strings.HasPrefix(problem, "harness:") {
							ev.S.Class("forced-not-reached", 1)
							problem = ""
						}
						ev.S.Case("forced-races", canon, true, "forced="+kind+"/"+point+"/"+event)
						report(t, "forced-races", "TestForcedRaces", canon, problem)
					}
				}
			}
		}
	}
}

// TestStalledSender: the peer stops reading; a large request blocks the client's sender, a second call
// queues behind it; then the connection is reset or the client aborted.
func TestStalledSender(t *testing.T) {
	k := 0
	for _, kind := range []string{"tcp", "unix", "ws"} {
		for _, event := range []string{"reset", "abort", "cancel"} {
			for _, timeoutMs := range []int{0, 400} {
				k++
				if ev.S.NShards > 1 && k%ev.S.NShards != ev.S.Shard {
					continue
				}
				canon := fmt.Sprintf("%s client timeout=%dms: peer stops reading, a 16 MiB call blocks the sender, two more calls queue behind it, then %s", kind, timeoutMs, event)
				ev.S.Begin("stalled-sender", canon)
				base := settle(runtime.NumGoroutine(), 0)
				p, err := peer.Start(kind)
				if err != nil {
					t.Fatal(err)
				}
				p.Pause()
				client := core.NewClient(p.URL)
				client.Timeout = time.Duration(timeoutMs) * time.Millisecond
				t0 := time.Now()
				var stored int32
				setHook(kind, func(pt string) {
					if pt == "transport.afterStore" {
						atomic.AddInt32(&stored, 1)
					}
				})
				waitStored := func(n int32) {
					for deadline := time.Now().Add(5 * time.Second); atomic.LoadInt32(&stored) < n && time.Now().Before(deadline); {
						time.Sleep(time.Millisecond)
					}
				}
				big := startCall(client, "quick", "t-big"+strings.Repeat("x", 16<<20), t0)
				waitStored(1) // the big call is registered; give the sender time to block in its write
				time.Sleep(60 * time.Millisecond)
				q1 := startCall(client, "quick", "t-q1", t0)
				q2 := startCall(client, "quick", "t-q2", t0)
				waitStored(3)
				time.Sleep(10 * time.Millisecond)
				setHook(kind, nil)
				switch event {
				case "reset":
					if kind == "unix" {
						p.Drop()
					} else {
						p.Reset()
					}
				case "abort":
					client.Abort()
				case "cancel":
					big.cancel()
					q1.cancel()
					q2.cancel()
				}
				happened := time.Since(t0)
				problem := ""
				for i, c := range []*call{big, q1, q2} {
					bound := happened + prompt
					if timeoutMs > 0 {
						if tb := time.Duration(timeoutMs)*time.Millisecond + slack; tb < bound {
							bound = tb
						}
					}
					select {
					case o := <-c.done:
						if o.err == nil && problem == "" {
							problem = fmt.Sprintf("call %d returned without an error", i)
						} else if o.at > bound && problem == "" {
							problem = fmt.Sprintf("call %d returned after %v, %s had happened at %v", i, o.at.Round(time.Millisecond), event, happened.Round(time.Millisecond))
						}
					case <-time.After(time.Until(t0.Add(bound + grace))):
						if problem == "" {
							problem = fmt.Sprintf("call %d (queued behind a blocked sender) was still pending %v after %s", i, (prompt + grace).Round(time.Second), event)
						}
						c.cancel()
						client.Abort()
						select {
						case <-c.done:
						case <-time.After(3 * time.Second):
						}
					}
				}
				p.Resume()
				client.Abort()
				p.Close()
				if problem == "" {
					problem = leakReport(base)
				}
				ev.S.Case("stalled-sender", canon, true, "stalled="+kind+"/"+event)
				report(t, "stalled-sender", "TestStalledSender", canon, problem)
			}
		}
	}
}

// ---- http: a raw listener that misbehaves

type httpBehaviour struct {
	name     string
	lost     bool
	answered bool
	keep     bool // a complete response was sent: the connection stays open for the next request
	do       func(c net.Conn, body []byte)
}

func httpBehaviours() []httpBehaviour {
	ok := func(c net.Conn, payload []byte) {
		fmt.Fprintf(c, "HTTP/1.1 200 OK\r\nContent-Type: text/plain\r\nContent-Length: %d\r\n\r\n", len(payload))
		c.Write(payload)
	}
	return []httpBehaviour{
		{name: "answers", answered: true, do: func(c net.Conn, body []byte) { ok(c, respBody("q:"+tagOf(body))) }},
		{name: "stays silent", do: func(c net.Conn, body []byte) { time.Sleep(5 * time.Second) }},
		{name: "closes without answering", lost: true, do: func(c net.Conn, body []byte) { c.Close() }},
		{name: "resets without answering", lost: true, do: func(c net.Conn, body []byte) { c.(*net.TCPConn).SetLinger(0); c.Close() }},
		{name: "sends half a status line and stays silent", do: func(c net.Conn, body []byte) { c.Write([]byte("HTTP/1.1 2")); time.Sleep(5 * time.Second) }},
		{name: "sends headers announcing 100 bytes, 10 bytes, silence", do: func(c net.Conn, body []byte) {
			c.Write([]byte("HTTP/1.1 200 OK\r\nContent-Length: 100\r\n\r\n0123456789"))
			time.Sleep(5 * time.Second)
		}},
		{name: "sends headers announcing 100 bytes, 10 bytes, close", lost: true, do: func(c net.Conn, body []byte) {
			c.Write([]byte("HTTP/1.1 200 OK\r\nContent-Length: 100\r\n\r\n0123456789"))
			c.Close()
		}},
		{name: "sends garbage", lost: true, do: func(c net.Conn, body []byte) { c.Write(echo.Gen(7, 300)); c.Close() }},
		{name: "answers 500", lost: true, keep: true, do: func(c net.Conn, body []byte) {
			c.Write([]byte("HTTP/1.1 500 Internal Server Error\r\nContent-Length: 0\r\n\r\n"))
		}},
		{name: "answers 200 with an undecodable body", lost: true, keep: true, do: func(c net.Conn, body []byte) { ok(c, echo.Gen(9, 40)) }},
	}
}

type httpPeer struct {
	ln   net.Listener
	mode atomic.Value // httpBehaviour
}

func startHTTPPeer() *httpPeer {
	ln, err := net.Listen("tcp", "127.0.0.1:0")
	for try := 0; err != nil && tp.ResourceError(err) && try < 40; try++ {
		time.Sleep(250 * time.Millisecond)
		ln, err = net.Listen("tcp", "127.0.0.1:0")
	}
	if err != nil {
		panic(err)
	}
	p := &httpPeer{ln: ln}
	go func() {
		for {
			c, err := ln.Accept()
			if err != nil {
				return
			}
			go func() {
				defer c.Close()
				br := bufio.NewReader(c)
				for {
					req, err := http.ReadRequest(br)
					if err != nil {
						return
					}
					body, _ := io.ReadAll(req.Body)
					b := p.mode.Load().(httpBehaviour)
					b.do(c, body)
					if !b.answered && !b.keep {
						return
					}
				}
			}()
		}
	}()
	return p
}

func TestHTTPPeerFaults(t *testing.T) {
	hbs := httpBehaviours()
	ev.Check(t, "http-peer-faults", ev.N(300, 8000), func(rt *rapid.T) {
		b := hbs[rapid.IntRange(0, len(hbs)-1).Draw(rt, "behaviour")]
		n := rapid.IntRange(1, 3).Draw(rt, "pending")
		// 30 s stands for "a timeout that is far away": the call must be ended by cancel or abort, not wait for it
		timeoutMs := rapid.SampledFrom([]int{0, 0, 120, 300, 30000}).Draw(rt, "timeoutMs")
		terminators := []string{"cancel", "abort"}
		if timeoutMs > 0 && timeoutMs < 30000 {
			terminators = append(terminators, "timeout", "timeout")
		}
		term := rapid.SampledFrom(terminators).Draw(rt, "terminator")
		termAfter := time.Duration(rapid.IntRange(5, 60).Draw(rt, "terminateAfterMs")) * time.Millisecond
		id := atomic.AddInt64(&caseSeq, 1)
		canon := fmt.Sprintf("http client (fasthttp=%v) timeout=%dms, %d calls pending, server %s; terminated by %s; caller context %s", tp.FastHTTPClient(), timeoutMs, n, b.name, term, drawCallerMode(rt))
		defer func() { callerMode = "plain" }()
		ev.S.Begin("http-peer-faults", canon)
		p := startHTTPPeer()
		p.mode.Store(b)
		_ = tp.Kinds // make sure transports are registered
		client := core.NewClient("http://" + p.ln.Addr().String() + "/")
		client.Timeout = time.Duration(timeoutMs) * time.Millisecond
		t0 := time.Now()
		calls := make([]*call, n)
		for i := range calls {
			calls[i] = startCall(client, "quick", fmt.Sprintf("t-%d-%d", id, i), t0)
		}
		var terminated time.Duration
		if !(b.lost || b.answered) {
			time.Sleep(termAfter)
			switch term {
			case "cancel":
				for _, k := range calls {
					k.cancel()
				}
			case "abort":
				client.Abort()
			}
			terminated = time.Since(t0)
		}
		problem := ""
		for i, k := range calls {
			var bound time.Duration
			switch {
			case b.lost || b.answered:
				bound = prompt
			case term == "timeout":
				bound = time.Duration(timeoutMs)*time.Millisecond + slack
			default:
				bound = terminated + prompt
			}
			if timeoutMs > 0 {
				if tb := time.Duration(timeoutMs)*time.Millisecond + slack; tb < bound {
					bound = tb
				}
			}
			select {
			case o := <-k.done:
				if b.answered {
					if timeoutMs > 0 && o.err != nil && timeoutLike(o.err) {
						// a short client timeout may expire first on a loaded machine
					} else if (o.err != nil || o.s != "q:"+k.tag) && problem == "" {
						problem = fmt.Sprintf("call %d was answered properly and returned %q, %v", i, o.s, o.err)
					}
				} else if o.err == nil && problem == "" {
					problem = fmt.Sprintf("call %d returned %q without an error although the server %s", i, o.s, b.name)
				}
				if o.at > bound && problem == "" {
					problem = fmt.Sprintf("call %d returned after %v, later than the %v it had (%v)", i, o.at.Round(time.Millisecond), bound.Round(time.Millisecond), o.err)
				}
			case <-time.After(time.Until(t0.Add(bound + grace))):
				if problem == "" {
					problem = fmt.Sprintf("call %d had not returned %v after it should have (bound %v)", i, grace, bound.Round(time.Millisecond))
				}
				k.cancel()
				client.Abort()
				select {
				case <-k.done:
				case <-time.After(6 * time.Second):
				}
			}
		}
		if problem == "" {
			if cf := client.VerifCancelFuncs(); cf != 0 {
				problem = fmt.Sprintf("after all calls returned the client holds %d cancel functions", cf)
			}
		}
		if problem == "" {
			p.mode.Store(hbs[0])
			client.Timeout = 3 * time.Second
			k := startCall(client, "quick", fmt.Sprintf("t-%d-after", id), time.Now())
			select {
			case o := <-k.done:
				if o.err != nil || o.s != "q:"+k.tag {
					problem = fmt.Sprintf("the next call on the same client returned %q, %v", o.s, o.err)
				}
			case <-time.After(5 * time.Second):
				problem = "the next call on the same client never returned"
			}
		}
		client.Abort()
		p.ln.Close()
		ev.S.Case("http-peer-faults", canon, !b.answered, "http-peer="+b.name, "http-terminator="+term, "caller-context="+callerMode)
		report(rt, "http-peer-faults", "TestHTTPPeerFaults", canon, problem)
	})
}

// TestServiceTimeoutPlugin: the ExecuteTimeout plugin bounds a slow function on the service side; the
// caller gets a timeout error at about that time and later calls succeed.
func TestServiceTimeoutPlugin(t *testing.T) {
	k := 0
	for _, kind := range tp.Kinds {
		for _, ms := range []int{30, 120} {
			k++
			if ev.S.NShards > 1 && k%ev.S.NShards != ev.S.Shard {
				continue
			}
			canon := fmt.Sprintf("%s service with ExecuteTimeout of %dms, slow function, client without timeout", kind, ms)
			ev.S.Begin("service-timeout", canon)
			s := core.NewService()
			s.AddFunction(Gated, "gated")
			s.AddFunction(Quick, "quick")
			s.Use(timeout.New(time.Duration(ms) * time.Millisecond))
			srv, err := tp.Start(kind, s)
			if err != nil {
				t.Fatal(err)
			}
			client := srv.Client(0)
			id := atomic.AddInt64(&caseSeq, 1)
			base := settle(0, 0)
			base = settle(base, 0)
			// first a few more calls that overrun the deadline and whose functions return later: nothing of
			// them may stay behind
			var extra []*call
			for e := 0; e < 6; e++ {
				extra = append(extra, startCall(client, "gated", fmt.Sprintf("t-%d-e%d", id, e), time.Now()))
			}
			for _, e := range extra {
				select {
				case <-e.done:
				case <-time.After(time.Duration(ms)*time.Millisecond + 3*time.Second):
				}
			}
			for _, e := range extra {
				release(e.tag)
			}
			t0 := time.Now()
			x := startCall(client, "gated", fmt.Sprintf("t-%d-x", id), t0)
			problem := ""
			select {
			case o := <-x.done:
				if o.err == nil || !strings.Contains(o.err.Error(), "timeout") {
					problem = fmt.Sprintf("the slow call returned %q, %v instead of a timeout error", o.s, o.err)
				} else if o.at > time.Duration(ms)*time.Millisecond+slack {
					problem = fmt.Sprintf("the timeout error arrived after %v", o.at.Round(time.Millisecond))
				}
			case <-time.After(time.Duration(ms)*time.Millisecond + 3*time.Second):
				problem = "the slow call never returned although the service has an execute timeout"
				x.cancel()
			}
			release(x.tag)
			if problem == "" {
				q := startCall(client, "quick", fmt.Sprintf("t-%d-q", id), time.Now())
				select {
				case o := <-q.done:
					if o.err != nil || o.s != "q:"+q.tag {
						problem = fmt.Sprintf("the next call returned %q, %v", o.s, o.err)
					}
				case <-time.After(4 * time.Second):
					problem = "the next call never returned"
				}
			}
			client.Abort()
			srv.Close()
			if problem == "" {
				if p := leakReport(base); p != "" {
					problem = "after calls that overran the execute timeout and whose functions returned later: " + p
				}
			}
			ev.S.Case("service-timeout", canon, true, "service-timeout="+kind)
			report(t, "service-timeout", "TestServiceTimeoutPlugin", canon, problem)
		}
	}
}

func TestFinding(t *testing.T) {
	t.Skip("no open finding " + ev.FindingKey())
}
