// C14 — serialization is safe under concurrency; pooled coders leak no state.
package c14

import (
	"bytes"
	"fmt"
	"os"
	"reflect"
	"sort"
	"strings"
	"sync"
	"testing"
	"time"

	hio "github.com/hprose/hprose-golang/v3/io"
	"github.com/hprose/hprose-golang/v3/rpc/core"
	"pgregory.net/rapid"
	"verif/hp/ev"
	"verif/hp/fam"
	"verif/hp/ref"
	"verif/hp/uni"
)

func TestMain(m *testing.M) {
	time.Local = time.FixedZone("VERIF", 8*3600)
	ev.Main(m, "C14")
}

// ---------------------------------------------------------------- (a) first use under concurrency

// expectedOut / expectedRec / expectedIn: the bytes a family member must produce, computed from the family
// index alone (the families are isomorphic), i.e. what the call would produce alone.
func cls(name string, fields ...string) string {
	var b strings.Builder
	fmt.Fprintf(&b, `c%d"%s"%d{`, len(name), name, len(fields))
	for _, f := range fields {
		fmt.Fprintf(&b, `s%d"%s"`, len(f), f)
	}
	b.WriteString("}")
	return b.String()
}

func str(s string) string {
	switch len(s) {
	case 0:
		return "e"
	case 1:
		return "u" + s
	}
	return fmt.Sprintf(`s%d"%s"`, len(s), s)
}

func num(n int) string {
	if n >= 0 && n <= 9 {
		return fmt.Sprint(n)
	}
	return fmt.Sprintf("i%d;", n)
}

// simple mode (no references): Out{X: In{a,s}, P: &In{a+1, s+s}, L: []In{{a+2,s},{a+3,"l"}}, N: s}
func expectedOut(i, a int, s string) string {
	in := fmt.Sprintf("In%d", i)
	out := fmt.Sprintf("Out%d", i)
	return cls(out, "x", "p", "l", "n") + "o0{" + cls(in, "a", "s") + "o1{" + num(a) + str(s) + "}" + "o1{" + num(a+1) + str(s+s) + "}" +
		"a2{o1{" + num(a+2) + str(s) + "}o1{" + num(a+3) + "ul}}" + str(s) + "}"
}

func expectedRec(i, v int) string {
	r := fmt.Sprintf("Rec%d", i)
	return cls(r, "v", "next") + "o0{" + num(v) + "o0{" + num(v+1) + "n}}"
}

func expectedIn(i, a int, s string) string {
	return cls(fmt.Sprintf("In%d", i), "a", "s") + "o0{" + num(a) + str(s) + "}"
}

var familyCursor int
var familyMu sync.Mutex

// nextFamily hands out each family at most once per process, striped over the shards.
func nextFamily() (fam.Family, bool) {
	familyMu.Lock()
	defer familyMu.Unlock()
	for familyCursor < len(fam.Families) {
		f := fam.Families[familyCursor]
		familyCursor++
		if f.Index%ev.S.NShards == ev.S.Shard {
			return f, true
		}
	}
	return fam.Family{}, false
}

func TestFirstUseConcurrent(t *testing.T) {
	used := 0
	for {
		f, ok := nextFamily()
		if !ok {
			break
		}
		used++
		g := []int{2, 4, 8, 3}[used%4]
		canon := fmt.Sprintf("family %d with %d goroutines", f.Index, g)
		ev.S.Begin("first-use", canon)
		a, s := 3+f.Index%5, []string{"ab", "x", "", "hello"}[f.Index%4]
		wantOut, wantRec, wantIn := expectedOut(f.Index, a, s), expectedRec(f.Index, a), expectedIn(f.Index, a, s)
		var wg sync.WaitGroup
		start := make(chan struct{})
		problems := make([]string, g)
		for k := 0; k < g; k++ {
			wg.Add(1)
			go func(k int) {
				defer wg.Done()
				defer func() {
					if e := recover(); e != nil {
						problems[k] = fmt.Sprintf("goroutine %d panicked: %v", k, e)
					}
				}()
				<-start
				// mix the nesting type, the nested type and the recursive type; encode and decode
				switch k % 4 {
				case 0:
					b, err := hio.Marshal(f.NewOut(a, s))
					if err != nil || string(b) != wantOut {
						problems[k] = fmt.Sprintf("Marshal(Out) gave %q err=%v, alone it gives %q", b, err, wantOut)
					}
				case 1:
					p := reflect.New(f.Out)
					err := hio.Unmarshal([]byte(wantOut), p.Interface())
					if want := reflect.ValueOf(f.NewOut(a, s)).Elem(); err != nil || !ref.Equal(uni.FromGo(want), uni.FromGo(p.Elem())) {
						problems[k] = fmt.Sprintf("Unmarshal(Out) gave %s err=%v, alone it gives %s", uni.FromGo(p.Elem()), err, uni.FromGo(want))
					}
				case 2:
					b, err := hio.Marshal(f.NewIn(a, s))
					if err != nil || string(b) != wantIn {
						problems[k] = fmt.Sprintf("Marshal(In) gave %q err=%v, alone it gives %q", b, err, wantIn)
					}
					b, err = hio.Marshal(f.NewRec(a))
					if err != nil || string(b) != wantRec {
						problems[k] = fmt.Sprintf("Marshal(Rec) gave %q err=%v, alone it gives %q", b, err, wantRec)
					}
				default:
					p := reflect.New(f.Rec)
					err := hio.Unmarshal([]byte(wantRec), p.Interface())
					if want := reflect.ValueOf(f.NewRec(a)).Elem(); err != nil || !ref.Equal(uni.FromGo(want), uni.FromGo(p.Elem())) {
						problems[k] = fmt.Sprintf("Unmarshal(Rec) gave %s err=%v, alone it gives %s", uni.FromGo(p.Elem()), err, uni.FromGo(want))
					}
					b, err := hio.Marshal(f.NewOut(a, s))
					if err != nil || string(b) != wantOut {
						problems[k] = fmt.Sprintf("Marshal(Out) gave %q err=%v, alone it gives %q", b, err, wantOut)
					}
				}
			}(k)
		}
		close(start)
		wg.Wait()
		ev.S.Case("first-use", canon, true, fmt.Sprintf("goroutines=%d", g))
		for _, p := range problems {
			if p != "" {
				if os.Getenv("VERIF_TRIAGE") != "" {
					fmt.Printf("TRIAGE %s | %s\n", p, canon)
					break
				}
				ev.S.Violation("first-use", "TestFirstUseConcurrent", canon, p, nil)
				t.Fatalf("%s\n=> %s", canon, p)
			}
		}
	}
	ev.S.Note("families_used_first_time", used)
}

// TestTemplateAlone pins the expected bytes to what the library produces single-threaded (family 0 of this
// shard is consumed here, before any concurrency, so a wrong template is a harness error, not a finding).
func TestATemplateAlone(t *testing.T) {
	f, ok := nextFamily()
	if !ok {
		t.Skip("no family left")
	}
	b, err := hio.Marshal(f.NewOut(7, "ab"))
	if err != nil || string(b) != expectedOut(f.Index, 7, "ab") {
		t.Fatalf("harness template wrong: library %q, template %q (err %v)", b, expectedOut(f.Index, 7, "ab"), err)
	}
	b, _ = hio.Marshal(f.NewRec(12))
	if string(b) != expectedRec(f.Index, 12) {
		t.Fatalf("harness template wrong: library %q, template %q", b, expectedRec(f.Index, 12))
	}
	b, _ = hio.Marshal(f.NewIn(3, ""))
	if string(b) != expectedIn(f.Index, 3, "") {
		t.Fatalf("harness template wrong: library %q, template %q", b, expectedIn(f.Index, 3, ""))
	}
}

// ---------------------------------------------------------------- (b) no aliasing of the input buffer or pooled coders

var aliasTypes = []reflect.Type{
	reflect.TypeOf(""), reflect.TypeOf([]string(nil)), reflect.TypeOf([]byte(nil)), reflect.TypeOf([][]byte(nil)), reflect.TypeOf(map[string]string(nil)), reflect.TypeOf(map[string][]byte(nil)),
	uni.TIface, reflect.TypeOf([]interface{}(nil)), reflect.TypeOf(map[string]interface{}(nil)), reflect.TypeOf(uni.Plain{}), reflect.TypeOf(uni.Tagged{}), reflect.TypeOf(uni.AllSlices{}),
	reflect.TypeOf(uni.AllNamed{}), reflect.TypeOf(uni.WithIface{}), reflect.TypeOf(uni.WithTime{}), reflect.TypeOf(uni.Tree{}), reflect.TypeOf([]uni.Plain(nil)), reflect.TypeOf(uni.MyString("")),
	reflect.TypeOf(uni.MyBytes(nil)), reflect.TypeOf([4]byte{}), uni.TBigIntP, uni.TBigRatP, reflect.TypeOf([]*string(nil)), reflect.TypeOf(map[uni.MyString]uni.MyBytes(nil)),
}

func churn() {
	// unrelated traffic that recycles pooled encoders and decoders and their buffers
	for i := 0; i < 20; i++ {
		b, _ := hio.Formatter{Simple: i%2 == 0}.Marshal([]interface{}{strings.Repeat("Z", 300+i), i, map[string]string{"churn": "ZZZZZZZZ"}, []byte(strings.Repeat("Y", 200))})
		var v interface{}
		hio.Formatter{Simple: i%2 == 0}.Unmarshal(b, &v)
		var s []string
		hio.Formatter{Simple: false}.UnmarshalFromReader(strings.NewReader(`a2{s3"QQQ"r1;}`), &s)
	}
}

func TestNoAliasing(t *testing.T) {
	ev.Check(t, "aliasing", ev.N(15000, 300000), func(rt *rapid.T) {
		typ := rapid.SampledFrom(aliasTypes).Draw(rt, "type")
		v := uni.Gen(rt, typ, 3, uni.Opts{NoBadYears: true, MaxLen: 4})
		simple := rapid.Bool().Draw(rt, "simple")
		entry := rapid.SampledFrom([]string{"unmarshal", "reader", "decoder", "pooled-decoder"}).Draw(rt, "entry")
		wire, err := hio.Formatter{Simple: simple}.Marshal(v.Interface())
		if err != nil {
			rt.Skip("cannot encode")
		}
		canon := fmt.Sprintf("%s simple=%v entry=%s wire=%q", typ, simple, entry, trunc(string(wire), 300))
		ev.S.Begin("aliasing", canon)
		buf := append([]byte{}, wire...)
		p := reflect.New(typ)
		var derr error
		switch entry {
		case "unmarshal":
			derr = hio.Formatter{Simple: simple}.Unmarshal(buf, p.Interface())
		case "reader":
			derr = hio.Formatter{Simple: simple}.UnmarshalFromReader(bytes.NewReader(buf), p.Interface())
		case "decoder":
			dec := hio.NewDecoder(buf).Simple(simple)
			dec.Decode(p.Interface())
			derr = dec.Error
		default:
			dec := hio.GetDecoder().Simple(simple).ResetBytes(buf)
			dec.Decode(p.Interface())
			derr = dec.Error
			hio.FreeDecoder(dec)
		}
		if derr != nil {
			rt.Skip("decode failed (C01's business)")
		}
		before := uni.FromGo(p.Elem()).String()
		for i := range buf {
			buf[i] = 0xAA
		}
		churn()
		after := uni.FromGo(p.Elem()).String()
		hasBytes := strings.ContainsAny(string(wire), "sbu")
		ev.S.Case("aliasing", canon, hasBytes, "entry="+entry)
		if before != after {
			problem := fmt.Sprintf("the decoded value changed after the input buffer was overwritten and pooled coders were reused:\n before %s\n after  %s", trunc(before, 600), trunc(after, 600))
			if os.Getenv("VERIF_TRIAGE") != "" {
				fmt.Printf("TRIAGE %s | %s\n", strings.ReplaceAll(problem, "\n", " // "), canon)
				return
			}
			ev.S.Violation("aliasing", "TestNoAliasing", canon, problem, nil)
			rt.Fatalf("%s\n=> %s", canon, problem)
		}
	})
}

func trunc(s string, n int) string {
	if len(s) > n {
		return s[:n] + "…"
	}
	return s
}

// ---------------------------------------------------------------- (c) pool hygiene, model-based

// Every operation is performed with pooled coders and, as the model, with brand-new ones; results must agree.
func TestPoolHygiene(t *testing.T) {
	inputs := []string{`s5"hello"`, `a2{s2"ab"r1;}`, `a2{s2"ab"r5;}`, `a3{1`, `m1{s1"k"a2{s2"xy"r3;}}`, `c5"Plain"3{s1"a"s1"b"s1"c"}o0{7s2"xy"d1.5;}`, `o0{1}`, `r0;`, `a2{c5"Plain"3{s1"a"s1"b"s1"c"}o0{7s2"xy"d1.5;}o0{8r5;d2.5;}}`, `i12`, `zzz`, `a2{s3"abc"s3"abc"}`}
	values := []interface{}{"hello", []string{"ab", "ab", "cd", "ab"}, map[string]interface{}{"k": []string{"xy", "xy"}}, uni.Plain{A: 1, B: "bb", C: 2}, []*uni.Plain{{A: 1, B: "p"}, {A: 1, B: "p"}}, 12345, []interface{}{"s", "s", 1.5},
		// encodes that fail (an unsupported member, a year the format cannot hold), with little and with much output
		// before the failure, and a large one that succeeds: the next user of the pooled encoder must not notice
		[]interface{}{"x", make(chan int)},
		[]interface{}{strings.Repeat("y", 70000), make(chan int)},
		strings.Repeat("z", 70000),
		[]interface{}{strings.Repeat("w", 200000), time.Date(10000, 1, 1, 0, 0, 0, 0, time.UTC)},
		[]interface{}{"v", func() {}},
	}
	failing := map[int]bool{7: true, 8: true, 10: true, 11: true}
	service := core.NewService()
	service.AddFunction(func(a, b string) string { return a + b }, "cat")
	ev.Steps(ev.Pick(40, 80))
	ev.Check(t, "pool-hygiene", ev.N(3000, 60000), func(rt *rapid.T) {
		var hist []string
		afterBad := false
		interesting := false
		desc := func() string { return strings.Join(hist, " ; ") }
		fail := func(msg string) {
			if os.Getenv("VERIF_TRIAGE") != "" {
				fmt.Printf("TRIAGE %s | %s\n", msg, desc())
				return
			}
			ev.S.Violation("pool-hygiene", "TestPoolHygiene", desc(), msg, nil)
			rt.Fatalf("%s\n=> %s", desc(), msg)
		}
		rt.Repeat(map[string]func(*rapid.T){
			"decode": func(rt *rapid.T) {
				in := rapid.SampledFrom(inputs).Draw(rt, "input")
				simple := rapid.Bool().Draw(rt, "simple")
				lt := rapid.IntRange(0, 4).Draw(rt, "long")
				// the other decoder settings: left alone (the defaults must be in force, whatever the previous
				// user of the pooled decoder chose) or set to generated values
				setAll := rapid.Bool().Draw(rt, "setEverySetting")
				rtp, mt, st, lst := 0, 0, 0, 0
				if setAll {
					rtp, mt, st, lst = rapid.IntRange(0, 2).Draw(rt, "real"), rapid.IntRange(0, 1).Draw(rt, "map"), rapid.IntRange(0, 1).Draw(rt, "struct"), rapid.IntRange(0, 1).Draw(rt, "list")
				}
				hist = append(hist, fmt.Sprintf("decode(%q,simple=%v,long=%d,set=%v real=%d map=%d struct=%d list=%d)", in, simple, lt, setAll, rtp, mt, st, lst))
				ev.S.Begin("pool-hygiene", desc())
				run := func(dec *hio.Decoder) (string, string) {
					var v interface{}
					p := guard(func() {
						dec.LongType = hio.LongType(lt)
						if setAll {
							dec.RealType, dec.MapType, dec.StructType, dec.ListType = hio.RealType(rtp), hio.MapType(mt), hio.StructType(st), hio.ListType(lst)
						}
						dec.Decode(&v)
					})
					e := fmt.Sprint(dec.Error)
					if p != "" {
						e = "panic"
					}
					return uni.FromGo(reflect.ValueOf(&v).Elem()).String() + " as " + typeShape(reflect.ValueOf(&v).Elem(), 0), e
				}
				pd := hio.GetDecoder().Simple(simple).ResetBytes([]byte(in))
				gv, ge := run(pd)
				hio.FreeDecoder(pd)
				wv, we := run(hio.NewDecoder([]byte(in)).Simple(simple))
				if afterBad {
					interesting = true
				}
				if ge != "<nil>" || !simple {
					afterBad = true
				}
				if gv != wv || ge != we {
					fail(fmt.Sprintf("pooled decoder gave value %s error %s; a brand-new decoder gives value %s error %s", gv, ge, wv, we))
				}
			},
			"encode": func(rt *rapid.T) {
				vi := rapid.IntRange(0, len(values)-1).Draw(rt, "value")
				simple := rapid.Bool().Draw(rt, "simple")
				twice := rapid.Bool().Draw(rt, "twice")
				hist = append(hist, fmt.Sprintf("encode(#%d,simple=%v,twice=%v)", vi, simple, twice))
				ev.S.Begin("pool-hygiene", desc())
				run := func(enc *hio.Encoder) string {
					p := guard(func() {
						enc.Encode(values[vi])
						if twice {
							enc.Encode(values[vi])
						}
					})
					return string(enc.Bytes()) + fmt.Sprint(enc.Error) + p
				}
				pe := hio.GetEncoder().Simple(simple)
				got := run(pe)
				hio.FreeEncoder(pe)
				want := run(new(hio.Encoder).Simple(simple))
				if afterBad {
					interesting = true
				}
				if !simple || failing[vi] {
					afterBad = true
				}
				if got != want {
					if len(got) > 300 {
						got = got[:150] + "…" + got[len(got)-150:]
					}
					if len(want) > 300 {
						want = want[:150] + "…" + want[len(want)-150:]
					}
					fail(fmt.Sprintf("pooled encoder produced %q; a brand-new encoder produces %q", got, want))
				}
				// the package-level entry point uses the pool as well
				data, err := hio.Marshal(values[vi])
				fresh := new(hio.Encoder).Simple(true)
				fresh.Encode(values[vi])
				if fmt.Sprint(err) != fmt.Sprint(fresh.Error) || (err == nil && string(data) != string(fresh.Bytes())) {
					fail(fmt.Sprintf("Marshal returned %d bytes, error %v; a brand-new encoder produces %d bytes, error %v", len(data), err, len(fresh.Bytes()), fresh.Error))
				}
			},
			"rpc": func(rt *rapid.T) {
				simpleHeader := rapid.Bool().Draw(rt, "simpleHeader")
				a := rapid.SampledFrom([]string{"ab", "xyz", "q"}).Draw(rt, "a")
				req := fmt.Sprintf(`Cs3"cat"a2{%s%s}z`, str(a), str(a))
				if len(a) >= 2 && !simpleHeader {
					req = fmt.Sprintf(`Cs3"cat"a2{%sr1;}z`, str(a))
				}
				if simpleHeader {
					req = `Hm1{s6"simple"t}` + req
				}
				hist = append(hist, fmt.Sprintf("rpc(%q)", req))
				ev.S.Begin("pool-hygiene", desc())
				sc := core.NewServiceContext(service)
				var name string
				var args []interface{}
				var err error
				p := guard(func() { name, args, err = core.NewServiceCodec().Decode([]byte(req), sc) })
				if afterBad {
					interesting = true
				}
				afterBad = true
				if p != "" || err != nil || name != "cat" || len(args) != 2 || args[0] != a || args[1] != a {
					fail(fmt.Sprintf("request decoded as name=%q args=%v err=%v panic=%q", name, args, err, p))
				}
				// and a response through the client codec
				resp := fmt.Sprintf(`Ra2{%s%s}z`, str(a), str(a))
				if len(a) >= 2 && !simpleHeader {
					resp = fmt.Sprintf(`Ra2{%sr1;}z`, str(a))
				}
				if simpleHeader {
					resp = `Hm1{s6"simple"t}` + resp
				}
				cc := core.NewClientContext()
				cc.ReturnType = []reflect.Type{reflect.TypeOf(""), reflect.TypeOf("")}
				var res []interface{}
				p = guard(func() { res, err = core.NewClientCodec().Decode([]byte(resp), cc) })
				if p != "" || err != nil || len(res) != 2 || res[0] != a || res[1] != a {
					fail(fmt.Sprintf("response %q decoded as %v err=%v panic=%q", resp, res, err, p))
				}
			},
		})
		ev.S.Case("pool-hygiene", desc(), interesting, "pool")
	})
}

// typeShape spells the Go types a generic decode produced (which the neutral comparison deliberately ignores):
// []int versus []interface{}, T versus *T, map[string]... versus map[interface{}]...
func typeShape(v reflect.Value, depth int) string {
	if depth > 6 || !v.IsValid() {
		return "?"
	}
	switch v.Kind() {
	case reflect.Interface:
		if v.IsNil() {
			return "nil"
		}
		return typeShape(v.Elem(), depth+1)
	case reflect.Ptr:
		if v.IsNil() {
			return "*" + v.Type().Elem().String() + "(nil)"
		}
		return "*" + typeShape(v.Elem(), depth+1)
	case reflect.Slice, reflect.Array:
		if v.Type().Elem().Kind() != reflect.Interface {
			return v.Type().String()
		}
		out := v.Type().String() + "{"
		for i := 0; i < v.Len() && i < 4; i++ {
			out += typeShape(v.Index(i), depth+1) + ","
		}
		return out + "}"
	case reflect.Map:
		if v.Type().Elem().Kind() != reflect.Interface {
			return v.Type().String()
		}
		var parts []string
		for _, k := range v.MapKeys() {
			parts = append(parts, typeShape(v.MapIndex(k), depth+1))
		}
		sort.Strings(parts)
		return v.Type().String() + "{" + strings.Join(parts, ",") + "}"
	}
	return v.Type().String()
}

func guard(f func()) (p string) {
	defer func() {
		if e := recover(); e != nil {
			p = fmt.Sprint(e)
		}
	}()
	f()
	return ""
}

// ---------------------------------------------------------------- concurrent warm use

// TestConcurrentWarm: many goroutines encode and decode warm types at once; each result must be what the call
// produces alone (computed beforehand, single-threaded).
func TestConcurrentWarm(t *testing.T) {
	ev.Check(t, "warm", ev.N(300, 6000), func(rt *rapid.T) {
		n := rapid.IntRange(2, 6).Draw(rt, "values")
		type item struct {
			v      reflect.Value
			simple bool
			wire   []byte
			node   string
		}
		var items []item
		for i := 0; i < n; i++ {
			typ := rapid.SampledFrom(aliasTypes).Draw(rt, "type")
			v := uni.Gen(rt, typ, 3, uni.Opts{NoBadYears: true, MaxLen: 4})
			simple := rapid.Bool().Draw(rt, "simple")
			w, err := hio.Formatter{Simple: simple}.Marshal(v.Interface())
			if err != nil {
				rt.Skip("cannot encode")
			}
			p := reflect.New(typ)
			if (hio.Formatter{Simple: simple}).Unmarshal(w, p.Interface()) != nil {
				rt.Skip("cannot decode")
			}
			items = append(items, item{v, simple, w, uni.FromGo(p.Elem()).String()})
		}
		g := rapid.IntRange(2, 12).Draw(rt, "goroutines")
		canon := fmt.Sprintf("%d goroutines x %d values", g, n)
		ev.S.Begin("warm", canon)
		var wg sync.WaitGroup
		problems := make([]string, g)
		start := make(chan struct{})
		for k := 0; k < g; k++ {
			wg.Add(1)
			go func(k int) {
				defer wg.Done()
				defer func() {
					if e := recover(); e != nil {
						problems[k] = fmt.Sprint("panic: ", e)
					}
				}()
				<-start
				for r := 0; r < 30; r++ {
					it := items[(k+r)%len(items)]
					w, err := hio.Formatter{Simple: it.simple}.Marshal(it.v.Interface())
					// maps are written in iteration order: compare through the decoded form
					p := reflect.New(it.v.Type())
					if err != nil || (hio.Formatter{Simple: it.simple}).Unmarshal(w, p.Interface()) != nil || uni.FromGo(p.Elem()).String() != it.node {
						problems[k] = fmt.Sprintf("concurrent round trip of %s differs from the one done alone", it.v.Type())
						return
					}
				}
			}(k)
		}
		close(start)
		wg.Wait()
		ev.S.Case("warm", canon, true, "warm")
		for _, p := range problems {
			if p != "" {
				ev.S.Violation("warm", "TestConcurrentWarm", canon, p, nil)
				rt.Fatalf("%s: %s", canon, p)
			}
		}
	})
}

func TestFinding(t *testing.T) {
	t.Skip("no open finding " + ev.FindingKey())
}
