package c14

import (
	"fmt"
	"reflect"
	"sync"
	"testing"

	hio "github.com/hprose/hprose-golang/v3/io"
	"pgregory.net/rapid"
	"verif/hp/ev"
	"verif/hp/uni"
)

// TestConcurrentCrossType: the sender writes a slice, the receiver declares an array that is shorter or
// longer than the list (surplus elements are read and dropped, missing ones are zero). The per-type array
// decoders are shared by all goroutines: decoding such messages at once must give what each decode gives
// alone, with the race detector silent, and a value returned earlier must not change when the same
// destination type is decoded again.
var crossElems = []reflect.Type{reflect.TypeOf(0), reflect.TypeOf(""), reflect.TypeOf(uni.Plain{}), reflect.TypeOf((*uni.Plain)(nil)), reflect.TypeOf([]byte(nil)), uni.TIface, reflect.TypeOf(1.5), reflect.TypeOf([]string(nil))}

func TestConcurrentCrossType(t *testing.T) {
	ev.Check(t, "warm-cross", ev.N(300, 6000), func(rt *rapid.T) {
		n := rapid.IntRange(1, 4).Draw(rt, "messages")
		type item struct {
			dst    reflect.Type
			simple bool
			wire   []byte
			node   string
			shape  string
		}
		var items []item
		surplus := false
		for i := 0; i < n; i++ {
			et := rapid.SampledFrom(crossElems).Draw(rt, "elem")
			l := rapid.IntRange(1, 6).Draw(rt, "len")
			src := reflect.MakeSlice(reflect.SliceOf(et), l, l)
			for k := 0; k < l; k++ {
				if k > 0 && rapid.IntRange(0, 3).Draw(rt, "repeat") == 0 {
					src.Index(k).Set(src.Index(rapid.IntRange(0, k-1).Draw(rt, "of"))) // a repeated element: a back-reference in reference mode
				} else {
					src.Index(k).Set(uni.Gen(rt, et, 2, uni.Opts{NoBadYears: true, MaxLen: 3}))
				}
			}
			al := rapid.IntRange(0, l+1).Draw(rt, "arrayLen")
			simple := rapid.Bool().Draw(rt, "simple")
			w, err := hio.Formatter{Simple: simple}.Marshal(src.Interface())
			if err != nil {
				rt.Skip("cannot encode")
			}
			dst := reflect.ArrayOf(al, et)
			p := reflect.New(dst)
			if (hio.Formatter{Simple: simple}).Unmarshal(w, p.Interface()) != nil {
				rt.Skip("cannot decode")
			}
			if al < l {
				surplus = true
			}
			items = append(items, item{dst, simple, w, uni.FromGo(p.Elem()).String(), fmt.Sprintf("[]%s(len %d)->[%d]%s", et, l, al, et)})
		}
		g := rapid.IntRange(2, 12).Draw(rt, "goroutines")
		var shapes []string
		for _, it := range items {
			shapes = append(shapes, it.shape)
		}
		canon := fmt.Sprintf("%d goroutines decoding %v", g, shapes)
		ev.S.Begin("warm-cross", canon)
		// sequentially first: a value handed out must survive later decodes of the same destination type
		kept := make([]reflect.Value, len(items))
		for i, it := range items {
			kept[i] = reflect.New(it.dst)
			(hio.Formatter{Simple: it.simple}).Unmarshal(it.wire, kept[i].Interface())
		}
		problem := ""
		for round := 0; round < 2 && problem == ""; round++ {
			for i, it := range items {
				p := reflect.New(it.dst)
				(hio.Formatter{Simple: it.simple}).Unmarshal(it.wire, p.Interface())
				for j := range items {
					if s := uni.FromGo(kept[j].Elem()).String(); s != items[j].node && problem == "" {
						problem = fmt.Sprintf("the value decoded earlier from message %d (%s) changed to %s when message %d was decoded afterwards", j, items[j].shape, s, i)
					}
				}
			}
		}
		var wg sync.WaitGroup
		problems := make([]string, g)
		start := make(chan struct{})
		for k := 0; k < g && problem == ""; k++ {
			wg.Add(1)
			go func(k int) {
				defer wg.Done()
				defer func() {
					if e := recover(); e != nil {
						problems[k] = fmt.Sprint("panic: ", e)
					}
				}()
				<-start
				for r := 0; r < 30; r++ {
					it := items[(k+r)%len(items)]
					p := reflect.New(it.dst)
					if err := (hio.Formatter{Simple: it.simple}).Unmarshal(it.wire, p.Interface()); err != nil || uni.FromGo(p.Elem()).String() != it.node {
						problems[k] = fmt.Sprintf("concurrent decode %s differs from the one done alone (err %v)", it.shape, err)
						return
					}
				}
			}(k)
		}
		close(start)
		wg.Wait()
		ev.S.Case("warm-cross", canon, surplus, "warm-cross", fmt.Sprintf("warm-cross-surplus=%v", surplus))
		for _, p := range problems {
			if p != "" && problem == "" {
				problem = p
			}
		}
		if problem != "" {
			ev.S.Violation("warm-cross", "TestConcurrentCrossType", canon, problem, nil)
			rt.Fatalf("%s: %s", canon, problem)
		}
	})
}
