// C19 — push delivers each accepted message to its subscriber exactly once, in order.
package c19

import (
	"context"
	"fmt"
	"os"
	"sort"
	"strings"
	"sync"
	"sync/atomic"
	"testing"
	"time"

	_ "github.com/hprose/hprose-golang/v3/rpc"
	"github.com/hprose/hprose-golang/v3/rpc/core"
	"github.com/hprose/hprose-golang/v3/rpc/mock"
	"github.com/hprose/hprose-golang/v3/rpc/plugins/push"
	"pgregory.net/rapid"
	"verif/hp/ev"
)

func TestMain(m *testing.M) { ev.Main(m, "C19") }

type brokerProxy struct {
	Message     func() (map[string][]push.Message, error)                                   `name:"<"`
	MessageCtx  func(ctx context.Context) (map[string][]push.Message, error)                `name:"<"`
	Subscribe   func(topic string) (bool, error)                                            `name:"+"`
	Unsubscribe func(topic string) (bool, error)                                            `name:"-"`
	Unicast     func(data interface{}, topic string, id string) (bool, error)               `name:">"`
	Multicast   func(data interface{}, topic string, ids []string) (map[string]bool, error) `name:">?"`
	Broadcast   func(data interface{}, topic string) (map[string]bool, error)               `name:">*"`
}

type left struct {
	id, topic string
	tokens    []string
}

type rig struct {
	broker  *push.Broker
	server  mock.Server
	clients map[string]*brokerProxy
	mu      sync.Mutex
	lefts   []left // what OnUnsubscribe was handed
}

var rigSeq int64

func newRig(pollTimeout time.Duration, ids []string) *rig {
	addr := fmt.Sprintf("c19-%d", atomic.AddInt64(&rigSeq, 1))
	r := &rig{clients: map[string]*brokerProxy{}}
	r.broker = push.NewBroker(core.NewService())
	r.broker.Timeout = pollTimeout
	r.broker.HeartBeat = 0
	r.broker.OnUnsubscribe = func(ctx context.Context, id string, topic string, messages []push.Message) {
		l := left{id: id, topic: topic}
		for _, m := range messages {
			l.tokens = append(l.tokens, fmt.Sprint(m.Data))
		}
		r.mu.Lock()
		r.lefts = append(r.lefts, l)
		r.mu.Unlock()
	}
	if os.Getenv("VERIF_DEBUG") != "" {
		r.broker.Service.Use(func(ctx context.Context, request []byte, next core.NextIOHandler) ([]byte, error) {
			resp, err := next(ctx, request)
			fmt.Printf("REQ %s\nRSP %s\n", request, resp)
			return resp, err
		})
	}
	r.server = mock.Server{Address: addr}
	if err := r.broker.Bind(r.server); err != nil {
		panic(err)
	}
	for _, id := range ids {
		c := core.NewClient("mock://" + addr)
		c.Timeout = 30 * time.Second
		c.RequestHeaders().Set("id", id)
		p := &brokerProxy{}
		c.UseService(p)
		r.clients[id] = p
	}
	return r
}

func (r *rig) close() { r.server.Close() }

func (r *rig) takeLefts() []left {
	r.mu.Lock()
	defer r.mu.Unlock()
	l := r.lefts
	r.lefts = nil
	return l
}

// ---------------------------------------------------------------- (a) sequential, model-based

var seqIDs = []string{"a", "b", "c"}
var seqTopics = []string{"t1", "t2"}

type model struct {
	known map[string]bool                // id has an entry at the broker
	subs  map[string]map[string][]string // id -> topic -> FIFO of accepted tokens
}

func newModel() *model {
	return &model{known: map[string]bool{}, subs: map[string]map[string][]string{}}
}

func (m *model) subscribed(id, topic string) bool {
	_, ok := m.subs[id][topic]
	return ok
}

func fmtPoll(res map[string][]push.Message) string {
	if res == nil {
		return "nil"
	}
	keys := make([]string, 0, len(res))
	for k := range res {
		keys = append(keys, k)
	}
	sort.Strings(keys)
	var b strings.Builder
	b.WriteByte('{')
	for i, k := range keys {
		if i > 0 {
			b.WriteByte(' ')
		}
		b.WriteString(k + ":[")
		for j, m := range res[k] {
			if j > 0 {
				b.WriteByte(' ')
			}
			fmt.Fprint(&b, m.Data)
		}
		b.WriteByte(']')
	}
	b.WriteByte('}')
	return b.String()
}

func fmtBoolMap(m map[string]bool) string {
	keys := make([]string, 0, len(m))
	for k := range m {
		keys = append(keys, k)
	}
	sort.Strings(keys)
	var s []string
	for _, k := range keys {
		s = append(s, fmt.Sprintf("%s=%v", k, m[k]))
	}
	return strings.Join(s, ",")
}

func TestSequentialModel(t *testing.T) {
	ev.Steps(ev.Pick(25, 40))
	ev.Check(t, "sequential", ev.N(700, 16000), func(rt *rapid.T) {
		r := newRig(12*time.Millisecond, append([]string{"pub"}, seqIDs...))
		defer r.close()
		m := newModel()
		var hist []string
		tok := 0
		pollAfterTimeoutPublish, sawTimeout := false, map[string]bool{}
		desc := func() string { return strings.Join(hist, " ; ") }
		fail := func(msg string) {
			ev.S.Violation("sequential", "TestSequentialModel", desc(), msg, nil)
			rt.Fatalf("%s\n=> %s", desc(), msg)
		}
		newTok := func() string { tok++; return fmt.Sprintf("m%d", tok) }
		accept := func(id, topic, token string) bool {
			if m.subscribed(id, topic) {
				m.subs[id][topic] = append(m.subs[id][topic], token)
				if sawTimeout[id] {
					pollAfterTimeoutPublish = true
				}
				return true
			}
			return false
		}
		pub := r.clients["pub"]
		rt.Repeat(map[string]func(*rapid.T){
			"subscribe": func(rt *rapid.T) {
				id, topic := rapid.SampledFrom(seqIDs).Draw(rt, "id"), rapid.SampledFrom(seqTopics).Draw(rt, "topic")
				hist = append(hist, fmt.Sprintf("sub(%s,%s)", id, topic))
				ev.S.Begin("sequential", desc())
				got, err := r.clients[id].Subscribe(topic)
				want := !m.subscribed(id, topic)
				if err != nil || got != want {
					fail(fmt.Sprintf("subscribe returned %v,%v expected %v", got, err, want))
				}
				m.known[id] = true
				if m.subs[id] == nil {
					m.subs[id] = map[string][]string{}
				}
				if want {
					m.subs[id][topic] = []string{}
				}
			},
			"unsubscribe": func(rt *rapid.T) {
				id, topic := rapid.SampledFrom(seqIDs).Draw(rt, "id"), rapid.SampledFrom(seqTopics).Draw(rt, "topic")
				hist = append(hist, fmt.Sprintf("unsub(%s,%s)", id, topic))
				ev.S.Begin("sequential", desc())
				r.takeLefts()
				got, err := r.clients[id].Unsubscribe(topic)
				want := m.subscribed(id, topic)
				if err != nil || got != want {
					fail(fmt.Sprintf("unsubscribe returned %v,%v expected %v", got, err, want))
				}
				lefts := r.takeLefts()
				if want {
					q := m.subs[id][topic]
					delete(m.subs[id], topic)
					if len(lefts) != 1 || lefts[0].id != id || lefts[0].topic != topic || strings.Join(lefts[0].tokens, " ") != strings.Join(q, " ") {
						fail(fmt.Sprintf("undelivered messages handed over at unsubscribe: %v, expected exactly [%s] for (%s,%s)", lefts, strings.Join(q, " "), id, topic))
					}
				} else if len(lefts) != 0 {
					fail(fmt.Sprintf("unsubscribe of a topic not subscribed handed over %v", lefts))
				}
			},
			"unicast": func(rt *rapid.T) {
				id, topic := rapid.SampledFrom(seqIDs).Draw(rt, "id"), rapid.SampledFrom(seqTopics).Draw(rt, "topic")
				token := newTok()
				hist = append(hist, fmt.Sprintf("unicast(%s->%s,%s)", token, id, topic))
				ev.S.Begin("sequential", desc())
				got, err := pub.Unicast(token, topic, id)
				want := accept(id, topic, token)
				if err != nil || got != want {
					fail(fmt.Sprintf("unicast returned %v,%v expected %v", got, err, want))
				}
			},
			"multicast": func(rt *rapid.T) {
				topic := rapid.SampledFrom(seqTopics).Draw(rt, "topic")
				ids := rapid.SliceOfNDistinct(rapid.SampledFrom(seqIDs), 1, 3, rapid.ID[string]).Draw(rt, "ids")
				token := newTok()
				hist = append(hist, fmt.Sprintf("multicast(%s->%v,%s)", token, ids, topic))
				ev.S.Begin("sequential", desc())
				got, err := pub.Multicast(token, topic, ids)
				want := map[string]bool{}
				for _, id := range ids {
					want[id] = accept(id, topic, token)
				}
				if err != nil || fmtBoolMap(got) != fmtBoolMap(want) {
					fail(fmt.Sprintf("multicast returned %s,%v expected %s", fmtBoolMap(got), err, fmtBoolMap(want)))
				}
			},
			"broadcast": func(rt *rapid.T) {
				topic := rapid.SampledFrom(seqTopics).Draw(rt, "topic")
				token := newTok()
				hist = append(hist, fmt.Sprintf("broadcast(%s,%s)", token, topic))
				ev.S.Begin("sequential", desc())
				got, err := pub.Broadcast(token, topic)
				want := map[string]bool{}
				for _, id := range seqIDs {
					if m.known[id] {
						want[id] = accept(id, topic, token)
					}
				}
				if err != nil || fmtBoolMap(got) != fmtBoolMap(want) {
					fail(fmt.Sprintf("broadcast returned %s,%v expected %s", fmtBoolMap(got), err, fmtBoolMap(want)))
				}
			},
			"poll": func(rt *rapid.T) {
				id := rapid.SampledFrom(seqIDs).Draw(rt, "id")
				hist = append(hist, fmt.Sprintf("poll(%s)", id))
				ev.S.Begin("sequential", desc())
				t0 := time.Now()
				got, err := r.clients[id].Message()
				el := time.Since(t0)
				if err != nil {
					fail(fmt.Sprintf("poll failed: %v", err))
				}
				// expectation
				want := "nil"
				if len(m.subs[id]) > 0 {
					wm := map[string][]push.Message{}
					for topic, q := range m.subs[id] {
						if len(q) > 0 {
							for _, tk := range q {
								wm[topic] = append(wm[topic], push.Message{Data: tk})
							}
							m.subs[id][topic] = []string{}
						}
					}
					want = fmtPoll(wm)
					if len(wm) == 0 {
						sawTimeout[id] = true
						if el < 10*time.Millisecond {
							fail(fmt.Sprintf("empty poll returned after %v, before the poll timeout", el))
						}
					}
				}
				hist[len(hist)-1] += "=" + fmtPoll(got)
				if fmtPoll(got) != want {
					fail(fmt.Sprintf("poll(%s) returned %s, expected %s (accepted messages must be delivered exactly once, in order, to their subscriber only)", id, fmtPoll(got), want))
				}
				for topic, ms := range got {
					for _, msg := range ms {
						if msg.From != "pub" {
							fail(fmt.Sprintf("message %v on %s has sender %q, expected \"pub\"", msg.Data, topic, msg.From))
						}
					}
				}
			},
		})
		// final drain: everything still queued must come out
		for _, id := range seqIDs {
			pending := false
			for _, q := range m.subs[id] {
				if len(q) > 0 {
					pending = true
				}
			}
			if !pending {
				continue
			}
			hist = append(hist, fmt.Sprintf("drain(%s)", id))
			got, err := r.clients[id].Message()
			wm := map[string][]push.Message{}
			for topic, q := range m.subs[id] {
				for _, tk := range q {
					wm[topic] = append(wm[topic], push.Message{Data: tk})
				}
			}
			if err != nil || fmtPoll(got) != fmtPoll(wm) {
				fail(fmt.Sprintf("final drain of %s returned %s,%v expected %s", id, fmtPoll(got), err, fmtPoll(wm)))
			}
		}
		ev.S.Case("sequential", desc(), pollAfterTimeoutPublish, "sequential")
	})
}

// ---------------------------------------------------------------- (b) concurrent histories

type ConcCase struct {
	Publishers int `json:"publishers"`
	PerPub     int `json:"per_publisher"`
	IDs        int `json:"ids"`
	Topics     int `json:"topics"`
	Churn      int `json:"churn"`      // subscribe/unsubscribe operations during traffic
	PollUS     int `json:"poll_us"`    // broker poll timeout
	PubGapUS   int `json:"pub_gap_us"` // pause between publishes
}

func (c ConcCase) String() string {
	return fmt.Sprintf("publishers=%d per=%d ids=%d topics=%d churn=%d pollTimeout=%dus pubGap=%dus", c.Publishers, c.PerPub, c.IDs, c.Topics, c.Churn, c.PollUS, c.PubGapUS)
}

type delivery struct {
	id, topic, token string
}

func runConcurrent(c ConcCase, seed uint64) (overlap bool, problem string) {
	ids := make([]string, c.IDs)
	all := []string{}
	for i := range ids {
		ids[i] = fmt.Sprintf("id%d", i)
	}
	all = append(all, ids...)
	for p := 0; p < c.Publishers; p++ {
		all = append(all, fmt.Sprintf("pub%d", p))
	}
	all = append(all, "churn")
	topics := make([]string, c.Topics)
	for i := range topics {
		topics[i] = fmt.Sprintf("t%d", i)
	}
	r := newRig(time.Duration(c.PollUS)*time.Microsecond, all)
	defer r.close()
	// every id subscribes every topic up front (through its own client)
	for _, id := range ids {
		for _, tp := range topics {
			if ok, err := r.clients[id].Subscribe(tp); err != nil || !ok {
				return false, fmt.Sprintf("initial subscribe(%s,%s) = %v,%v", id, tp, ok, err)
			}
		}
	}
	var mu sync.Mutex
	accepted := map[string][]string{}  // "id|topic" -> tokens in acceptance order per publisher (tokens carry publisher and seq)
	delivered := map[string][]string{} // "id|topic" -> tokens in delivery order
	var pollErrs, emptyPolls, polls int64
	stop := make(chan struct{})
	var consumers sync.WaitGroup
	for _, id := range ids {
		consumers.Add(1)
		go func(id string) {
			defer consumers.Done()
			for {
				select {
				case <-stop:
					return
				default:
				}
				res, err := r.clients[id].Message()
				atomic.AddInt64(&polls, 1)
				if err != nil {
					atomic.AddInt64(&pollErrs, 1)
					continue
				}
				if len(res) == 0 {
					atomic.AddInt64(&emptyPolls, 1)
					if res == nil {
						time.Sleep(200 * time.Microsecond) // nothing subscribed at the moment
					}
					continue
				}
				mu.Lock()
				for tp, ms := range res {
					for _, m := range ms {
						delivered[id+"|"+tp] = append(delivered[id+"|"+tp], fmt.Sprint(m.Data))
					}
				}
				mu.Unlock()
			}
		}(id)
	}
	rng := seed | 1
	next := func(n int) int {
		rng ^= rng << 13
		rng ^= rng >> 7
		rng ^= rng << 17
		return int(rng % uint64(n))
	}
	// pre-draw all decisions so that goroutines do not share the generator
	type pubOp struct {
		kind  int
		id    string
		ids   []string
		topic string
	}
	plans := make([][]pubOp, c.Publishers)
	for p := range plans {
		for k := 0; k < c.PerPub; k++ {
			op := pubOp{kind: next(4), id: ids[next(len(ids))], topic: topics[next(len(topics))]}
			if op.kind == 2 {
				for _, id := range ids {
					if next(2) == 0 {
						op.ids = append(op.ids, id)
					}
				}
				if len(op.ids) == 0 {
					op.ids = []string{op.id}
				}
			}
			plans[p] = append(plans[p], op)
		}
	}
	type churnOp struct {
		sub       bool
		id, topic string
	}
	var churn []churnOp
	for k := 0; k < c.Churn; k++ {
		churn = append(churn, churnOp{next(2) == 0, ids[next(len(ids))], topics[next(len(topics))]})
	}
	var pubs sync.WaitGroup
	for p := 0; p < c.Publishers; p++ {
		pubs.Add(1)
		go func(p int) {
			defer pubs.Done()
			px := r.clients[fmt.Sprintf("pub%d", p)]
			for k, op := range plans[p] {
				token := fmt.Sprintf("p%d-%04d", p, k)
				res := map[string]bool{}
				var err error
				switch op.kind {
				case 0, 1:
					var ok bool
					ok, err = px.Unicast(token, op.topic, op.id)
					res[op.id] = ok
				case 2:
					res, err = px.Multicast(token, op.topic, op.ids)
				default:
					res, err = px.Broadcast(token, op.topic)
				}
				if err == nil {
					mu.Lock()
					for id, ok := range res {
						if ok {
							accepted[id+"|"+op.topic] = append(accepted[id+"|"+op.topic], token)
						}
					}
					mu.Unlock()
				}
				if c.PubGapUS > 0 {
					time.Sleep(time.Duration(c.PubGapUS) * time.Microsecond)
				}
			}
		}(p)
	}
	pubs.Add(1)
	go func() {
		defer pubs.Done()
		// subscribe/unsubscribe must come from the id itself: use that id's client
		for _, op := range churn {
			if op.sub {
				r.clients[op.id].Subscribe(op.topic)
			} else {
				r.clients[op.id].Unsubscribe(op.topic)
			}
			time.Sleep(time.Duration(200+next(400)) * time.Microsecond)
		}
	}()
	pubs.Wait()
	// settle: let the consumers drain (several poll timeouts), then stop them
	time.Sleep(time.Duration(c.PollUS)*time.Microsecond*4 + 20*time.Millisecond)
	close(stop)
	consumers.Wait()
	// final drain through a last poll per id
	for _, id := range ids {
		for k := 0; k < 3; k++ {
			res, err := r.clients[id].Message()
			if err != nil || len(res) == 0 {
				break
			}
			for tp, ms := range res {
				for _, m := range ms {
					delivered[id+"|"+tp] = append(delivered[id+"|"+tp], fmt.Sprint(m.Data))
				}
			}
		}
	}
	handed := map[string][]string{}
	for _, l := range r.takeLefts() {
		handed[l.id+"|"+l.topic] = append(handed[l.id+"|"+l.topic], l.tokens...)
	}
	overlap = atomic.LoadInt64(&emptyPolls) > 0 && len(delivered) > 0
	// invariants
	keys := map[string]bool{}
	for k := range accepted {
		keys[k] = true
	}
	for k := range delivered {
		keys[k] = true
	}
	for k := range handed {
		keys[k] = true
	}
	for k := range keys {
		acc := map[string]int{}
		for _, tk := range accepted[k] {
			acc[tk]++
		}
		got := map[string]int{}
		for _, tk := range delivered[k] {
			got[tk]++
		}
		for _, tk := range handed[k] {
			got[tk] += 1000
		}
		for tk, n := range got {
			switch {
			case acc[tk] == 0:
				return overlap, fmt.Sprintf("%s received %s which was never accepted for it", k, tk)
			case n == 1 || n == 1000:
			case n > 1000 && n%1000 > 0:
				return overlap, fmt.Sprintf("%s: %s was both delivered and handed over at unsubscribe", k, tk)
			default:
				return overlap, fmt.Sprintf("%s: %s delivered %d times", k, tk, n%1000+n/1000)
			}
		}
		for tk := range acc {
			if got[tk] == 0 {
				return overlap, fmt.Sprintf("%s: %s was accepted (publish reported success) but never delivered nor handed over at unsubscribe (polls=%d empty=%d errors=%d)", k, tk, polls, emptyPolls, pollErrs)
			}
		}
		// per publisher order
		last := map[string]string{}
		for _, tk := range delivered[k] {
			p := tk[:strings.Index(tk, "-")]
			if prev, ok := last[p]; ok && tk <= prev {
				return overlap, fmt.Sprintf("%s: %s delivered after %s although it was published earlier", k, tk, prev)
			}
			last[p] = tk
		}
	}
	return overlap, ""
}

func TestConcurrentHistories(t *testing.T) {
	ev.Check(t, "concurrent", ev.N(160, 4000), func(rt *rapid.T) {
		c := ConcCase{
			Publishers: rapid.IntRange(1, 4).Draw(rt, "publishers"),
			PerPub:     rapid.IntRange(5, 60).Draw(rt, "per"),
			IDs:        rapid.IntRange(1, 3).Draw(rt, "ids"),
			Topics:     rapid.IntRange(1, 2).Draw(rt, "topics"),
			Churn:      rapid.SampledFrom([]int{0, 0, 5, 20}).Draw(rt, "churn"),
			PollUS:     rapid.SampledFrom([]int{300, 1000, 3000}).Draw(rt, "poll"),
			PubGapUS:   rapid.SampledFrom([]int{0, 100, 300, 1000, 3000}).Draw(rt, "gap"),
		}
		seed := rapid.Uint64().Draw(rt, "plan")
		ev.S.Begin("concurrent", c.String())
		overlap, problem := runConcurrent(c, seed)
		classes := []string{"concurrent"}
		if c.Churn > 0 {
			classes = append(classes, "with-churn")
		}
		ev.S.Case("concurrent", fmt.Sprintf("%s plan=%d", c, seed), overlap, classes...)
		if problem != "" {
			ev.S.Violation("concurrent", "TestConcurrentHistories", fmt.Sprintf("%s plan=%d", c, seed), problem, map[string]interface{}{"case": c, "plan": seed})
			rt.Fatalf("%s: %s", c, problem)
		}
	})
}

// ---------------------------------------------------------------- (c) forced interleavings (verif yield points)

type ForcedCase struct {
	Scenario   string `json:"scenario"` // publish-vs-unsubscribe | timeout-then-publish | pop-then-timeout | register-vs-publish
	PreQueued  int    `json:"pre_queued"`
	SecondSub  bool   `json:"second_topic"`
	Kind       int    `json:"publish_kind"` // 0 unicast 1 multicast 2 broadcast
	OtherTopic bool   `json:"publish_other_topic_first"`
}

func (c ForcedCase) String() string {
	return fmt.Sprintf("%s preQueued=%d secondTopic=%v kind=%d otherFirst=%v", c.Scenario, c.PreQueued, c.SecondSub, c.Kind, c.OtherTopic)
}

var hookMu sync.Mutex

type parker struct {
	point, id string
	armed     int32
	parked    chan struct{}
	release   chan struct{}
}

func newParker(point, id string) *parker {
	return &parker{point: point, id: id, armed: 1, parked: make(chan struct{}), release: make(chan struct{})}
}

func (p *parker) hook(point, id string) {
	if point == p.point && id == p.id && atomic.CompareAndSwapInt32(&p.armed, 1, 0) {
		close(p.parked)
		<-p.release
	}
}

func (p *parker) waitParked(d time.Duration) bool {
	select {
	case <-p.parked:
		return true
	case <-time.After(d):
		return false
	}
}

func runForced(c ForcedCase) string {
	hookMu.Lock()
	defer hookMu.Unlock()
	brokerTimeout := 15 * time.Millisecond
	if c.Scenario == "abandoned-poll-then-publish" {
		brokerTimeout = 400 * time.Millisecond // the client gives up long before the broker would answer
	}
	r := newRig(brokerTimeout, []string{"pub", "x", "y"})
	defer r.close()
	defer push.VerifSetHook(nil)
	x, pub := r.clients["x"], r.clients["pub"]
	accepted := map[string]string{} // token -> topic (for id x)
	got := map[string]int{}
	note := func(res map[string][]push.Message) {
		for _, ms := range res {
			for _, m := range ms {
				got[fmt.Sprint(m.Data)]++
			}
		}
	}
	publish := func(token, topic string) (bool, error) {
		switch c.Kind {
		case 0:
			return pub.Unicast(token, topic, "x")
		case 1:
			res, err := pub.Multicast(token, topic, []string{"y", "x"})
			return res["x"], err
		default:
			res, err := pub.Broadcast(token, topic)
			return res["x"], err
		}
	}
	if ok, err := x.Subscribe("t"); !ok || err != nil {
		return fmt.Sprintf("subscribe: %v %v", ok, err)
	}
	if c.SecondSub {
		x.Subscribe("u")
	}
	r.clients["y"].Subscribe("t")
	for i := 0; i < c.PreQueued; i++ {
		tp := "t"
		if c.SecondSub && i%2 == 1 {
			tp = "u"
		}
		tk := fmt.Sprintf("pre%d", i)
		if ok, err := publish(tk, tp); ok && err == nil {
			accepted[tk] = tp
		}
	}
	type pubRes struct {
		ok  bool
		err error
	}
	type pollRes struct {
		res map[string][]push.Message
		err error
	}
	const W = 20 * time.Second
	switch c.Scenario {
	case "publish-vs-unsubscribe":
		pk := newParker("publish.beforeAppend", "x")
		push.VerifSetHook(pk.hook)
		done := make(chan pubRes, 1)
		go func() { ok, err := publish("raced", "t"); done <- pubRes{ok, err} }()
		if !pk.waitParked(W) {
			close(pk.release)
			return "publisher never reached the append point"
		}
		okU, errU := x.Unsubscribe("t")
		close(pk.release)
		pr := <-done
		if errU != nil || !okU || pr.err != nil {
			return fmt.Sprintf("unsubscribe=%v,%v publish=%v,%v", okU, errU, pr.ok, pr.err)
		}
		if pr.ok {
			accepted["raced"] = "t"
		}
	case "timeout-then-publish":
		if c.PreQueued > 0 {
			res, err := x.Message()
			if err != nil {
				return "drain poll failed: " + err.Error()
			}
			note(res)
		}
		pk := newParker("poll.timeout", "x")
		push.VerifSetHook(pk.hook)
		done := make(chan pollRes, 1)
		go func() { res, err := x.Message(); done <- pollRes{res, err} }()
		if !pk.waitParked(W) {
			close(pk.release)
			return "poll never reached its timeout"
		}
		ok, err := publish("raced", "t")
		close(pk.release)
		if err != nil {
			return "publish failed: " + err.Error()
		}
		if ok {
			accepted["raced"] = "t"
		}
		select {
		case p := <-done:
			if p.err != nil {
				return "poll failed: " + p.err.Error()
			}
			note(p.res)
		case <-time.After(W):
			return "timed-out poll never returned"
		}
	case "pop-then-timeout":
		if c.PreQueued > 0 {
			res, err := x.Message()
			if err != nil {
				return "drain poll failed: " + err.Error()
			}
			note(res)
		}
		pk := newParker("response.afterPop", "x")
		push.VerifSetHook(pk.hook)
		pdone := make(chan pollRes, 1)
		go func() { res, err := x.Message(); pdone <- pollRes{res, err} }()
		time.Sleep(3 * time.Millisecond) // let the poll register its responder
		done := make(chan pubRes, 1)
		go func() { ok, err := publish("raced", "t"); done <- pubRes{ok, err} }()
		if !pk.waitParked(W) {
			close(pk.release)
			<-done
			select {
			case p := <-pdone:
				note(p.res)
			case <-time.After(W):
			}
			accepted["raced"] = "t"
			break // the poll had not registered yet: nothing forced, still checked below
		}
		time.Sleep(25 * time.Millisecond) // the poll's timeout fires while the publisher holds its responder
		close(pk.release)
		pr := <-done
		if pr.err != nil {
			return "publish failed: " + pr.err.Error()
		}
		if pr.ok {
			accepted["raced"] = "t"
		}
		select {
		case p := <-pdone:
			if p.err != nil {
				return "poll failed: " + p.err.Error()
			}
			note(p.res)
		case <-time.After(W):
			return "poll whose responder had been taken never returned"
		}
	case "abandoned-poll-then-publish":
		// the client gives up a pending poll (its own time-out, far below the broker's); a message accepted
		// afterwards must wait for the next poll, not be handed to the poll nobody listens to any more
		if c.PreQueued > 0 {
			res, err := x.Message()
			if err != nil {
				return "drain poll failed: " + err.Error()
			}
			note(res)
		}
		ctx, cancel := context.WithTimeout(context.Background(), 40*time.Millisecond)
		res, err := x.MessageCtx(ctx)
		cancel()
		if err == nil {
			note(res) // answered after all (nothing was queued: an empty reply)
		}
		time.Sleep(5 * time.Millisecond)
		ok, err := publish("raced", "t")
		if err != nil {
			return "publish failed: " + err.Error()
		}
		if ok {
			accepted["raced"] = "t"
		}
	case "register-vs-publish":
		if c.PreQueued > 0 {
			res, err := x.Message()
			if err != nil {
				return "drain poll failed: " + err.Error()
			}
			note(res)
		}
		pk := newParker("poll.beforeRegister", "x")
		push.VerifSetHook(pk.hook)
		pdone := make(chan pollRes, 1)
		go func() { res, err := x.Message(); pdone <- pollRes{res, err} }()
		if !pk.waitParked(W) {
			close(pk.release)
			return "poll never reached the registration point"
		}
		ok, err := publish("raced", "t")
		close(pk.release)
		if err != nil {
			return "publish failed: " + err.Error()
		}
		if ok {
			accepted["raced"] = "t"
		}
		select {
		case p := <-pdone:
			if p.err != nil {
				return "poll failed: " + p.err.Error()
			}
			note(p.res)
		case <-time.After(W):
			return "poll never returned"
		}
	}
	push.VerifSetHook(nil)
	// drain: two more polls (the second one may simply time out)
	for k := 0; k < 2; k++ {
		res, err := x.Message()
		if err != nil {
			return "final poll failed: " + err.Error()
		}
		note(res)
	}
	for _, l := range r.takeLefts() {
		if l.id == "x" {
			for _, tk := range l.tokens {
				got[tk] += 1000
			}
		}
	}
	for tk := range accepted {
		switch n := got[tk]; {
		case n == 0:
			return fmt.Sprintf("message %q was accepted (publish reported success) but was neither delivered nor handed over at unsubscribe", tk)
		case n != 1 && n != 1000:
			return fmt.Sprintf("message %q was handed out more than once (%d)", tk, n)
		}
	}
	for tk := range got {
		if _, ok := accepted[tk]; !ok {
			return fmt.Sprintf("message %q was delivered although its publish was not accepted", tk)
		}
	}
	return ""
}

func TestForcedInterleavings(t *testing.T) {
	scenarios := []string{"publish-vs-unsubscribe", "timeout-then-publish", "pop-then-timeout", "register-vs-publish", "abandoned-poll-then-publish"}
	idx := 0
	for _, sc := range scenarios {
		for pre := 0; pre <= 2; pre++ {
			for _, second := range []bool{false, true} {
				for kind := 0; kind < 3; kind++ {
					idx++
					if idx%ev.S.NShards != ev.S.Shard {
						continue
					}
					c := ForcedCase{Scenario: sc, PreQueued: pre, SecondSub: second, Kind: kind}
					ev.S.Begin("forced", c.String())
					problem := runForced(c)
					ev.S.Case("forced", c.String(), true, "forced-"+sc)
					if problem != "" {
						ev.S.Violation("forced", "TestForcedInterleavings", c.String(), problem, c)
						t.Fatalf("%s: %s", c, problem)
					}
				}
			}
		}
	}
	ev.S.Exhaustive("forced", true)
}

// TestReplay re-executes a concurrent case several times (schedule-dependent).
func TestReplay(t *testing.T) {
	var rec struct {
		Case ConcCase `json:"case"`
		Plan uint64   `json:"plan"`
	}
	sub, ok := ev.ReplayCase(&rec)
	if !ok || sub != "concurrent" {
		t.Skip("no explicit replay case")
	}
	for i := 0; i < 30; i++ {
		if _, problem := runConcurrent(rec.Case, rec.Plan); problem != "" {
			ev.S.Violation(sub, "TestReplay", rec.Case.String(), problem, rec)
			t.Fatalf("%s: %s", rec.Case, problem)
		}
	}
}

const kfProsumerOrder = "prosumer-batches-out-of-order"

func samePermutation(a, b []string) bool {
	if len(a) != len(b) {
		return false
	}
	count := map[string]int{}
	for _, x := range a {
		count[x]++
	}
	for _, x := range b {
		count[x]--
		if count[x] < 0 {
			return false
		}
	}
	return true
}

// prosumerOrderRepro: two batches whose callbacks are held so that the second overtakes the first.
func prosumerOrderRepro() (bool, string) {
	for attempt := 0; attempt < 200; attempt++ {
		addr := fmt.Sprintf("c19f-%d", atomic.AddInt64(&rigSeq, 1))
		broker := push.NewBroker(core.NewService())
		broker.Timeout = 50 * time.Millisecond
		broker.HeartBeat = 0
		server := mock.Server{Address: addr}
		if err := broker.Bind(server); err != nil {
			return false, err.Error()
		}
		client := core.NewClient("mock://" + addr)
		cons := push.NewProsumer(client, "cons")
		var mu sync.Mutex
		var got []string
		cons.Subscribe("t", func(data string) {
			if data == "m1" {
				time.Sleep(3 * time.Millisecond) // the first batch's callback is slow; the second batch is dispatched meanwhile
			}
			mu.Lock()
			got = append(got, data)
			mu.Unlock()
		})
		broker.Push("m1", "t", "cons")
		time.Sleep(time.Millisecond)
		broker.Push("m2", "t", "cons")
		time.Sleep(20 * time.Millisecond)
		mu.Lock()
		g := fmt.Sprint(got)
		mu.Unlock()
		cons.Unsubscribe("t")
		client.Abort()
		server.Close()
		if g == "[m2 m1]" {
			return true, "accepted m1 then m2 on one topic; the Prosumer's callback received " + g
		}
	}
	return false, "200 attempts: the callback always saw m1 before m2"
}

// TestProsumer: the consumer is the library's own Prosumer (poll loop and callback dispatch). It subscribes to
// topics at generated moments while publishers are sending; the broker greets every new subscription with a
// message of its own from OnSubscribe, i.e. before the client has seen the reply to its subscribe call. Every
// message the broker accepted must reach the topic's callback exactly once and in acceptance order.
func TestProsumer(t *testing.T) {
	ev.Check(t, "prosumer", ev.N(60, 3000), func(rt *rapid.T) {
		ntopics := rapid.IntRange(1, 3).Draw(rt, "topics")
		type step struct {
			Kind  string // sub | pub | wait
			Topic int
			N     int
		}
		var steps []step
		subscribed := map[int]bool{}
		idles := 0
		pollTimeout := rapid.SampledFrom([]time.Duration{8 * time.Millisecond, 50 * time.Millisecond}).Draw(rt, "pollTimeout")
		for k := rapid.IntRange(2, 10).Draw(rt, "nsteps"); k > 0; k-- {
			tp := rapid.IntRange(0, ntopics-1).Draw(rt, "topic")
			switch rapid.IntRange(0, 4).Draw(rt, "kind") {
			case 0:
				if !subscribed[tp] {
					subscribed[tp] = true
					steps = append(steps, step{"sub", tp, 0})
				}
			case 1:
				steps = append(steps, step{"wait", 0, rapid.IntRange(1, 5).Draw(rt, "ms")})
			case 4:
				// long enough for the consumer's pending poll to time out at the broker (and be renewed)
				if len(subscribed) > 0 {
					steps = append(steps, step{"idle", 0, 0})
					idles++
				}
			default:
				steps = append(steps, step{"pub", tp, rapid.IntRange(1, 6).Draw(rt, "n")})
			}
		}
		// topic 0 may have a callback with a concrete parameter type (int): its publisher sends numbers and now
		// and then a text the callback cannot take; that one message is not deliverable, the others are
		intTopic := rapid.IntRange(0, 2).Draw(rt, "intTopic") == 0
		greet := !intTopic && rapid.Bool().Draw(rt, "greet")
		slowGreet := greet && rapid.Bool().Draw(rt, "slowGreet")
		canon := fmt.Sprintf("prosumer topics=%d greet=%v slowGreet=%v pollTimeout=%v topic0-takes-int=%v steps=%v", ntopics, greet, slowGreet, pollTimeout, intTopic, steps)
		ev.S.Begin("prosumer", canon)
		addr := fmt.Sprintf("c19p-%d", atomic.AddInt64(&rigSeq, 1))
		broker := push.NewBroker(core.NewService())
		broker.Timeout = pollTimeout
		broker.HeartBeat = 0
		var mu sync.Mutex
		accepted := map[string][]string{}
		got := map[string][]string{}
		accept := func(topic, token string, ok bool) {
			if ok {
				mu.Lock()
				accepted[topic] = append(accepted[topic], token)
				mu.Unlock()
			}
		}
		var pubMu sync.Mutex // one publisher at a time: acceptance order is the order of these calls
		publish := func(topic, token string) {
			pubMu.Lock()
			defer pubMu.Unlock()
			res := broker.Push(token, topic, "cons")
			accept(topic, token, res["cons"])
		}
		undeliverable := 0
		publishInt := func(topic string, n int, bad bool) {
			pubMu.Lock()
			defer pubMu.Unlock()
			if bad {
				broker.Push(fmt.Sprintf("not a number %d", n), topic, "cons")
				undeliverable++
				return
			}
			res := broker.Push(n, topic, "cons")
			accept(topic, fmt.Sprint(n), res["cons"])
		}
		if greet {
			broker.OnSubscribe = func(ctx context.Context, id string, topic string) {
				publish(topic, "welcome:"+topic)
				if slowGreet {
					time.Sleep(20 * time.Millisecond)
				}
			}
		}
		server := mock.Server{Address: addr}
		if err := broker.Bind(server); err != nil {
			rt.Fatalf("bind: %v", err)
		}
		defer server.Close()
		client := core.NewClient("mock://" + addr)
		client.Timeout = 10 * time.Second
		cons := push.NewProsumer(client, "cons")
		cons.RetryInterval = 5 * time.Millisecond
		seq := 0
		problem := ""
		for _, st := range steps {
			topic := fmt.Sprintf("t%d", st.Topic)
			switch st.Kind {
			case "sub":
				tpc := topic
				var cb interface{} = func(data string) {
					mu.Lock()
					got[tpc] = append(got[tpc], data)
					mu.Unlock()
				}
				if intTopic && st.Topic == 0 {
					cb = func(data int, from string) {
						mu.Lock()
						got[tpc] = append(got[tpc], fmt.Sprint(data))
						mu.Unlock()
					}
				}
				if _, err := cons.Subscribe(tpc, cb); err != nil {
					problem = fmt.Sprintf("subscribe(%s) failed: %v", tpc, err)
				}
			case "pub":
				for i := 0; i < st.N; i++ {
					seq++
					if intTopic && st.Topic == 0 {
						publishInt(topic, seq, (seq*7+st.N)%4 == 0)
						continue
					}
					publish(topic, fmt.Sprintf("%s-%04d", topic, seq))
				}
			case "wait":
				time.Sleep(time.Duration(st.N) * time.Millisecond)
			case "idle":
				time.Sleep(pollTimeout*5/2 + 2*time.Millisecond)
			}
			if problem != "" {
				break
			}
		}
		// drain: wait until everything accepted has arrived (or 3 s)
		deadline := time.Now().Add(3 * time.Second)
		for problem == "" {
			mu.Lock()
			done := true
			for tpc, acc := range accepted {
				if len(got[tpc]) < len(acc) {
					done = false
				}
			}
			mu.Unlock()
			if done || time.Now().After(deadline) {
				break
			}
			time.Sleep(2 * time.Millisecond)
		}
		time.Sleep(5 * time.Millisecond) // a duplicate would arrive now
		mu.Lock()
		nacc := 0
		for tpc, acc := range accepted {
			nacc += len(acc)
			if problem == "" && fmt.Sprint(got[tpc]) != fmt.Sprint(acc) {
				problem = fmt.Sprintf("topic %s: the broker accepted %v, the Prosumer's callback received %v", tpc, acc, got[tpc])
				// open finding: the consumer is a Prosumer (input side) AND the callback saw exactly the accepted
				// messages, each once, only in another order (failure side)
				if ev.S.Known(kfProsumerOrder) && samePermutation(acc, got[tpc]) {
					ev.S.Exclude(kfProsumerOrder, canon+" => "+problem)
					problem = ""
				}
			}
		}
		for tpc, g := range got {
			if _, ok := accepted[tpc]; !ok && len(g) > 0 && problem == "" {
				problem = fmt.Sprintf("topic %s: the callback received %v although nothing was accepted", tpc, g)
			}
		}
		mu.Unlock()
		for tp := range subscribed {
			cons.Unsubscribe(fmt.Sprintf("t%d", tp))
		}
		client.Abort()
		ev.S.Case("prosumer", canon, nacc > 0 && len(subscribed) > 0, fmt.Sprintf("prosumer-greet=%v", greet), fmt.Sprintf("prosumer-topics=%d", len(subscribed)), fmt.Sprintf("prosumer-poll-timed-out=%v", idles > 0), fmt.Sprintf("prosumer-typed-callback-with-undeliverable=%v", undeliverable > 0))
		if problem != "" {
			if os.Getenv("VERIF_TRIAGE") != "" {
				fmt.Printf("TRIAGE %s | %s\n", problem, canon)
				return
			}
			ev.S.Violation("prosumer", "TestProsumer", canon, problem, nil)
			rt.Fatalf("%s\n=> %s", canon, problem)
		}
	})
}

func TestFinding(t *testing.T) {
	if ev.FindingKey() == kfProsumerOrder {
		ok, detail := prosumerOrderRepro()
		ev.FindingResult(kfProsumerOrder, ok, detail)
		return
	}
	t.Skip("no open finding " + ev.FindingKey())
}
