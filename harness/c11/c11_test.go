// C11 — faults are contained to the call that caused them.
package c11

import (
	"bytes"
	"errors"
	"fmt"
	"net"
	"net/url"
	"os"
	"runtime/metrics"
	"strings"
	"sync"
	"sync/atomic"
	"testing"
	"time"

	"context"

	"github.com/fasthttp/websocket"
	"github.com/hprose/hprose-golang/v3/rpc/core"
	"github.com/hprose/hprose-golang/v3/rpc/plugins/limiter"
	"github.com/hprose/hprose-golang/v3/rpc/plugins/oneway"
	"github.com/hprose/hprose-golang/v3/rpc/plugins/timeout"
	"pgregory.net/rapid"
	"verif/hp/echo"
	"verif/hp/ev"
	"verif/hp/peer"
	"verif/hp/tp"
	"verif/hp/wire"
)

func TestMain(m *testing.M) { ev.Main(m, "C11") }

// ---- the service

var (
	gateMu  sync.Mutex
	gateMap = map[string]chan struct{}{}
	arrived = make(chan string, 1<<16)
	caseSeq int64
)

func gate(tag string) chan struct{} {
	gateMu.Lock()
	defer gateMu.Unlock()
	g, ok := gateMap[tag]
	if !ok {
		g = make(chan struct{})
		gateMap[tag] = g
	}
	return g
}

func release(tag string) {
	g := gate(tag)
	gateMu.Lock()
	defer gateMu.Unlock()
	select {
	case <-g:
	default:
		close(g)
	}
}

func Gated(tag string) string {
	arrived <- tag
	select {
	case <-gate(tag):
	case <-time.After(30 * time.Second):
	}
	return "r:" + tag
}

func Quick(tag string) string { return "q:" + tag }

type custom struct {
	Code int
	Why  string
}

type customErr struct{ msg string }

func (e customErr) Error() string { return e.msg }

var panicKinds = []string{"string", "error", "int", "nil", "struct", "customerr", "nilderef", "index", "mapwrite", "typeassert", "divzero", "closedchan", "slicebounds",
	"typed-nil-error", "nil-stringer", "error-whose-Error-panics", "func-value", "nested-panic-error"}

type brokenStringer struct{ p *custom }

func (b *brokenStringer) String() string { return b.p.Why }

type brokenError struct{}

func (brokenError) Error() string { panic("boom-inside-Error") }

func Boom(kind string) (string, error) {
	var m map[string]int
	var p *custom
	var i interface{} = "s"
	zero := 0
	switch kind {
	case "string":
		panic("boom-string")
	case "error":
		panic(errors.New("boom-error"))
	case "int":
		panic(42)
	case "nil":
		panic(nil)
	case "struct":
		panic(custom{7, "boom-struct"})
	case "customerr":
		panic(customErr{"boom-custom"})
	case "typed-nil-error":
		var pe *os.PathError
		panic(error(pe))
	case "nil-stringer":
		panic(&brokenStringer{})
	case "error-whose-Error-panics":
		panic(brokenError{})
	case "func-value":
		panic(func() {})
	case "nested-panic-error":
		panic(core.NewPanicError(core.NewPanicError("boom-nested")))
	case "nilderef":
		return p.Why, nil
	case "index":
		a := []int{1}
		return fmt.Sprint(a[len(a)+zero]), nil
	case "mapwrite":
		m["x"] = 1
	case "typeassert":
		return fmt.Sprint(i.(int)), nil
	case "divzero":
		return fmt.Sprint(1 / zero), nil
	case "closedchan":
		c := make(chan int)
		close(c)
		close(c)
	case "slicebounds":
		a := []int{1, 2}
		return fmt.Sprint(a[2-zero : 1]), nil
	}
	return "no panic", nil
}

func Typed(a int, b string) string { return fmt.Sprintf("%d/%s", a, b) }

func Big(n int) string { return strings.Repeat("x", n) }

func Unencodable() interface{} { return make(chan int) }

func newFaultService(outer ...core.PluginHandler) *core.Service {
	s := core.NewService()
	// plugins that sit outside the ones that fail
	for _, h := range outer {
		s.Use(h)
	}
	s.AddFunction(Gated, "gated")
	s.AddFunction(Quick, "quick")
	s.AddFunction(Boom, "boom")
	s.AddFunction(Typed, "typed")
	s.AddFunction(Big, "big")
	s.AddFunction(Unencodable, "unencodable")
	s.AddMissingMethod(func(name string, args []interface{}) ([]interface{}, error) {
		if strings.HasPrefix(name, "missing_boom") {
			panic("boom-missing")
		}
		return []interface{}{"m:" + name}, nil
	})
	s.Use(func(ctx context.Context, name string, args []interface{}, next core.NextInvokeHandler) ([]interface{}, error) {
		if strings.EqualFold(name, "quick") && len(args) == 1 && args[0] == "PLUGIN-BOOM" {
			panic("boom-invoke-plugin")
		}
		return next(ctx, name, args)
	})
	s.Use(func(ctx context.Context, request []byte, next core.NextIOHandler) ([]byte, error) {
		if bytes.Contains(request, []byte("IO-BOOM")) {
			panic("boom-io-plugin")
		}
		return next(ctx, request)
	})
	return s
}

type proxy struct {
	Gated       func(string) (string, error)
	Quick       func(string) (string, error)
	Boom        func(string) (string, error)
	Typed       func(int, string) (string, error)
	Big         func(int) (string, error)
	Unencodable func() (interface{}, error)
}

type endpoint struct {
	kind    string
	pool    int
	plugin  string
	server  *tp.Server
	a, b    *core.Client
	pa, pb  *proxy
	service *core.Service
}

var endpoints []*endpoint

func setup() {
	if endpoints != nil {
		return
	}
	for _, kind := range tp.Kinds {
		for _, pool := range []int{0, 8} {
			if pool > 0 && kind != "tcp" && kind != "udp" && kind != "ws" && kind != "unix" && kind != "wsfast" {
				continue
			}
			endpoints = append(endpoints, newEndpoint(kind, pool))
		}
	}
	// the same service behind the ExecuteTimeout plugin (which runs the call in a goroutine of its own)
	for _, kind := range []string{"tcp", "http", "mock", "udp", "ws"} {
		endpoints = append(endpoints, newEndpointWith(kind, 0, "execute-timeout"))
	}
	for _, kind := range []string{"tcp", "http", "mock"} {
		endpoints = append(endpoints, newEndpointWith(kind, 0, "oneway"))
	}
	for _, kind := range []string{"tcp", "http", "mock", "ws"} {
		endpoints = append(endpoints, newEndpointWith(kind, 0, "limiter"))
	}
}

func newEndpoint(kind string, pool int) *endpoint { return newEndpointWith(kind, pool, "") }

const limiterSlots = 4

func newEndpointWith(kind string, pool int, plugin string) *endpoint {
	var outer []core.PluginHandler
	if plugin == "limiter" {
		// a concurrent limiter as the outermost IO plugin: a request that fails below it must give its slot back
		outer = append(outer, limiter.NewConcurrentLimiter(limiterSlots, 1500*time.Millisecond))
	}
	s := newFaultService(outer...)
	if plugin == "execute-timeout" {
		s.Use(timeout.New(10 * time.Second))
	}
	if plugin == "oneway" {
		// calls of boom are executed one-way: the caller does not wait for them
		s.Use(func(ctx context.Context, name string, args []interface{}, next core.NextInvokeHandler) ([]interface{}, error) {
			if strings.EqualFold(name, "boom") {
				core.GetServiceContext(ctx).Items().Set("oneway", true)
			}
			return next(ctx, name, args)
		})
		s.Use(oneway.Oneway{}.Handler)
	}
	if pool > 0 {
		tp.SetPool(s, tp.NewGoPool(pool))
	}
	srv, err := tp.Start(kind, s)
	if err != nil {
		panic(err)
	}
	ep := &endpoint{kind: kind, pool: pool, plugin: plugin, server: srv, a: srv.Client(20 * time.Second), b: srv.Client(20 * time.Second), pa: &proxy{}, pb: &proxy{}, service: s}
	ep.a.UseService(ep.pa)
	ep.b.UseService(ep.pb)
	return ep
}

func drainArrived() {
	for {
		select {
		case <-arrived:
		default:
			return
		}
	}
}

func waitArrivals(n int, d time.Duration) bool {
	deadline := time.After(d)
	for i := 0; i < n; i++ {
		select {
		case <-arrived:
		case <-deadline:
			return false
		}
	}
	return true
}

// ---- faults

type fault struct {
	name string
	// level: "call" = the fault belongs to one call of client A (everything else, including A's other
	// in-flight call, must be unaffected); "conn" = it may cost A's connection; "raw" = it happens on a
	// connection of its own (A and B must be unaffected).
	level string
	kinds []string // nil = all
	// run executes the fault; the returned error is the faulty call's error ("" problem if contained).
	run func(ep *endpoint, id int64) (problem string)
}

func expectError(what string, err error, res interface{}) string {
	if err == nil {
		return fmt.Sprintf("%s returned %v without an error", what, res)
	}
	return ""
}

func callRaw(c *core.Client, req []byte) ([]byte, error) { return tp.Raw(c, req) }

var multiplexed = []string{"tcp", "unix", "udp", "ws", "wsfast"}
var streams = []string{"tcp", "unix"}
var httpish = []string{"http", "fasthttp", "ws", "wsfast"}

func hostOf(ep *endpoint) string {
	u, _ := url.Parse(ep.server.URL)
	return u.Host
}

func dialStream(ep *endpoint) net.Conn {
	u, _ := url.Parse(ep.server.URL)
	var c net.Conn
	var err error
	if ep.kind == "unix" {
		c, err = net.DialTimeout("unix", u.Path, 2*time.Second)
	} else {
		c, err = net.DialTimeout("tcp", u.Host, 2*time.Second)
	}
	if err != nil {
		return nil
	}
	return c
}

func gatedCallBytes(tag string) []byte {
	return []byte(fmt.Sprintf("Cs5\"gated\"a1{s%d\"%s\"}z", len(tag), tag))
}

func faults() []fault {
	var fs []fault
	for _, k := range panicKinds {
		k := k
		fs = append(fs, fault{name: "function panics: " + k, level: "call", run: func(ep *endpoint, id int64) string {
			res, err := ep.pa.Boom(k)
			if ep.plugin == "oneway" {
				time.Sleep(5 * time.Millisecond) // the caller of a one-way call does not learn about the panic
				return ""
			}
			return expectError("the panicking function", err, res)
		}})
	}
	if os.Getenv("VERIF_RACE_PASS") == "" {
		// (not in the race-detector pass: the harness changes the limit of the live service, a write the
		// handlers read without synchronisation by design)
		fs = append(fs, fault{name: "request larger than MaxRequestLength", level: "conn", run: func(ep *endpoint, id int64) string {
			old := ep.service.MaxRequestLength
			ep.service.MaxRequestLength = 64
			defer func() { ep.service.MaxRequestLength = old }()
			res, err := ep.pa.Quick(strings.Repeat("L", 300))
			return expectError("the call whose request exceeds the limit", err, res)
		}})
	}
	fs = append(fs,
		fault{name: "invoke plugin panics", level: "call", run: func(ep *endpoint, id int64) string {
			res, err := ep.pa.Quick("PLUGIN-BOOM")
			return expectError("the call whose plugin panicked", err, res)
		}},
		fault{name: "missing-method handler panics", level: "call", run: func(ep *endpoint, id int64) string {
			res, err := ep.a.Invoke("missing_boom_x", []interface{}{1})
			return expectError("the call whose missing-method handler panicked", err, res)
		}},
		fault{name: "io plugin panics", level: "conn", run: func(ep *endpoint, id int64) string {
			res, err := ep.pa.Quick("IO-BOOM")
			return expectError("the call whose IO plugin panicked", err, res)
		}},
		fault{name: "argument of the wrong type", level: "call", run: func(ep *endpoint, id int64) string {
			res, err := ep.a.Invoke("typed", []interface{}{"not-a-number", 5})
			return expectError("typed(\"not-a-number\", 5)", err, res)
		}},
		fault{name: "argument list as map", level: "call", run: func(ep *endpoint, id int64) string {
			res, err := ep.a.Invoke("typed", []interface{}{map[string]interface{}{"a": []int{1}}, []interface{}{1, "x"}})
			return expectError("typed(map, list)", err, res)
		}},
		fault{name: "too many arguments", level: "call", run: func(ep *endpoint, id int64) string {
			_, err := ep.a.Invoke("typed", []interface{}{1, "x", 3, 4, 5})
			_ = err // surplus arguments may be ignored or refused; either is contained
			return ""
		}},
		fault{name: "too few arguments", level: "call", run: func(ep *endpoint, id int64) string {
			_, err := ep.a.Invoke("typed", []interface{}{})
			_ = err
			return ""
		}},
		fault{name: "result cannot be encoded", level: "call", run: func(ep *endpoint, id int64) string {
			res, err := ep.pa.Unencodable()
			return expectError("a function returning a channel", err, res)
		}},
	)
	garbage := map[string][]byte{
		"empty request":                  {},
		"random bytes":                   echo.Gen(1, 200),
		"truncated call":                 []byte(`Cs5"quick"a1{s5"abc`),
		"call with huge announced count": []byte(`Cs5"quick"a2147483647{s1"a"}z`),
		"call with negative count":       []byte(`Cs5"quick"a-1{}z`),
		"unknown tag":                    []byte(`Cs5"quick"a1{@}z`),
		"reference out of range":         []byte(`Cs5"quick"a1{r9;}z`),
		"header map of wrong type":       []byte(`Hi5;Cs5"quick"a1{s1"a"}z`),
		"name is not a string":           []byte(`Ci5;a1{s1"a"}z`),
		"string length beyond the input": []byte(`Cs5"quick"a1{s9999"a"}z`),
		"deeply nested lists":            append(append([]byte(`Cs5"quick"a1{`), bytes.Repeat([]byte("a1{"), 5000)...), bytes.Repeat([]byte("}"), 5001)...),
		"only the end tag":               []byte("z"),
		"error tag as request":           []byte(`Es3"abc"z`),
		"class without object":           []byte(`Cs5"quick"a1{c3"Abc"1{s1"a"}}z`),
		"object of undefined class":      []byte(`Cs5"quick"a1{o5{}}z`),
		"bytes length beyond the input":  []byte(`Cs5"quick"a1{b70000"a"}z`),
		"invalid utf-8 in string":        []byte("Cs5\"quick\"a1{s2\"\xff\xfe\"}z"),
		"number with letters":            []byte(`Cs5"typed"a2{i12ab;s1"x"}z`),
		"date with month 13":             []byte(`Cs5"quick"a1{D20201345T256199Z}z`),
		"too-large text as request":      []byte(core.RequestEntityTooLarge),
		"result tag as request":          []byte(`Rs1"a"z`),
	}
	for name, g := range garbage {
		name, g := name, g
		fs = append(fs, fault{name: "undecodable request: " + name, level: "call", run: func(ep *endpoint, id int64) string {
			// whether the lenient decoder makes sense of the bytes or refuses them is not this property's business
			_, _ = callRaw(ep.a, g)
			return ""
		}})
	}
	// oversized for the transport
	fs = append(fs,
		fault{name: "request too large for a datagram", level: "call", kinds: []string{"udp"}, run: func(ep *endpoint, id int64) string {
			res, err := ep.pa.Quick(strings.Repeat("y", 70000))
			return expectError("a 70000-byte call over udp", err, len(res))
		}},
		fault{name: "response too large for a datagram", level: "conn", kinds: []string{"udp"}, run: func(ep *endpoint, id int64) string {
			res, err := ep.pa.Big(70000)
			return expectError("a call with a 70000-byte result over udp", err, len(res))
		}},
		fault{name: "responses of every size around the datagram limit", level: "conn", kinds: []string{"udp"}, run: func(ep *endpoint, id int64) string {
			// a string result of n bytes makes a response body of n+10 bytes: 65480..65510 covers the limit 65499 and
			// the buffer size 65507
			for n := 65470; n <= 65500; n++ {
				res, err := ep.pa.Big(n)
				if err == nil && len(res) != n {
					return fmt.Sprintf("a call with a %d-byte result returned %d bytes without an error", n, len(res))
				}
				if err != nil {
					// refused or lost: the next small call must go through
					if s, qerr := ep.pb.Quick("lim"); qerr != nil || s != "q:lim" {
						return fmt.Sprintf("after a call with a %d-byte result failed (%v) another client's call returned %q, %v", n, err, s, qerr)
					}
				}
			}
			return ""
		}},
		fault{name: "response of 4 MiB", level: "call", kinds: []string{"tcp", "unix", "ws", "wsfast", "http", "fasthttp", "mock"}, run: func(ep *endpoint, id int64) string {
			res, err := ep.pa.Big(4 << 20)
			if err != nil || len(res) != 4<<20 {
				return fmt.Sprintf("a call with a 4 MiB result failed: %d bytes, %v", len(res), err)
			}
			return ""
		}},
	)
	// raw frames on a connection of their own
	rawStream := map[string]func(c net.Conn, id int64){
		"3 bytes then close": func(c net.Conn, id int64) { c.Write([]byte{1, 2, 3}) },
		"header with wrong checksum": func(c net.Conn, id int64) {
			h := wire.SocketHeader(10, 1, false)
			h[0] ^= 0xff
			c.Write(append(h, make([]byte, 10)...))
		},
		"header announcing 2 GiB then close": func(c net.Conn, id int64) { c.Write(wire.SocketHeader(0x7fffffff, 1, false)) },
		"header announcing 1 MiB, 5 bytes":   func(c net.Conn, id int64) { c.Write(append(wire.SocketHeader(1<<20, 1, false), 1, 2, 3, 4, 5)) },
		"request frame with the error flag":  func(c net.Conn, id int64) { c.Write(wire.SocketFrame(1, []byte(`Cs5"quick"a1{s1"a"}z`), true)) },
		"http request on the socket port":    func(c net.Conn, id int64) { c.Write([]byte("GET / HTTP/1.1\r\nHost: x\r\n\r\n")) },
		"valid frame with garbage body":      func(c net.Conn, id int64) { c.Write(wire.SocketFrame(1, echo.Gen(3, 100), false)) },
		"zero-length frame":                  func(c net.Conn, id int64) { c.Write(wire.SocketFrame(1, nil, false)) },
		"1000 frames with the same index": func(c net.Conn, id int64) {
			f := wire.SocketFrame(7, []byte(`Cs5"quick"a1{s1"a"}z`), false)
			c.Write(bytes.Repeat(f, 1000))
		},
		"call in flight, then a broken frame": func(c net.Conn, id int64) {
			tag := fmt.Sprintf("raw%d", id)
			c.Write(wire.SocketFrame(1, gatedCallBytes(tag), false))
			time.Sleep(5 * time.Millisecond)
			h := wire.SocketHeader(10, 2, false)
			h[1] ^= 0x55
			c.Write(h)
			time.Sleep(5 * time.Millisecond)
			release(tag)
		},
	}
	for name, f := range rawStream {
		name, f := name, f
		fs = append(fs, fault{name: "raw socket peer: " + name, level: "raw", kinds: streams, run: func(ep *endpoint, id int64) string {
			c := dialStream(ep)
			if c == nil {
				return "cannot connect to the server any more"
			}
			f(c, id)
			time.Sleep(3 * time.Millisecond)
			c.Close()
			return ""
		}})
	}
	rawUDP := map[string]func() []byte{
		"3-byte datagram":                 func() []byte { return []byte{1, 2, 3} },
		"empty datagram":                  func() []byte { return []byte{} },
		"wrong checksum":                  func() []byte { f := wire.UDPFrame(1, []byte("abc"), false); f[2] ^= 1; return f },
		"length larger than the datagram": func() []byte { return append(wire.UDPHeader(65535, 1, false), 1, 2, 3) },
		"length 65500 and 65499 bytes":    func() []byte { return append(wire.UDPHeader(65500, 1, false), make([]byte, 65499)...) },
		"length smaller than the datagram": func() []byte {
			return append(wire.UDPHeader(1, 1, false), echo.Gen(1, 500)...)
		},
		"full 65507-byte datagram":    func() []byte { return wire.UDPFrame(1, echo.Gen(2, 65499), false) },
		"request with the error flag": func() []byte { return wire.UDPFrame(1, []byte(`Cs5"quick"a1{s1"a"}z`), true) },
		"garbage body":                func() []byte { return wire.UDPFrame(1, echo.Gen(9, 300), false) },
	}
	for name, f := range rawUDP {
		name, f := name, f
		fs = append(fs, fault{name: "raw udp peer: " + name, level: "raw", kinds: []string{"udp"}, run: func(ep *endpoint, id int64) string {
			addr, _ := net.ResolveUDPAddr("udp", hostOf(ep))
			c, err := net.DialUDP("udp", nil, addr)
			if err != nil {
				return "cannot open a udp socket"
			}
			c.Write(f())
			time.Sleep(3 * time.Millisecond)
			c.Close()
			return ""
		}})
	}
	rawWS := map[string]func(c *websocket.Conn, id int64){
		"binary message of 2 bytes": func(c *websocket.Conn, id int64) { c.WriteMessage(websocket.BinaryMessage, []byte{1, 2}) },
		"empty binary message":      func(c *websocket.Conn, id int64) { c.WriteMessage(websocket.BinaryMessage, nil) },
		"text message":              func(c *websocket.Conn, id int64) { c.WriteMessage(websocket.TextMessage, []byte("hello")) },
		"request with error flag": func(c *websocket.Conn, id int64) {
			c.WriteMessage(websocket.BinaryMessage, wire.WSFrame(1, []byte(`Cs5"quick"a1{s1"a"}z`), true))
		},
		"garbage body": func(c *websocket.Conn, id int64) {
			c.WriteMessage(websocket.BinaryMessage, wire.WSFrame(1, echo.Gen(4, 100), false))
		},
		"ping then abrupt close": func(c *websocket.Conn, id int64) {
			c.WriteMessage(websocket.PingMessage, []byte("p"))
			c.UnderlyingConn().Close()
		},
		"close frame with bad code": func(c *websocket.Conn, id int64) { c.WriteMessage(websocket.CloseMessage, []byte{0xff}) },
		"call in flight, then 1 byte": func(c *websocket.Conn, id int64) {
			tag := fmt.Sprintf("raw%d", id)
			c.WriteMessage(websocket.BinaryMessage, wire.WSFrame(1, gatedCallBytes(tag), false))
			time.Sleep(5 * time.Millisecond)
			c.WriteMessage(websocket.BinaryMessage, []byte{9})
			time.Sleep(5 * time.Millisecond)
			release(tag)
		},
	}
	for name, f := range rawWS {
		name, f := name, f
		fs = append(fs, fault{name: "raw websocket peer: " + name, level: "raw", kinds: []string{"ws", "wsfast"}, run: func(ep *endpoint, id int64) string {
			d := websocket.Dialer{Subprotocols: []string{"hprose"}, HandshakeTimeout: 2 * time.Second}
			c, _, err := d.Dial(ep.server.URL, nil)
			if err != nil {
				return "cannot open a websocket to the server any more: " + err.Error()
			}
			f(c, id)
			time.Sleep(3 * time.Millisecond)
			c.Close()
			return ""
		}})
	}
	rawHTTP := map[string]string{
		"malformed request line":        "NOT-HTTP\r\n\r\n",
		"body shorter than declared":    "POST / HTTP/1.1\r\nHost: x\r\nContent-Length: 100\r\n\r\nabc",
		"negative content length":       "POST / HTTP/1.1\r\nHost: x\r\nContent-Length: -5\r\n\r\nabc",
		"garbage body":                  "POST / HTTP/1.1\r\nHost: x\r\nContent-Length: 5\r\n\r\n\x00\x01\x02\x03\x04",
		"IO plugin panic over raw http": "POST / HTTP/1.1\r\nHost: x\r\nContent-Length: 7\r\n\r\nIO-BOOM",
		"bad chunk size":                "POST / HTTP/1.1\r\nHost: x\r\nTransfer-Encoding: chunked\r\n\r\nzz\r\nabc\r\n0\r\n\r\n",
		"PUT with body":                 "PUT / HTTP/1.1\r\nHost: x\r\nContent-Length: 3\r\n\r\nabc",
		"GET of crossdomain.xml":        "GET /crossdomain.xml HTTP/1.1\r\nHost: x\r\n\r\n",
		"websocket upgrade without key": "GET / HTTP/1.1\r\nHost: x\r\nUpgrade: websocket\r\nConnection: Upgrade\r\nSec-WebSocket-Version: 13\r\n\r\n",
	}
	for name, raw := range rawHTTP {
		name, raw := name, raw
		fs = append(fs, fault{name: "raw http peer: " + name, level: "raw", kinds: httpish, run: func(ep *endpoint, id int64) string {
			c, err := net.DialTimeout("tcp", hostOf(ep), 2*time.Second)
			if err != nil {
				return "cannot connect to the server any more"
			}
			c.Write([]byte(raw))
			c.SetReadDeadline(time.Now().Add(100 * time.Millisecond))
			buf := make([]byte, 4096)
			c.Read(buf)
			c.Close()
			_ = name
			return ""
		}})
	}
	return fs
}

func applicable(f fault, kind string) bool {
	if f.kinds == nil {
		return true
	}
	for _, k := range f.kinds {
		if k == kind {
			return true
		}
	}
	return false
}

func report(rt interface{ Fatalf(string, ...interface{}) }, sub, test, canon, problem string) {
	if problem == "" {
		return
	}
	if key := classify(canon, problem); key != "" {
		ev.S.Exclude(key, canon+" => "+problem)
		return
	}
	if os.Getenv("VERIF_TRIAGE") != "" {
		fmt.Printf("TRIAGE %s | %s\n", strings.ReplaceAll(problem, "\n", " // "), canon)
		return
	}
	ev.S.Violation(sub, test, canon, problem, nil)
	rt.Fatalf("%s\n=> %s", canon, problem)
}

func classify(canon, problem string) string { return "" }

var serial sync.Mutex

func runCase(ep *endpoint, f fault, inflight bool, repeat int) string {
	id := atomic.AddInt64(&caseSeq, 1)
	drainArrived()
	tagA, tagB := fmt.Sprintf("a%d", id), fmt.Sprintf("b%d", id)
	type res struct {
		s   string
		err error
	}
	doneA, doneB := make(chan res, 1), make(chan res, 1)
	if inflight {
		go func() { s, err := ep.pa.Gated(tagA); doneA <- res{s, err} }()
		go func() { s, err := ep.pb.Gated(tagB); doneB <- res{s, err} }()
		if !waitArrivals(2, 4*time.Second) {
			release(tagA)
			release(tagB)
			return "the two sentinel calls issued before the fault never reached the service"
		}
	}
	problem := ""
	for r := 0; r < repeat && problem == ""; r++ {
		problem = f.run(ep, id*100+int64(r))
	}
	if f.level != "call" {
		time.Sleep(5 * time.Millisecond)
	}
	if inflight {
		release(tagA)
		release(tagB)
		for _, w := range []struct {
			name string
			ch   chan res
			tag  string
			may  bool
		}{{"another client", doneB, tagB, false}, {"the same client", doneA, tagA, f.level == "conn"}} {
			select {
			case r := <-w.ch:
				if (r.err != nil || r.s != "r:"+w.tag) && !w.may && problem == "" {
					problem = fmt.Sprintf("the call of %s that was in flight during the fault returned %q, %v", w.name, r.s, r.err)
				}
			case <-time.After(6 * time.Second):
				if problem == "" {
					problem = fmt.Sprintf("the call of %s that was in flight during the fault never returned", w.name)
				}
			}
		}
	}
	// afterwards both clients must work
	for _, w := range []struct {
		name string
		p    *proxy
	}{{"another client", ep.pb}, {"the same client", ep.pa}} {
		tag := fmt.Sprintf("after%d", id)
		s, err := w.p.Quick(tag)
		if err != nil && f.level == "conn" && w.p == ep.pa {
			// the fault may have cost this client's connection and the client may not have noticed yet: a call
			// that runs into the dead connection fails, the ones after it must reconnect and succeed
			for try := 0; try < 3 && err != nil; try++ {
				time.Sleep(20 * time.Millisecond)
				s, err = w.p.Quick(tag)
			}
		}
		if (err != nil || s != "q:"+tag) && problem == "" {
			problem = fmt.Sprintf("a call of %s issued after the fault returned %q, %v", w.name, s, err)
		}
	}
	if ep.plugin == "limiter" && problem == "" {
		// every slot of the limiter must be available again: that many calls can be in flight at once
		drainArrived()
		tags := make([]string, limiterSlots)
		done := make(chan error, limiterSlots)
		for i := range tags {
			tags[i] = fmt.Sprintf("slot%d-%d", id, i)
			go func(tag string) { _, err := ep.pb.Gated(tag); done <- err }(tags[i])
		}
		if !waitArrivals(limiterSlots, 3*time.Second) {
			problem = fmt.Sprintf("after the fault fewer than %d calls can be in flight behind the concurrent limiter of %d: a failed request kept its slot", limiterSlots, limiterSlots)
		}
		for _, tag := range tags {
			release(tag)
		}
		for range tags {
			select {
			case <-done:
			case <-time.After(5 * time.Second):
			}
		}
	}
	return problem
}

// TestEveryFault runs every fault of the catalogue on every endpoint it applies to, with calls in flight.
func TestEveryFault(t *testing.T) {
	setup()
	fs := faults()
	k := 0
	for _, ep := range endpoints {
		for _, f := range fs {
			if !applicable(f, ep.kind) {
				continue
			}
			k++
			if ev.S.NShards > 1 && k%ev.S.NShards != ev.S.Shard {
				continue
			}
			canon := fmt.Sprintf("%s pool=%d %s fault: %s (calls of the same and of another client in flight)", ep.kind, ep.pool, ep.plugin, f.name)
			ev.S.Begin("every-fault", canon)
			serial.Lock()
			problem := runCase(ep, f, true, 1)
			serial.Unlock()
			ev.S.Case("every-fault", canon, true, "fault="+ep.kind+"/"+f.level, fmt.Sprintf("fault-pool=%d", ep.pool))
			report(t, "every-fault", "TestEveryFault", canon, problem)
		}
	}
	ev.S.Exhaustive("every-fault", true)
}

// TestFaultSequences: generated sequences of faults on one endpoint, some repeated more often than the
// worker pool has workers, with and without calls in flight.
func TestFaultSequences(t *testing.T) {
	if ev.S.Failed("fault-sequences") {
		t.Skip("an earlier sub-check already failed in this process; its fixtures are suspect")
	}
	setup()
	fs := faults()
	ev.Check(t, "fault-sequences", ev.N(300, 150000), func(rt *rapid.T) {
		ep := rapid.SampledFrom(endpoints).Draw(rt, "endpoint")
		var mine []fault
		for _, f := range fs {
			if applicable(f, ep.kind) {
				mine = append(mine, f)
			}
		}
		n := rapid.IntRange(1, 5).Draw(rt, "faults")
		var names []string
		var steps []struct {
			f        fault
			inflight bool
			repeat   int
		}
		for i := 0; i < n; i++ {
			f := mine[rapid.IntRange(0, len(mine)-1).Draw(rt, "fault")]
			rep := 1
			if rapid.IntRange(0, 3).Draw(rt, "burst") == 0 {
				rep = rapid.IntRange(2, 12).Draw(rt, "repeat")
			}
			infl := rapid.Bool().Draw(rt, "inflight")
			steps = append(steps, struct {
				f        fault
				inflight bool
				repeat   int
			}{f, infl, rep})
			names = append(names, fmt.Sprintf("%s x%d inflight=%v", f.name, rep, infl))
		}
		canon := fmt.Sprintf("%s pool=%d %s faults: %s", ep.kind, ep.pool, ep.plugin, strings.Join(names, "; "))
		ev.S.Begin("fault-sequences", canon)
		serial.Lock()
		defer serial.Unlock()
		problem := ""
		for _, s := range steps {
			if p := runCase(ep, s.f, s.inflight, s.repeat); p != "" {
				problem = fmt.Sprintf("after %q: %s", s.f.name, p)
				break
			}
		}
		ev.S.Case("fault-sequences", canon, true, "seq="+ep.kind, fmt.Sprintf("seq-len=%d", n))
		report(rt, "fault-sequences", "TestFaultSequences", canon, problem)
	})
}

// TestSmallPool: raw peers whose connection is dropped while their call is executing, more often than a
// small worker pool has workers; afterwards healthy calls must still be served.
func TestSmallPool(t *testing.T) {
	if ev.S.Failed("small-pool") {
		t.Skip("an earlier sub-check already failed in this process; its fixtures are suspect")
	}
	for _, kind := range []string{"tcp", "unix", "ws", "udp"} {
		for _, size := range []int{1, 2} {
			canon := fmt.Sprintf("%s with a worker pool of %d: %d raw peers drop their connection with a broken frame while their call is executing", kind, size, size+2)
			ev.S.Begin("small-pool", canon)
			ep := newEndpoint(kind, size)
			var target fault
			for _, f := range faults() {
				if applicable(f, kind) && (strings.Contains(f.name, "call in flight, then") || (kind == "udp" && strings.Contains(f.name, "wrong checksum"))) {
					target = f
				}
			}
			problem := ""
			for r := 0; r < size+2 && problem == ""; r++ {
				id := atomic.AddInt64(&caseSeq, 1)
				problem = target.run(ep, id*100)
				time.Sleep(10 * time.Millisecond)
			}
			if problem == "" {
				time.Sleep(20 * time.Millisecond)
				for i := 0; i < 3 && problem == ""; i++ {
					tag := fmt.Sprintf("sp%d", i)
					if s, err := ep.pb.Quick(tag); err != nil || s != "q:"+tag {
						problem = fmt.Sprintf("a healthy call of another client afterwards returned %q, %v", s, err)
					}
				}
			}
			ep.a.Abort()
			ep.b.Abort()
			ep.server.Close()
			ev.S.Case("small-pool", canon, true, "small-pool="+kind)
			report(t, "small-pool", "TestSmallPool", canon, problem)
		}
	}
}

func allocatedBytes() uint64 {
	sample := []metrics.Sample{{Name: "/gc/heap/allocs:bytes"}}
	metrics.Read(sample)
	return sample[0].Value.Uint64()
}

// TestLyingLengthMemory: a 12-byte header announcing a huge body must not make the receiving side
// allocate what it announces: a handful of such headers would otherwise take the process down.
func TestLyingLengthMemory(t *testing.T) {
	if ev.S.Failed("lying-length-memory") {
		t.Skip("an earlier sub-check already failed in this process")
	}
	const bound = 64 << 20
	for _, kind := range []string{"tcp", "unix"} {
		for _, announced := range []int{0x7fffffff, 1 << 30, 300 << 20} {
			for _, side := range []string{"server", "client"} {
				canon := fmt.Sprintf("%s %s receives a header announcing %d bytes followed by 5 bytes and silence", kind, side, announced)
				ev.S.Begin("lying-length-memory", canon)
				serial.Lock()
				problem := ""
				before := allocatedBytes()
				if side == "server" {
					ep := newEndpoint(kind, 0)
					c := dialStream(ep)
					c.Write(append(wire.SocketHeader(announced, 1, false), 1, 2, 3, 4, 5))
					time.Sleep(300 * time.Millisecond)
					c.Close()
					if s, err := ep.pb.Quick("m"); err != nil || s != "q:m" {
						problem = fmt.Sprintf("a healthy call afterwards returned %q, %v", s, err)
					}
					ep.a.Abort()
					ep.b.Abort()
					ep.server.Close()
				} else {
					p, err := peer.Start(kind)
					if err != nil {
						t.Fatal(err)
					}
					client := core.NewClient(p.URL)
					client.Timeout = 600 * time.Millisecond
					px := &proxy{}
					client.UseService(px)
					done := make(chan error, 1)
					go func() { _, err := px.Quick("victim"); done <- err }()
					if f, err := p.Recv(3 * time.Second); err == nil {
						p.Raw(append(wire.SocketHeader(announced, f.Index, false), 1, 2, 3, 4, 5))
					}
					if err := <-done; err == nil {
						problem = "the call answered with a lying header returned without an error"
					}
					p.Close()
					client.Abort()
				}
				if grown := allocatedBytes() - before; grown > bound && problem == "" {
					problem = fmt.Sprintf("the %s allocated %d MiB on receiving a 12-byte header announcing %d bytes (5 body bytes ever arrived)", side, grown>>20, announced)
				}
				serial.Unlock()
				ev.S.Case("lying-length-memory", canon, true, "lying-length="+kind+"/"+side)
				report(t, "lying-length-memory", "TestLyingLengthMemory", canon, problem)
			}
		}
	}
	ev.S.Exhaustive("lying-length-memory", true)
}

// ---- client side: a scripted peer misbehaves

func respBody(s string) []byte { return []byte(fmt.Sprintf("Rs%d\"%s\"z", len(s), s)) }

type clientFault struct {
	name  string
	kinds []string
	// send the faulty answer to request f; conn=true if it may cost the connection
	send func(p *peer.Peer, f peer.Frame)
	conn bool
}

func clientFaults() []clientFault {
	all := []string{"tcp", "unix", "udp", "ws"}
	return []clientFault{
		{"undecodable response body", all, func(p *peer.Peer, f peer.Frame) { p.Send(peer.Frame{Index: f.Index, Body: echo.Gen(5, 50)}) }, false},
		{"empty response body", all, func(p *peer.Peer, f peer.Frame) { p.Send(peer.Frame{Index: f.Index, Body: nil}) }, false},
		{"truncated result", all, func(p *peer.Peer, f peer.Frame) { p.Send(peer.Frame{Index: f.Index, Body: []byte(`Rs10"abc`)}) }, false},
		{"result of another type", all, func(p *peer.Peer, f peer.Frame) {
			p.Send(peer.Frame{Index: f.Index, Body: []byte(`Rm1{s1"a"a1{i1;}}z`)})
		}, false},
		{"error response with the error flag", all, func(p *peer.Peer, f peer.Frame) {
			p.Send(peer.Frame{Index: f.Index, Body: []byte("some error"), Err: true})
		}, true},
		{"too-large error frame", all, func(p *peer.Peer, f peer.Frame) {
			p.Send(peer.Frame{Index: f.Index, Body: []byte(core.RequestEntityTooLarge), Err: true})
		}, true},
		{"frame with wrong checksum", []string{"tcp", "unix", "udp"}, func(p *peer.Peer, f peer.Frame) {
			var b []byte
			if p.Kind == "udp" {
				b = wire.UDPFrame(f.Index, respBody("x"), false)
			} else {
				b = wire.SocketFrame(f.Index, respBody("x"), false)
			}
			b[0] ^= 0x80
			p.Raw(b)
		}, true},
		{"3 raw bytes", []string{"tcp", "unix", "udp"}, func(p *peer.Peer, f peer.Frame) {
			p.Raw([]byte{1, 2, 3})
			if p.Kind != "udp" {
				time.Sleep(2 * time.Millisecond)
				p.Drop() // on a stream the three bytes would otherwise be taken for the start of the next frame
			}
		}, true},
		{"websocket message of 2 bytes", []string{"ws"}, func(p *peer.Peer, f peer.Frame) { p.Raw([]byte{1, 2}) }, true},
		{"empty websocket message", []string{"ws"}, func(p *peer.Peer, f peer.Frame) { p.Raw([]byte{}) }, true},
		{"websocket text message", []string{"ws"}, func(p *peer.Peer, f peer.Frame) {
			p.Text([]byte("hi"))
			p.Send(peer.Frame{Index: f.Index, Body: []byte("Es4\"fail\"z")})
		}, false},
		{"datagram announcing more than it carries", []string{"udp"}, func(p *peer.Peer, f peer.Frame) {
			p.Raw(append(wire.UDPHeader(60000, f.Index, false), respBody("x")...))
		}, true},
		{"header announcing 2 GiB then silence", []string{"tcp", "unix"}, func(p *peer.Peer, f peer.Frame) {
			p.Raw(wire.SocketHeader(0x7fffffff, f.Index, false))
			time.Sleep(20 * time.Millisecond)
			p.Drop()
		}, true},
		{"connection dropped instead of an answer", []string{"tcp", "unix", "ws"}, func(p *peer.Peer, f peer.Frame) { p.Drop() }, true},
		{"connection reset instead of an answer", []string{"tcp", "ws"}, func(p *peer.Peer, f peer.Frame) { p.Reset() }, true},
	}
}

// TestClientSide: the faulty answer goes to one of two pending calls; the other one is answered properly
// (unless the fault may cost the connection), calls issued afterwards succeed, and a second client
// talking to a healthy server is never disturbed.
func TestClientSide(t *testing.T) {
	if ev.S.Failed("client-side") {
		t.Skip("an earlier sub-check already failed in this process; its fixtures are suspect")
	}
	healthy := newEndpoint("tcp", 0)
	k := 0
	rounds := ev.Pick(1, 40)
	for round := 0; round < rounds; round++ {
		for _, kind := range peer.Kinds {
			for _, cf := range clientFaults() {
				ok := false
				for _, kk := range cf.kinds {
					ok = ok || kk == kind
				}
				if !ok {
					continue
				}
				for _, faultFirst := range []bool{true, false} {
					k++
					if ev.S.NShards > 1 && k%ev.S.NShards != ev.S.Shard {
						continue
					}
					canon := fmt.Sprintf("%s client: peer answers one of two pending calls with %s (faulty answer first=%v) round %d", kind, cf.name, faultFirst, round)
					ev.S.Begin("client-side", canon)
					p, err := peer.Start(kind)
					if err != nil {
						t.Fatal(err)
					}
					client := core.NewClient(p.URL)
					client.Timeout = 1500 * time.Millisecond
					px := &proxy{}
					client.UseService(px)
					type res struct {
						s   string
						err error
					}
					victim, other := make(chan res, 1), make(chan res, 1)
					go func() { s, err := px.Quick("victim"); victim <- res{s, err} }()
					go func() { s, err := px.Quick("other"); other <- res{s, err} }()
					problem := ""
					frames, err := p.RecvN(2, 3*time.Second)
					if err != nil {
						problem = "harness: " + err.Error()
					} else {
						fv, fo := frames[0], frames[1]
						if bytes.Contains(fv.Body, []byte("other")) {
							fv, fo = fo, fv
						}
						if faultFirst {
							cf.send(p, fv)
							time.Sleep(2 * time.Millisecond)
							p.Send(peer.Frame{Index: fo.Index, Body: respBody("q:other")})
						} else {
							p.Send(peer.Frame{Index: fo.Index, Body: respBody("q:other")})
							time.Sleep(2 * time.Millisecond)
							cf.send(p, fv)
						}
						select {
						case r := <-victim:
							if r.err == nil {
								problem = fmt.Sprintf("the call that was answered with %s returned %q without an error", cf.name, r.s)
							}
						case <-time.After(5 * time.Second):
							problem = "the call with the faulty answer never returned"
						}
						select {
						case r := <-other:
							if (r.err != nil || r.s != "q:other") && !(cf.conn && faultFirst) && problem == "" {
								problem = fmt.Sprintf("the other pending call, answered properly, returned %q, %v", r.s, r.err)
							}
						case <-time.After(5 * time.Second):
							if problem == "" {
								problem = "the other pending call never returned"
							}
						}
					}
					// a call issued afterwards: the peer answers properly
					if problem == "" {
						time.Sleep(5 * time.Millisecond)
						for len(p.In) > 0 {
							<-p.In
						}
						// when the fault may have cost the connection, a call that still runs into the dead connection
						// may fail; the ones after it must reconnect and succeed
						tries := 1
						if cf.conn {
							tries = 4
						}
						for try := 0; try < tries; try++ {
							problem = ""
							after := make(chan res, 1)
							go func() { s, err := px.Quick("after"); after <- res{s, err} }()
							if f, err := p.Recv(2 * time.Second); err != nil {
								problem = "a call issued after the fault never reached the peer: the client is no longer usable"
								<-after
							} else {
								p.Send(peer.Frame{Index: f.Index, Body: respBody("q:after")})
								select {
								case r := <-after:
									if r.err != nil || r.s != "q:after" {
										problem = fmt.Sprintf("a call issued after the fault returned %q, %v", r.s, r.err)
									}
								case <-time.After(5 * time.Second):
									problem = "a call issued after the fault never returned"
								}
							}
							if problem == "" {
								break
							}
							time.Sleep(20 * time.Millisecond)
						}
					}
					if problem == "" {
						if s, err := healthy.pb.Quick("h"); err != nil || s != "q:h" {
							problem = fmt.Sprintf("another client of the same process, talking to a healthy server, got %q, %v", s, err)
						}
					}
					client.Abort()
					p.Close()
					ev.S.Case("client-side", canon, true, "client-fault="+kind, fmt.Sprintf("client-fault-conn=%v", cf.conn))
					report(t, "client-side", "TestClientSide", canon, problem)
				}
			}
		}
	}
}

func TestFinding(t *testing.T) {
	t.Skip("no open finding " + ev.FindingKey())
}
