package c11

import (
	"fmt"
	"testing"
	"time"

	"github.com/hprose/hprose-golang/v3/rpc/core"
	"github.com/hprose/hprose-golang/v3/rpc/plugins/timeout"
	"verif/hp/ev"
	"verif/hp/tp"
)

// TestLatePanic: behind a short ExecuteTimeout a function fails (panics) AFTER its caller has been answered
// with the time-out. The fault belongs to that one call: the process survives (a death is attributed to this
// case by the driver), and calls of the same and of another client made before, meanwhile and afterwards
// are answered.
func LateBoom(tag string) string {
	time.Sleep(150 * time.Millisecond)
	panic("late-boom:" + tag)
}

func TestLatePanic(t *testing.T) {
	k := 0
	for _, kind := range tp.Kinds {
		for _, pool := range []int{0, 4} {
			if pool > 0 && kind != "tcp" && kind != "udp" && kind != "ws" {
				continue
			}
			k++
			if ev.S.NShards > 1 && k%ev.S.NShards != ev.S.Shard {
				continue
			}
			canon := fmt.Sprintf("%s pool=%d service with ExecuteTimeout of 40ms: a function panics 150ms after it was called, i.e. after its caller got the time-out", kind, pool)
			ev.S.Begin("late-panic", canon)
			s := core.NewService()
			s.AddFunction(Quick, "quick")
			s.AddFunction(LateBoom, "lateBoom")
			s.Use(timeout.New(40 * time.Millisecond))
			if pool > 0 {
				tp.SetPool(s, tp.NewGoPool(pool))
			}
			srv, err := tp.Start(kind, s)
			if err != nil {
				t.Fatal(err)
			}
			a, b := srv.Client(5*time.Second), srv.Client(5*time.Second)
			quick := func(c *core.Client, tag string) string {
				res, err := c.Invoke("quick", []interface{}{tag})
				if err != nil || len(res) != 1 || res[0] != "q:"+tag {
					return fmt.Sprintf("quick(%q) returned %v, %v", tag, res, err)
				}
				return ""
			}
			problem := quick(a, "before-a")
			if problem == "" {
				problem = quick(b, "before-b")
			}
			if problem != "" {
				problem = "harness: " + problem
			}
			for round := 0; round < 3 && problem == ""; round++ {
				res, err := a.Invoke("lateBoom", []interface{}{fmt.Sprint(round)})
				if err == nil {
					problem = fmt.Sprintf("the call that overran the execute time-out returned %v without an error", res)
					break
				}
				// meanwhile (the function is still running) and after it has panicked
				for i := 0; i < 6 && problem == ""; i++ {
					if p := quick(b, fmt.Sprintf("b-%d-%d", round, i)); p != "" {
						problem = "another client, around the late panic: " + p
					} else if p := quick(a, fmt.Sprintf("a-%d-%d", round, i)); p != "" {
						problem = "the same client, around the late panic: " + p
					}
					time.Sleep(40 * time.Millisecond)
				}
			}
			a.Abort()
			b.Abort()
			srv.Close()
			ev.S.Case("late-panic", canon, true, "late-panic="+kind)
			report(t, "late-panic", "TestLatePanic", canon, problem)
		}
	}
}
