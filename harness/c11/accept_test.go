package c11

import (
	"fmt"
	"os"
	"strings"
	"syscall"
	"testing"
	"time"

	"github.com/hprose/hprose-golang/v3/rpc/core"
	"verif/hp/ev"
	"verif/hp/tp"
)

// TestAcceptPressure: the process runs out of file descriptors for a moment, so the listener's Accept fails
// with "too many open files" while a client is connecting. That is a fault of the moment, not of the server:
// once descriptors are available again the waiting client and every later one must be served. Runs in a child
// process (it lowers the descriptor limit of its process).
func TestAcceptPressureChild(t *testing.T) {
	kind, ok := ev.ChildPayload()
	if !ok {
		t.Skip("child only")
	}
	s := core.NewService()
	s.AddFunction(Quick, "quick")
	srv, err := tp.Start(kind, s)
	if err != nil {
		fmt.Println("NOVERDICT start:", err)
		return
	}
	warm := srv.Client(5 * time.Second)
	if _, err := warm.Invoke("quick", []interface{}{"warm"}); err != nil {
		fmt.Println("NOVERDICT warm-up call failed:", err)
		return
	}
	var lim syscall.Rlimit
	syscall.Getrlimit(syscall.RLIMIT_NOFILE, &lim)
	lim.Cur = 200
	if err := syscall.Setrlimit(syscall.RLIMIT_NOFILE, &lim); err != nil {
		fmt.Println("NOVERDICT setrlimit:", err)
		return
	}
	// take every descriptor, then give one back: the connecting client gets it, the accept finds none
	var hog []*os.File
	for {
		f, err := os.Open(os.DevNull)
		if err != nil {
			break
		}
		hog = append(hog, f)
	}
	if len(hog) < 2 {
		fmt.Println("NOVERDICT could not exhaust descriptors")
		return
	}
	hog[len(hog)-1].Close()
	hog = hog[:len(hog)-1]
	client := srv.Client(8 * time.Second)
	done := make(chan error, 1)
	go func() {
		res, err := client.Invoke("quick", []interface{}{"pressed"})
		if err == nil && (len(res) != 1 || res[0] != "q:pressed") {
			err = fmt.Errorf("result %v", res)
		}
		done <- err
	}()
	time.Sleep(150 * time.Millisecond) // the accept has failed at least once by now
	for _, f := range hog {
		f.Close()
	}
	select {
	case err := <-done:
		if err != nil && (strings.Contains(err.Error(), "too many open files") || strings.Contains(err.Error(), "connection refused")) {
			fmt.Println("NOVERDICT the client itself ran out of descriptors:", err)
			return
		}
		if err != nil {
			fmt.Println("PROBLEM the call that was connecting while the server's accept failed for lack of descriptors returned:", err)
			return
		}
	case <-time.After(10 * time.Second):
		fmt.Println("PROBLEM the call that was connecting while the server's accept failed never returned")
		return
	}
	later := srv.Client(5 * time.Second)
	if res, err := later.Invoke("quick", []interface{}{"later"}); err != nil || len(res) != 1 || res[0] != "q:later" {
		fmt.Println("PROBLEM after descriptors were available again a new client got:", res, err)
		return
	}
	fmt.Println("CONTAINED")
}

func TestAcceptPressure(t *testing.T) {
	k := 0
	for _, kind := range []string{"tcp", "unix", "ws", "http"} {
		for rep := 0; rep < ev.Pick(1, 6); rep++ {
			k++
			if ev.S.NShards > 1 && k%ev.S.NShards != ev.S.Shard {
				continue
			}
			canon := fmt.Sprintf("%s server: the process runs out of file descriptors while a client connects (accept fails with EMFILE), then descriptors are freed (round %d)", kind, rep)
			ev.S.Begin("accept-pressure", canon)
			out, abnormal := ev.InChild("TestAcceptPressureChild", kind, 60*time.Second)
			problem := ""
			switch {
			case strings.Contains(out, "PROBLEM "):
				i := strings.Index(out, "PROBLEM ")
				problem = strings.SplitN(out[i+8:], "\n", 2)[0]
			case strings.Contains(out, "CONTAINED"):
			case strings.Contains(out, "NOVERDICT"):
				ev.S.Class("accept-pressure-no-verdict", 1)
			case abnormal:
				tail := out
				if len(tail) > 600 {
					tail = tail[len(tail)-600:]
				}
				problem = "the process died or hung while descriptors were short: " + strings.ReplaceAll(tail, "\n", " // ")
			}
			ev.S.Case("accept-pressure", canon, strings.Contains(out, "CONTAINED") || problem != "", "accept-pressure="+kind)
			report(t, "accept-pressure", "TestAcceptPressure", canon, problem)
		}
	}
}
