// C09 — concurrent calls each get their own response.
package c09

import (
	"context"
	"fmt"
	"os"
	"reflect"
	"regexp"
	"sort"
	"strconv"
	"strings"
	"sync"
	"sync/atomic"
	"testing"
	"time"

	"github.com/hprose/hprose-golang/v3/rpc/core"
	"github.com/hprose/hprose-golang/v3/rpc/plugins/reverse"
	"pgregory.net/rapid"
	"verif/hp/ev"
	"verif/hp/peer"
	"verif/hp/tp"
	"verif/hp/wire"
)

func TestMain(m *testing.M) { ev.Main(m, "C09") }

// ---- gated service function: the harness decides when each call completes

var (
	gateMu  sync.Mutex
	gateMap = map[string]chan struct{}{}
	arrived = make(chan string, 1<<16)
	caseSeq int64
)

func gate(tag string) chan struct{} {
	gateMu.Lock()
	defer gateMu.Unlock()
	g, ok := gateMap[tag]
	if !ok {
		g = make(chan struct{})
		gateMap[tag] = g
	}
	return g
}

func release(tag string) {
	g := gate(tag)
	gateMu.Lock()
	defer gateMu.Unlock()
	select {
	case <-g:
	default:
		close(g)
	}
}

func forget(tags []string) {
	gateMu.Lock()
	for _, t := range tags {
		delete(gateMap, t)
	}
	gateMu.Unlock()
}

func Gated(tag string) string {
	arrived <- tag
	<-gate(tag)
	return "r:" + tag
}

func Quick(tag string) string { return "q:" + tag }

// GatedBlob completes like Gated and hands its (large) second argument back.
func GatedBlob(tag string, blob string) string {
	arrived <- tag
	<-gate(tag)
	return blob
}

// GatedBoom and GatedErr complete like Gated, but with a panic / an error that names the call.
func GatedBoom(tag string) string {
	arrived <- tag
	<-gate(tag)
	panic("boom:" + tag)
}

func GatedErr(tag string) (string, error) {
	arrived <- tag
	<-gate(tag)
	return "", fmt.Errorf("fail:%s", tag)
}

type proxy struct {
	Gated     func(string) (string, error)
	Quick     func(string) (string, error)
	GatedBlob func(string, string) (string, error)
}

type endpoint struct {
	kind   string
	pool   bool
	server *tp.Server
	client *core.Client
	p      *proxy
}

var endpoints []*endpoint

func newGatedService() *core.Service {
	s := core.NewService()
	s.AddFunction(Gated, "gated")
	s.AddFunction(Quick, "quick")
	s.AddFunction(GatedBlob, "gatedBlob")
	return s
}

func setup() {
	if endpoints != nil {
		return
	}
	for _, kind := range tp.Kinds {
		for _, pool := range []bool{false, true} {
			if pool && kind != "tcp" && kind != "unix" && kind != "udp" && kind != "ws" && kind != "wsfast" {
				continue
			}
			s := newGatedService()
			if pool {
				tp.SetPool(s, tp.NewGoPool(16))
			}
			srv, err := tp.Start(kind, s)
			if err != nil {
				panic(err)
			}
			ep := &endpoint{kind: kind, pool: pool, server: srv, client: srv.Client(20 * time.Second), p: &proxy{}}
			ep.client.UseService(ep.p)
			endpoints = append(endpoints, ep)
		}
	}
}

func drainArrived() {
	for {
		select {
		case <-arrived:
		default:
			return
		}
	}
}

func waitArrivals(want map[string]bool, timeout time.Duration) string {
	deadline := time.After(timeout)
	seen := map[string]bool{}
	for len(seen) < len(want) {
		select {
		case t := <-arrived:
			if !want[t] {
				return fmt.Sprintf("the service was invoked with %q, which no caller of this case passed", t)
			}
			if seen[t] {
				return fmt.Sprintf("the service was invoked twice for %q", t)
			}
			seen[t] = true
		case <-deadline:
			return fmt.Sprintf("only %d of %d concurrent calls reached the service within %v", len(seen), len(want), timeout)
		}
	}
	return ""
}

type result struct {
	tag string
	got string
	err error
}

func report(rt *rapid.T, sub, test, canon, problem string) {
	if problem == "" {
		return
	}
	if os.Getenv("VERIF_TRIAGE") != "" {
		fmt.Printf("TRIAGE %s | %s\n", strings.ReplaceAll(problem, "\n", " // "), canon)
		return
	}
	ev.S.Violation(sub, test, canon, problem, nil)
	rt.Fatalf("%s\n=> %s", canon, problem)
}

func orderOf(rt *rapid.T, n int) ([]int, string) {
	idx := make([]int, n)
	for i := range idx {
		idx[i] = i
	}
	kind := rapid.SampledFrom([]string{"in-order", "reversed", "random", "evens-then-odds"}).Draw(rt, "order")
	switch kind {
	case "reversed":
		for i, j := 0, n-1; i < j; i, j = i+1, j-1 {
			idx[i], idx[j] = idx[j], idx[i]
		}
	case "random":
		idx = rapid.Permutation(idx).Draw(rt, "perm")
	case "evens-then-odds":
		var a, b []int
		for _, i := range idx {
			if i%2 == 0 {
				a = append(a, i)
			} else {
				b = append(b, i)
			}
		}
		idx = append(a, b...)
	}
	return idx, kind
}

// TestRealService: N callers on one client against the real service; the harness releases the service
// functions in a generated order (strictly one after the other, or all at once in that order).
func TestRealService(t *testing.T) {
	setup()
	ev.Check(t, "real-service", ev.N(1500, 60000), func(rt *rapid.T) {
		ep := rapid.SampledFrom(endpoints).Draw(rt, "endpoint")
		n := rapid.IntRange(2, 12).Draw(rt, "callers")
		order, okind := orderOf(rt, n)
		strict := rapid.Bool().Draw(rt, "strict")
		quickMix := rapid.IntRange(0, 3).Draw(rt, "quickCalls")
		id := atomic.AddInt64(&caseSeq, 1)
		canon := fmt.Sprintf("%s pool=%v callers=%d completion=%s%v strict=%v quick=%d", ep.kind, ep.pool, n, okind, order, strict, quickMix)
		ev.S.Begin("real-service", canon)
		drainArrived()
		tags := make([]string, n)
		want := map[string]bool{}
		for i := range tags {
			tags[i] = fmt.Sprintf("c%d-%d", id, i)
			want[tags[i]] = true
		}
		defer forget(tags)
		done := make([]chan result, n)
		for i := range tags {
			done[i] = make(chan result, 1)
			go func(i int) {
				got, err := ep.p.Gated(tags[i])
				done[i] <- result{tags[i], got, err}
			}(i)
		}
		problem := waitArrivals(want, 15*time.Second)
		finished := make([]bool, n)
		checkOne := func(i int, timeout time.Duration) string {
			select {
			case r := <-done[i]:
				finished[i] = true
				if r.err != nil {
					return fmt.Sprintf("caller %d (%s) got error %v", i, r.tag, r.err)
				}
				if r.got != "r:"+r.tag {
					return fmt.Sprintf("caller %d passed %q and received %q: another call's response", i, r.tag, r.got)
				}
			case <-time.After(timeout):
				return fmt.Sprintf("caller %d (%s) did not return within %v of its function completing", i, tags[i], timeout)
			}
			return ""
		}
		if problem == "" {
			for k, i := range order {
				// quick calls in between must not disturb or be disturbed by the pending ones
				if k < quickMix {
					qt := fmt.Sprintf("q%d-%d", id, k)
					if got, err := ep.p.Quick(qt); err != nil || got != "q:"+qt {
						problem = fmt.Sprintf("a quick call made while %d calls were pending returned %q, %v (expected %q)", n-k, got, err, "q:"+qt)
						break
					}
				}
				release(tags[i])
				if strict {
					if problem = checkOne(i, 15*time.Second); problem != "" {
						break
					}
				}
			}
		}
		for _, tag := range tags {
			release(tag)
		}
		for i := range tags {
			if !finished[i] {
				if p := checkOne(i, 25*time.Second); p != "" && problem == "" {
					problem = p
				}
			}
		}
		ev.S.Case("real-service", canon, true, "real="+ep.kind, fmt.Sprintf("real-pool=%v", ep.pool), "completion="+okind, fmt.Sprintf("strict=%v", strict))
		report(rt, "real-service", "TestRealService", canon, problem)
	})
}

// ---- scripted peer

var tagRe = regexp.MustCompile(`c\d+-\d+x`)

func respBody(s string) []byte { return []byte(fmt.Sprintf("Rs%d\"%s\"z", len(s), s)) }

type action struct {
	Kind  string // respond | dup | stray-zero | stray-big | stray-future | stray-answered | text
	Which int
}

func (a action) String() string { return fmt.Sprintf("%s(%d)", a.Kind, a.Which) }

func genScript(rt *rapid.T, n int) []action {
	order, _ := orderOf(rt, n)
	var script []action
	answered := 0
	for _, i := range order {
		for rapid.IntRange(0, 3).Draw(rt, "extra") == 0 {
			k := rapid.SampledFrom([]string{"stray-zero", "stray-big", "stray-future", "stray-answered", "text"}).Draw(rt, "strayKind")
			if k == "stray-answered" && answered == 0 {
				k = "stray-future"
			}
			script = append(script, action{k, rapid.IntRange(0, 5).Draw(rt, "which")})
		}
		script = append(script, action{"respond", i})
		answered++
		if rapid.IntRange(0, 3).Draw(rt, "dup") == 0 {
			script = append(script, action{"dup", i})
		}
	}
	return script
}

func TestScriptedPeer(t *testing.T) {
	ev.Check(t, "scripted-peer", ev.N(1500, 60000), func(rt *rapid.T) {
		kind := rapid.SampledFrom(peer.Kinds).Draw(rt, "kind")
		n := rapid.IntRange(1, 8).Draw(rt, "callers")
		script := genScript(rt, n)
		round2 := rapid.IntRange(1, 4).Draw(rt, "round2")
		// how the peer delivers: frames written whole or in several segments (stream sockets), and how much the
		// responses nobody waits for carry (a late answer can be large)
		pieces := rapid.SampledFrom([]int{1, 1, 2, 3}).Draw(rt, "segments")
		pad := rapid.SampledFrom([]int{0, 0, 5000, 300000}).Draw(rt, "unwantedBodyPadding")
		if kind != "tcp" && kind != "unix" {
			pieces = 1
		}
		if kind == "udp" && pad > 5000 {
			pad = 5000
		}
		id := atomic.AddInt64(&caseSeq, 1)
		canon := fmt.Sprintf("%s callers=%d script=%v then %d more calls; frames in %d segments, unwanted bodies padded by %d", kind, n, script, round2, pieces, pad)
		ev.S.Begin("scripted-peer", canon)
		p, err := peer.Start(kind)
		if err != nil {
			rt.Fatalf("peer: %v", err)
		}
		defer p.Close()
		client := core.NewClient(p.URL)
		client.Timeout = 10 * time.Second
		defer client.Abort()
		px := &proxy{}
		client.UseService(px)
		problem := ""
		strays, dups := 0, 0
		nextTag := 0
		padding := strings.Repeat("p", pad)
		send := func(f peer.Frame) {
			if pieces == 1 {
				p.Send(f)
				return
			}
			raw := wire.SocketFrame(f.Index, f.Body, false)
			cuts := []int{7} // the first segment ends inside the 12-byte header
			if pieces > 2 && len(f.Body) > 1 {
				cuts = append(cuts, 12+len(f.Body)/2) // the second inside the body
			}
			lo := 0
			for _, hi := range append(cuts, len(raw)) {
				p.Raw(raw[lo:hi])
				time.Sleep(300 * time.Microsecond)
				lo = hi
			}
		}
		round := func(n int, script []action) {
			tags := make([]string, n)
			done := make([]chan result, n)
			for i := range tags {
				tags[i] = fmt.Sprintf("c%d-%dx", id, nextTag)
				nextTag++
				done[i] = make(chan result, 1)
				go func(i int) {
					got, err := px.Gated(tags[i])
					done[i] <- result{tags[i], got, err}
				}(i)
			}
			frames, err := p.RecvN(n, 10*time.Second)
			if err != nil {
				problem = err.Error()
				return
			}
			index := map[string]int{}
			maxIndex := 0
			for _, f := range frames {
				tag := string(tagRe.Find(f.Body))
				if _, dup := index[tag]; dup || tag == "" {
					problem = fmt.Sprintf("request frame %q: no or repeated tag", f.Body)
					return
				}
				index[tag] = f.Index
				if f.Index > maxIndex {
					maxIndex = f.Index
				}
			}
			var answered []int
			for _, a := range script {
				switch a.Kind {
				case "respond", "dup":
					tag := tags[a.Which]
					body := respBody("r:" + tag)
					if a.Kind == "dup" {
						dups++
						body = respBody("dup:" + tag + padding)
					}
					send(peer.Frame{Index: index[tag], Body: body})
					answered = append(answered, index[tag])
				case "stray-zero":
					strays++
					send(peer.Frame{Index: 0, Body: respBody("stray" + padding)})
				case "stray-big":
					strays++
					big := 0x7ffffff0 + a.Which
					if kind == "udp" {
						big = 0x7ff0 + a.Which
					}
					send(peer.Frame{Index: big, Body: respBody("stray" + padding)})
				case "stray-future":
					strays++
					send(peer.Frame{Index: maxIndex + 1 + a.Which, Body: respBody("stray" + padding)})
				case "stray-answered":
					strays++
					send(peer.Frame{Index: answered[a.Which%len(answered)], Body: respBody("stray" + padding)})
				case "text":
					p.Text([]byte("hello"))
				}
			}
			for i := range tags {
				select {
				case r := <-done[i]:
					if r.err != nil {
						problem = fmt.Sprintf("caller %d (%s) got error %v", i, r.tag, r.err)
					} else if r.got != "r:"+r.tag {
						problem = fmt.Sprintf("caller %d passed %q and received %q", i, r.tag, r.got)
					}
				case <-time.After(12 * time.Second):
					problem = fmt.Sprintf("caller %d (%s) never returned", i, tags[i])
				}
				if problem != "" {
					return
				}
			}
		}
		round(n, script)
		if problem == "" {
			// a second round on the same connection: nothing the peer sent may have disturbed it
			var s2 []action
			for i := round2 - 1; i >= 0; i-- {
				s2 = append(s2, action{"respond", i})
			}
			round(round2, s2)
			if problem == "" && p.Connections() != 1 {
				problem = fmt.Sprintf("the client reconnected (%d connections): a stray or duplicate response disturbed the connection", p.Connections())
			}
		}
		ev.S.Case("scripted-peer", canon, strays+dups > 0, "scripted="+kind, fmt.Sprintf("strays=%v", strays > 0), fmt.Sprintf("dups=%v", dups > 0), fmt.Sprintf("scripted-segmented=%v", pieces > 1), fmt.Sprintf("scripted-large-unwanted=%v", pad > 5000))
		report(rt, "scripted-peer", "TestScriptedPeer", canon, problem)
	})
}

// TestUDPWrap: the 15-bit identifier of the UDP transport wraps after 32768 calls on one connection.
// Calls issued across the wrap, including one that stays pending while the counter comes round to its
// identifier again, must each get their own response.
func TestUDPWrap(t *testing.T) {
	rounds := ev.Pick(1, 6)
	shard, _ := strconv.Atoi(os.Getenv("VERIF_SHARD"))
	scenario := 0
	for r := 0; r < rounds; r++ {
		for _, pool := range []bool{false, true} {
			for _, firstReleased := range []string{"old", "new"} {
				scenario++
				if !ev.Thorough() && scenario%4 != shard%4 {
					continue // the quick tier spreads the four scenarios over the shards
				}
				canon := fmt.Sprintf("udp pool=%v: three calls pending across the wrap of the 15-bit identifier, then four more pending calls; release %s first (round %d shard %s)", pool, firstReleased, r, os.Getenv("VERIF_SHARD"))
				ev.S.Begin("udp-wrap", canon)
				s := newGatedService()
				if pool {
					tp.SetPool(s, tp.NewGoPool(16))
				}
				srv, err := tp.Start("udp", s)
				if err != nil {
					t.Fatal(err)
				}
				client := srv.Client(30 * time.Second)
				px := &proxy{}
				client.UseService(px)
				id := atomic.AddInt64(&caseSeq, 1)
				drainArrived()
				// three calls with adjacent identifiers stay pending across the wrap, then four more are issued: they
				// must step over every identifier that is still pending, not just over the first one
				const nOld, nNew = 3, 4
				var oldTags, newTags []string
				for k := 0; k < nOld; k++ {
					oldTags = append(oldTags, fmt.Sprintf("c%d-old%d", id, k))
				}
				for k := 0; k < nNew; k++ {
					newTags = append(newTags, fmt.Sprintf("c%d-new%d", id, k))
				}
				done := map[string]chan result{}
				problem := ""
				for _, tag := range oldTags {
					tag := tag
					done[tag] = make(chan result, 1)
					go func() { got, err := px.Gated(tag); done[tag] <- result{tag, got, err} }()
					// one after the other, so that their identifiers are adjacent
					if p := waitArrivals(map[string]bool{tag: true}, 10*time.Second); p != "" && problem == "" {
						problem = p
					}
				}
				// 32768 - nOld quick calls from 8 goroutines: the next identifier is the first old one again
				var wg sync.WaitGroup
				var bad atomic.Value
				var count int64
				for g := 0; g < 8; g++ {
					wg.Add(1)
					go func(g int) {
						defer wg.Done()
						for {
							k := atomic.AddInt64(&count, 1)
							if k > 32768-nOld {
								return
							}
							qt := fmt.Sprintf("w%d-%d", id, k)
							got, err := px.Quick(qt)
							if err != nil || got != "q:"+qt {
								bad.Store(fmt.Sprintf("call number %d on the connection passed %q and received %q, %v", k+nOld, qt, got, err))
								return
							}
						}
					}(g)
				}
				wg.Wait()
				if b := bad.Load(); b != nil && problem == "" {
					problem = b.(string)
				}
				if problem == "" {
					want := map[string]bool{}
					for _, tag := range newTags {
						tag := tag
						want[tag] = true
						done[tag] = make(chan result, 1)
						go func() { got, err := px.Gated(tag); done[tag] <- result{tag, got, err} }()
					}
					problem = waitArrivals(want, 10*time.Second)
				}
				if problem == "" {
					order := append(append([]string{}, oldTags...), newTags...)
					if firstReleased == "new" {
						order = append(append([]string{}, newTags...), oldTags...)
					}
					for k, tag := range order {
						release(tag)
						select {
						case r := <-done[tag]:
							if r.err != nil || r.got != "r:"+r.tag {
								problem = fmt.Sprintf("the caller that passed %q received %q, %v (released %d.)", r.tag, r.got, r.err, k+1)
							}
						case <-time.After(10 * time.Second):
							problem = fmt.Sprintf("the caller that passed %q never got its response after its function completed (released %d.)", tag, k+1)
						}
						if problem != "" {
							break
						}
					}
				}
				for _, tag := range append(append([]string{}, oldTags...), newTags...) {
					release(tag)
				}
				forget(append(append([]string{}, oldTags...), newTags...))
				client.Abort()
				srv.Close()
				ev.S.Case("udp-wrap", canon, true, "udp-wrap")
				if problem != "" {
					if os.Getenv("VERIF_TRIAGE") != "" {
						fmt.Printf("TRIAGE %s | %s\n", problem, canon)
						continue
					}
					if ev.S.Fail("udp-wrap", "TestUDPWrap", findingKey(problem), canon, problem) {
						t.Fatalf("%s\n=> %s", canon, problem)
					}
				}
			}
		}
	}
}

func findingKey(problem string) string { return "" }

// TestWSChurn: short-lived websocket connections that the server side ends (an over-limit request is
// answered with an error frame and the connection closed) or that the client abandons while the server is
// about to answer slow calls, while other connections are being opened and used. Every caller must
// still get its own response; run from the race-detector build this also shows whether a connection's
// buffers are still in use when the server hands them to the next connection.
func TestWSChurn(t *testing.T) {
	iterations := ev.N(800, 40000)
	for _, kind := range []string{"wsfast", "ws"} {
		canon := fmt.Sprintf("%s: 8 workers x %d short-lived connections, ended by the server (over-limit request) or by the client while slow calls are being answered", kind, iterations/8)
		ev.S.Begin("ws-churn", canon)
		s := newGatedService()
		s.MaxRequestLength = 1000
		srv, err := tp.Start(kind, s)
		if err != nil {
			t.Fatal(err)
		}
		var problem atomic.Value
		var wg sync.WaitGroup
		var made int64
		big := strings.Repeat("x", 3000)
		for w := 0; w < 8; w++ {
			wg.Add(1)
			go func(w int) {
				defer wg.Done()
				for i := 0; i < iterations/8 && problem.Load() == nil; i++ {
					client := srv.Client(5 * time.Second)
					px := &proxy{}
					client.UseService(px)
					exhausted := false
					for k := 0; k < 3; k++ {
						tag := fmt.Sprintf("w%d-%d-%d", w, i, k)
						got, err := px.Quick(tag)
						if err != nil && tp.ResourceError(err) {
							time.Sleep(200 * time.Millisecond)
							exhausted = true
							break
						}
						if err != nil || got != "q:"+tag {
							problem.Store(fmt.Sprintf("worker %d connection %d: quick(%q) returned %q, %v", w, i, tag, got, err))
							return
						}
					}
					if exhausted {
						client.Abort()
						continue
					}
					switch i % 3 {
					case 0:
						// the server ends the connection: over-limit request
						if _, err := px.Quick(big); err == nil {
							problem.Store(fmt.Sprintf("worker %d connection %d: the over-limit call returned without an error", w, i))
							return
						}
						client.Abort()
					default:
						// the client goes away while the server is about to answer two slow calls
						t1, t2 := fmt.Sprintf("g%d-%d-a", w, i), fmt.Sprintf("g%d-%d-b", w, i)
						go px.Gated(t1)
						go px.Gated(t2)
						time.Sleep(time.Duration(1+i%4) * time.Millisecond)
						if i%3 == 1 {
							client.Abort()
							release(t1)
							release(t2)
						} else {
							release(t1)
							release(t2)
							client.Abort()
						}
						forget([]string{t1, t2})
					}
					atomic.AddInt64(&made, 1)
				}
			}(w)
		}
		wg.Wait()
		srv.Close()
		ev.S.Bump("ws-churn", atomic.LoadInt64(&made))
		ev.S.Case("ws-churn", canon, true, "ws-churn="+kind)
		if p := problem.Load(); p != nil {
			if os.Getenv("VERIF_TRIAGE") != "" {
				fmt.Printf("TRIAGE %s | %s\n", p, canon)
				continue
			}
			ev.S.Violation("ws-churn", "TestWSChurn", canon, p.(string), nil)
			t.Fatalf("%s\n=> %s", canon, p)
		}
	}
}

// ---- reverse calls (service -> provider)

type reverseRig struct {
	service *core.Service
	caller  *reverse.Caller
	server  *tp.Server
}

func newReverseRig(kind string) *reverseRig {
	s := core.NewService()
	c := reverse.NewCaller(s)
	c.HeartBeat = 0
	c.Timeout = 15 * time.Second
	srv, err := tp.Start(kind, s)
	if err != nil {
		panic(err)
	}
	return &reverseRig{s, c, srv}
}

var stringType = reflect.TypeOf("")

// All rigs are created before any provider starts listening: the mock transport cannot register a new
// server while a call (a provider's pending begin) is in progress.
var (
	rigs       map[string]*reverseRig
	forcedRigs map[string]*reverseRig
)

func setupRigs() {
	if rigs != nil {
		return
	}
	rigs, forcedRigs = map[string]*reverseRig{}, map[string]*reverseRig{}
	for _, kind := range []string{"tcp", "ws", "http", "mock", "udp", "unix"} {
		rigs[kind] = newReverseRig(kind)
	}
	for _, kind := range []string{"tcp", "mock", "ws", "http"} {
		r := newReverseRig(kind)
		r.caller.Timeout = 4 * time.Second
		r.caller.IdleTimeout = 60 * time.Second
		forcedRigs[kind] = r
	}
}

func TestReverseProvider(t *testing.T) {
	setupRigs()
	providers := map[string]bool{}
	var pseq int64
	ev.Check(t, "reverse-provider", ev.N(400, 12000), func(rt *rapid.T) {
		kind := rapid.SampledFrom([]string{"tcp", "ws", "http", "mock", "udp", "unix"}).Draw(rt, "kind")
		n := rapid.IntRange(2, 10).Draw(rt, "callers")
		order, okind := orderOf(rt, n)
		fresh := rapid.IntRange(0, 4).Draw(rt, "freshProvider") == 0
		id := atomic.AddInt64(&caseSeq, 1)
		canon := fmt.Sprintf("reverse over %s: %d concurrent calls to one provider, functions complete %s%v freshProvider=%v", kind, n, okind, order, fresh)
		ev.S.Begin("reverse-provider", canon)
		rig := rigs[kind]
		pid := "prov-" + kind
		if fresh {
			pid = fmt.Sprintf("prov-%s-%d", kind, atomic.AddInt64(&pseq, 1))
		}
		if !providers[pid] {
			client := rig.server.Client(0)
			prov := reverse.NewProvider(client, pid)
			prov.AddFunction(Gated, "gated")
			prov.AddFunction(GatedBoom, "gatedboom")
			prov.AddFunction(GatedErr, "gatederr")
			prov.RetryInterval = 10 * time.Millisecond
			go prov.Listen()
			providers[pid] = true
		}
		drainArrived()
		tags := make([]string, n)
		fns := make([]string, n)
		want := map[string]bool{}
		done := make([]chan result, n)
		for i := range tags {
			tags[i] = fmt.Sprintf("c%d-%d", id, i)
			fns[i] = rapid.SampledFrom([]string{"gated", "gated", "gated", "gatedboom", "gatederr"}).Draw(rt, "fn")
			want[tags[i]] = true
			done[i] = make(chan result, 1)
			go func(i int) {
				res, err := rig.caller.InvokeContext(context.Background(), pid, fns[i], []interface{}{tags[i]}, stringType)
				r := result{tag: tags[i], err: err}
				if err == nil && len(res) == 1 {
					r.got, _ = res[0].(string)
				}
				done[i] <- r
			}(i)
		}
		defer forget(tags)
		problem := waitArrivals(want, 15*time.Second)
		for _, i := range order {
			release(tags[i])
		}
		for _, tag := range tags {
			release(tag)
		}
		for i := range tags {
			select {
			case r := <-done[i]:
				switch {
				case problem != "":
				case fns[i] == "gatedboom":
					if r.err == nil || !strings.Contains(r.err.Error(), "boom:"+r.tag) {
						problem = fmt.Sprintf("reverse caller %d (%s): its provider function panicked with %q; the caller got %q, %v", i, r.tag, "boom:"+r.tag, r.got, r.err)
					}
				case fns[i] == "gatederr":
					if r.err == nil || r.err.Error() != "fail:"+r.tag {
						problem = fmt.Sprintf("reverse caller %d (%s): its provider function returned the error %q; the caller got %q, %v", i, r.tag, "fail:"+r.tag, r.got, r.err)
					}
				case r.err != nil:
					problem = fmt.Sprintf("reverse caller %d (%s) got error %v", i, r.tag, r.err)
				case r.got != "r:"+r.tag:
					problem = fmt.Sprintf("reverse caller %d passed %q and received %q", i, r.tag, r.got)
				}
			case <-time.After(20 * time.Second):
				if problem == "" {
					problem = fmt.Sprintf("reverse caller %d (%s) never returned", i, tags[i])
				}
			}
		}
		failing := 0
		for _, f := range fns {
			if f != "gated" {
				failing++
			}
		}
		ev.S.Case("reverse-provider", canon+fmt.Sprintf(" fns=%v", fns), true, "reverse="+kind, "reverse-completion="+okind, fmt.Sprintf("reverse-failing-calls=%v", failing > 0))
		report(rt, "reverse-provider", "TestReverseProvider", canon, problem)
	})
}

// TestReverseScripted: a scripted provider (a plain client speaking the begin/end protocol) returns the
// results in generated batches with unknown and repeated identifiers mixed in.
func TestReverseScripted(t *testing.T) {
	setupRigs()
	rig := rigs["tcp"]
	var pseq int64
	ev.Check(t, "reverse-scripted", ev.N(600, 20000), func(rt *rapid.T) {
		n := rapid.IntRange(1, 8).Draw(rt, "callers")
		order, okind := orderOf(rt, n)
		// the script: batches of entries
		type entry struct {
			Kind  string // valid | stray | dup
			Which int
		}
		var batches [][]entry
		var cur []entry
		answered := 0
		strays, dups, foreign := 0, 0, 0
		for _, i := range order {
			if rapid.IntRange(0, 3).Draw(rt, "foreign") == 0 {
				// another provider (its own id, same caller) posts a result under the identifier of this pending call
				cur = append(cur, entry{"foreign", i})
				foreign++
			}
			for rapid.IntRange(0, 2).Draw(rt, "extra") == 0 {
				if answered > 0 && rapid.Bool().Draw(rt, "dupNotStray") {
					cur = append(cur, entry{"dup", rapid.IntRange(0, answered-1).Draw(rt, "which")})
					dups++
				} else {
					cur = append(cur, entry{"stray", rapid.IntRange(0, 3).Draw(rt, "which")})
					strays++
				}
			}
			cur = append(cur, entry{"valid", i})
			answered++
			if rapid.IntRange(0, 2).Draw(rt, "cut") == 0 {
				batches = append(batches, cur)
				cur = nil
			}
		}
		if len(cur) > 0 {
			batches = append(batches, cur)
		}
		id := atomic.AddInt64(&caseSeq, 1)
		pid := fmt.Sprintf("sp-%d", atomic.AddInt64(&pseq, 1))
		canon := fmt.Sprintf("scripted provider: %d reverse calls answered %s in batches %v", n, okind, batches)
		ev.S.Begin("reverse-scripted", canon)
		client := rig.server.Client(10 * time.Second)
		client.RequestHeaders().Set("id", pid)
		defer client.Abort()
		other := rig.server.Client(10 * time.Second)
		other.RequestHeaders().Set("id", pid+"-other")
		defer other.Abort()
		tags := make([]string, n)
		done := make([]chan result, n)
		for i := range tags {
			tags[i] = fmt.Sprintf("c%d-%d", id, i)
			done[i] = make(chan result, 1)
			go func(i int) {
				res, err := rig.caller.InvokeContext(context.Background(), pid, "gated", []interface{}{tags[i]}, stringType)
				r := result{tag: tags[i], err: err}
				if err == nil && len(res) == 1 {
					r.got, _ = res[0].(string)
				}
				done[i] <- r
			}(i)
		}
		problem := ""
		// collect the n calls through begin
		index := map[string]int{}
		var answeredIdx []int
		deadline := time.Now().Add(10 * time.Second)
		for len(index) < n && time.Now().Before(deadline) && problem == "" {
			res, err := client.Invoke("!", nil)
			if err != nil {
				problem = fmt.Sprintf("begin failed: %v", err)
				break
			}
			if len(res) != 1 {
				continue
			}
			calls, _ := res[0].([]interface{})
			for _, c := range calls {
				cc, ok := c.([]interface{})
				if !ok || len(cc) != 3 {
					problem = fmt.Sprintf("unexpected call record %v", c)
					break
				}
				args, _ := cc[2].([]interface{})
				if cc[1] != "gated" || len(args) != 1 {
					problem = fmt.Sprintf("unexpected call record %v", c)
					break
				}
				index[args[0].(string)] = cc[0].(int)
			}
		}
		if problem == "" && len(index) < n {
			problem = fmt.Sprintf("only %d of %d reverse calls were handed to the provider", len(index), n)
		}
		if problem == "" {
			for _, b := range batches {
				var payload []interface{}
				for _, e := range b {
					switch e.Kind {
					case "valid":
						tag := tags[e.Which]
						payload = append(payload, []interface{}{index[tag], "r:" + tag, ""})
						answeredIdx = append(answeredIdx, index[tag])
					case "dup":
						payload = append(payload, []interface{}{answeredIdx[e.Which%len(answeredIdx)], "dup", ""})
					case "stray":
						payload = append(payload, []interface{}{[]int{0, 1 << 30, 987654321, 77777777}[e.Which], "stray", ""})
					case "foreign":
						forged := []interface{}{[]interface{}{index[tags[e.Which]], "forged by another provider", ""}}
						if _, err := other.Invoke("=", []interface{}{forged}); err != nil && problem == "" {
							problem = fmt.Sprintf("end of the other provider failed: %v", err)
						}
					}
				}
				if _, err := client.Invoke("=", []interface{}{payload}); err != nil {
					problem = fmt.Sprintf("end failed: %v", err)
					break
				}
			}
		}
		for i := range tags {
			select {
			case r := <-done[i]:
				if r.err != nil && problem == "" {
					problem = fmt.Sprintf("reverse caller %d (%s) got error %v", i, r.tag, r.err)
				} else if r.got != "r:"+r.tag && problem == "" {
					problem = fmt.Sprintf("reverse caller %d passed %q and received %q", i, r.tag, r.got)
				}
			case <-time.After(20 * time.Second):
				if problem == "" {
					problem = fmt.Sprintf("reverse caller %d (%s) never returned", i, tags[i])
				}
			}
		}
		ev.S.Case("reverse-scripted", canon, strays+dups+foreign > 0, fmt.Sprintf("reverse-strays=%v", strays > 0), fmt.Sprintf("reverse-dups=%v", dups > 0), fmt.Sprintf("reverse-other-provider=%v", foreign > 0), fmt.Sprintf("reverse-batches=%d", min(len(batches), 4)))
		report(rt, "reverse-scripted", "TestReverseScripted", canon, problem)
	})
}

// TestReverseForced forces the order "provider's begin has looked at the empty queue -> a reverse call is
// queued and finds no waiting responder -> begin registers its responder" with the verif yield point.
// The call must still be delivered (well before the idle timeout) and answered.
func TestReverseForced(t *testing.T) {
	var pseq int64
	setupRigs()
	ev.Check(t, "reverse-forced", ev.N(24, 400), func(rt *rapid.T) {
		kind := rapid.SampledFrom([]string{"tcp", "mock", "ws", "http"}).Draw(rt, "kind")
		n := rapid.IntRange(1, 3).Draw(rt, "callsInWindow")
		warm := rapid.IntRange(0, 2).Draw(rt, "callsBefore")
		id := atomic.AddInt64(&caseSeq, 1)
		pid := fmt.Sprintf("fp-%d-%d", os.Getpid(), atomic.AddInt64(&pseq, 1))
		canon := fmt.Sprintf("reverse over %s: %d earlier calls, then %d calls queued while the provider's begin is between its queue check and its registration", kind, warm, n)
		ev.S.Begin("reverse-forced", canon)
		rig := forcedRigs[kind]
		var armed int32
		atPoint, resume := make(chan struct{}, 16), make(chan struct{})
		reverse.VerifSetHook(func(point, who string) {
			if point == "begin.beforeRegister" && who == pid && atomic.LoadInt32(&armed) == 1 {
				atPoint <- struct{}{}
				<-resume
			}
		})
		defer reverse.VerifSetHook(nil)
		client := rig.server.Client(0)
		prov := reverse.NewProvider(client, pid)
		prov.AddFunction(Quick, "quick")
		prov.RetryInterval = 10 * time.Millisecond
		go prov.Listen()
		defer prov.Close()
		call := func(tag string) (string, error) {
			res, err := rig.caller.InvokeContext(context.Background(), pid, "quick", []interface{}{tag}, stringType)
			if err != nil || len(res) != 1 {
				return "", err
			}
			s, _ := res[0].(string)
			return s, nil
		}
		problem := ""
		for k := 0; k < warm && problem == ""; k++ {
			tag := fmt.Sprintf("c%d-w%d", id, k)
			if got, err := call(tag); err != nil || got != "q:"+tag {
				problem = fmt.Sprintf("warm-up reverse call returned %q, %v", got, err)
			}
		}
		if problem == "" {
			atomic.StoreInt32(&armed, 1)
			// the provider's begin may already be registered and waiting: one more call brings it round
			select {
			case <-atPoint:
			case <-time.After(200 * time.Millisecond):
				tag := fmt.Sprintf("c%d-k", id)
				go call(tag)
				select {
				case <-atPoint:
				case <-time.After(5 * time.Second):
					problem = "harness: the provider never reached the yield point"
				}
			}
		}
		if strings.HasPrefix(problem, "harness:") {
			atomic.StoreInt32(&armed, 0)
			close(resume)
			ev.S.Class("reverse-forced-not-reached", 1)
			return
		}
		if problem == "" {
			done := make(chan string, n)
			for k := 0; k < n; k++ {
				tag := fmt.Sprintf("c%d-f%d", id, k)
				go func() {
					got, err := call(tag)
					if err != nil || got != "q:"+tag {
						done <- fmt.Sprintf("the reverse call %q queued in the window returned %q, %v although the provider was listening the whole time", tag, got, err)
					} else {
						done <- ""
					}
				}()
			}
			time.Sleep(30 * time.Millisecond) // let the calls queue and look for a responder
			atomic.StoreInt32(&armed, 0)
			close(resume)
			for k := 0; k < n; k++ {
				if p := <-done; p != "" && problem == "" {
					problem = p
				}
			}
		} else {
			atomic.StoreInt32(&armed, 0)
			close(resume)
		}
		ev.S.Case("reverse-forced", canon, true, "reverse-forced="+kind)
		if problem != "" {
			if os.Getenv("VERIF_TRIAGE") != "" {
				fmt.Printf("TRIAGE %s | %s\n", problem, canon)
				return
			}
			ev.S.Violation("reverse-forced", "TestReverseForced", canon, problem, nil)
			rt.Fatalf("%s\n=> %s", canon, problem)
		}
	})
}

func min(a, b int) int {
	if a < b {
		return a
	}
	return b
}

var _ = sort.Ints

func TestFinding(t *testing.T) {
	t.Skip("no open finding " + ev.FindingKey())
}
