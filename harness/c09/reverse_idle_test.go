package c09

import (
	"context"
	"fmt"
	"sync"
	"sync/atomic"
	"testing"
	"time"

	"github.com/hprose/hprose-golang/v3/rpc/core"
	"github.com/hprose/hprose-golang/v3/rpc/plugins/reverse"
	"pgregory.net/rapid"
	"verif/hp/ev"
	"verif/hp/tp"
)

// TestReverseIdle: reverse calls separated by pauses around and beyond the caller's idle time-out. The
// caller answers an idle begin with an empty list and the provider polls again; a call issued at any
// moment of that hand-over must still reach the provider and get its own answer.
type idleRig struct {
	caller  *reverse.Caller
	stopped int32
}

var (
	idleRigs map[string]*idleRig
	idleOnce sync.Once
)

const idleTimeout = 20 * time.Millisecond

func setupIdleRigs() {
	idleOnce.Do(func() {
		idleRigs = map[string]*idleRig{}
		for _, kind := range []string{"tcp", "unix", "ws", "http", "udp"} {
			s := core.NewService()
			c := reverse.NewCaller(s)
			c.HeartBeat = 0
			c.Timeout = 3 * time.Second
			c.IdleTimeout = idleTimeout
			srv, err := tp.Start(kind, s)
			if err != nil {
				panic(err)
			}
			r := &idleRig{caller: c}
			prov := reverse.NewProvider(srv.Client(0), "idle-"+kind)
			prov.AddFunction(Quick, "quick")
			prov.RetryInterval = 10 * time.Millisecond
			go func() {
				prov.Listen()
				atomic.StoreInt32(&r.stopped, 1)
			}()
			idleRigs[kind] = r
		}
	})
}

func TestReverseIdle(t *testing.T) {
	setupIdleRigs()
	ev.Check(t, "reverse-idle", ev.N(150, 6000), func(rt *rapid.T) {
		kind := rapid.SampledFrom([]string{"tcp", "unix", "ws", "http", "udp"}).Draw(rt, "kind")
		n := rapid.IntRange(2, 6).Draw(rt, "calls")
		pauses := make([]time.Duration, n)
		labels := make([]string, n)
		for i := range pauses {
			switch rapid.IntRange(0, 3).Draw(rt, "pause") {
			case 0:
				pauses[i], labels[i] = 0, "none"
			case 1:
				// around the moment the idle begin is answered and the next one arrives
				pauses[i] = idleTimeout + time.Duration(rapid.IntRange(-400, 600).Draw(rt, "offsetMicros"))*time.Microsecond
				labels[i] = "at-idle-timeout"
			case 2:
				pauses[i], labels[i] = idleTimeout*5/2, "beyond-idle-timeout"
			default:
				pauses[i], labels[i] = idleTimeout/2, "short"
			}
		}
		id := atomic.AddInt64(&caseSeq, 1)
		canon := fmt.Sprintf("reverse over %s with idle time-out %v: %d sequential calls after pauses %v", kind, idleTimeout, n, labels)
		ev.S.Begin("reverse-idle", canon)
		rig := idleRigs[kind]
		pid := "idle-" + kind
		problem := ""
		boundary := false
		for i := 0; i < n && problem == ""; i++ {
			time.Sleep(pauses[i])
			if labels[i] == "at-idle-timeout" || labels[i] == "beyond-idle-timeout" {
				boundary = true
			}
			tag := fmt.Sprintf("i%d-%d", id, i)
			t0 := time.Now()
			res, err := rig.caller.InvokeContext(context.Background(), pid, "quick", []interface{}{tag}, stringType)
			switch {
			case atomic.LoadInt32(&rig.stopped) == 1:
				problem = fmt.Sprintf("the provider stopped listening although nobody closed it (call %d, after a pause %s)", i, labels[i])
			case err != nil:
				problem = fmt.Sprintf("call %d (%s, issued after a pause %s) failed after %v: %v", i, tag, labels[i], time.Since(t0).Round(time.Millisecond), err)
			case len(res) != 1 || res[0] != "q:"+tag:
				problem = fmt.Sprintf("call %d passed %q and received %v", i, tag, res)
			}
		}
		ev.S.Case("reverse-idle", canon, boundary, "reverse-idle="+kind)
		report(rt, "reverse-idle", "TestReverseIdle", canon, problem)
	})
}
