package c09

import (
	"fmt"
	"strings"
	"sync/atomic"
	"testing"
	"time"

	"pgregory.net/rapid"
	"verif/hp/ev"
)

// TestLargeBodies: several callers on one client at once, each with its own argument and result of one to
// a few MiB (beyond the size up to which the socket transport reads a body in one piece). All functions
// complete together, so the large responses are read back to back while earlier ones are still being
// decoded. Every caller must get exactly its own blob.
func blobFor(tag string, size int) string {
	unit := tag + "|"
	return strings.Repeat(unit, size/len(unit)+1)[:size]
}

func TestLargeBodies(t *testing.T) {
	setup()
	var eps []*endpoint
	for _, ep := range endpoints {
		if ep.kind != "udp" {
			eps = append(eps, ep)
		}
	}
	ev.Check(t, "large-bodies", ev.N(40, 1500), func(rt *rapid.T) {
		ep := rapid.SampledFrom(eps).Draw(rt, "endpoint")
		n := rapid.IntRange(2, 5).Draw(rt, "callers")
		sizes := make([]int, n)
		for i := range sizes {
			sizes[i] = rapid.SampledFrom([]int{1 << 20, 1<<20 + 1, 1300000, 2 << 20, 2<<20 - 7, 2700000, 3 << 20}).Draw(rt, "size")
		}
		id := atomic.AddInt64(&caseSeq, 1)
		canon := fmt.Sprintf("%s pool=%v: %d concurrent calls with arguments and results of %v bytes, completed together", ep.kind, ep.pool, n, sizes)
		ev.S.Begin("large-bodies", canon)
		drainArrived()
		tags := make([]string, n)
		want := map[string]bool{}
		for i := range tags {
			tags[i] = fmt.Sprintf("c%d-%d", id, i)
			want[tags[i]] = true
		}
		defer forget(tags)
		done := make([]chan result, n)
		for i := range tags {
			done[i] = make(chan result, 1)
			go func(i int) {
				got, err := ep.p.GatedBlob(tags[i], blobFor(tags[i], sizes[i]))
				done[i] <- result{tags[i], got, err}
			}(i)
		}
		problem := waitArrivals(want, 30*time.Second)
		for _, tag := range tags {
			release(tag)
		}
		for i := range tags {
			select {
			case r := <-done[i]:
				exp := blobFor(tags[i], sizes[i])
				switch {
				case problem != "":
				case r.err != nil:
					problem = fmt.Sprintf("caller %d (%s, %d bytes) got error %v", i, r.tag, sizes[i], r.err)
				case r.got != exp:
					k := 0
					for k < len(r.got) && k < len(exp) && r.got[k] == exp[k] {
						k++
					}
					problem = fmt.Sprintf("caller %d (%s) sent %d bytes and received %d bytes that differ from its own from offset %d on (%q…)", i, r.tag, len(exp), len(r.got), k, clip(r.got, k))
				}
			case <-time.After(40 * time.Second):
				if problem == "" {
					problem = fmt.Sprintf("caller %d (%s) never returned", i, tags[i])
				}
			}
		}
		ev.S.Case("large-bodies", canon, true, "large="+ep.kind, fmt.Sprintf("large-pool=%v", ep.pool))
		report(rt, "large-bodies", "TestLargeBodies", canon, problem)
	})
}

func clip(s string, at int) string {
	if at > len(s) {
		at = len(s)
	}
	end := at + 24
	if end > len(s) {
		end = len(s)
	}
	return s[at:end]
}
