// Package echo is a service for the byte-level transport checks: an IO plugin that records every
// request it is handed and answers either with a pseudo-random response of a requested length, with
// an echo, or (for real calls) by passing on to the codec and a counting published function.
package echo

import (
	"context"
	"encoding/binary"
	"fmt"
	"sync"

	"github.com/hprose/hprose-golang/v3/rpc/core"
)

// Gen returns n deterministic pseudo-random bytes for a seed.
func Gen(seed uint32, n int) []byte {
	out := make([]byte, n)
	x := uint64(seed)*0x9E3779B97F4A7C15 + 0x1234567
	for i := 0; i < n; i += 8 {
		x ^= x << 13
		x ^= x >> 7
		x ^= x << 17
		var b [8]byte
		binary.LittleEndian.PutUint64(b[:], x)
		copy(out[i:], b[:])
	}
	return out
}

// Magic marks a request that asks for a generated response: Magic | respLen(4) | seed(4) | filler.
var Magic = []byte("VQ12")

// Request builds a request of exactly n bytes (n >= 12) asking for a response of respLen bytes
// generated from respSeed; the filler is generated from fillSeed.
func Request(n int, respLen int, respSeed, fillSeed uint32) []byte {
	if n < 12 {
		panic("echo.Request: n < 12")
	}
	req := make([]byte, 12, n)
	copy(req, Magic)
	binary.BigEndian.PutUint32(req[4:], uint32(respLen))
	binary.BigEndian.PutUint32(req[8:], respSeed)
	return append(req, Gen(fillSeed, n-12)...)
}

type Service struct {
	*core.Service
	mu      sync.Mutex
	seen    [][]byte
	fnCalls int
	fnSizes []int
}

func (s *Service) record(req []byte) {
	s.mu.Lock()
	s.seen = append(s.seen, append([]byte(nil), req...))
	s.mu.Unlock()
}

// Take returns and clears what the IO plugin has seen and the number of function invocations.
func (s *Service) Take() (seen [][]byte, fnCalls int, fnSizes []int) {
	s.mu.Lock()
	defer s.mu.Unlock()
	seen, fnCalls, fnSizes = s.seen, s.fnCalls, s.fnSizes
	s.seen, s.fnCalls, s.fnSizes = nil, 0, nil
	return
}

func (s *Service) blob(data []byte) int {
	s.mu.Lock()
	s.fnCalls++
	s.fnSizes = append(s.fnSizes, len(data))
	s.mu.Unlock()
	return len(data)
}

func (s *Service) handler(ctx context.Context, request []byte, next core.NextIOHandler) ([]byte, error) {
	s.record(request)
	if len(request) >= 12 && string(request[:4]) == string(Magic) {
		n := int(binary.BigEndian.Uint32(request[4:8]))
		return Gen(binary.BigEndian.Uint32(request[8:12]), n), nil
	}
	if len(request) > 0 && request[0] == 'C' {
		return next(ctx, request)
	}
	if len(request) > 0 && request[0] == 'A' {
		// the plainest echo there is: the response is the request slice itself
		return request, nil
	}
	return append([]byte(nil), request...), nil
}

func New() *Service {
	s := &Service{Service: core.NewService()}
	s.AddFunction(s.blob, "blob")
	s.Use(s.handler)
	return s
}

// BlobCall builds the raw bytes of a call blob(<payload of n bytes>); the total request length is
// returned too.
func BlobCall(n int, fillSeed uint32) []byte {
	head := fmt.Sprintf("Cs4\"blob\"a1{b%d\"", n)
	req := append([]byte(head), Gen(fillSeed, n)...)
	return append(req, []byte("\"}z")...)
}
