// Package ref is an independent implementation of the Hprose serialization
// grammar, written from the published format description and sharing no code
// with the library under test. It is the oracle for C02, C03, C05, C06 and C07.
package ref

import (
	"errors"
	"fmt"
	"math"
	"math/big"
	"regexp"
	"sort"
	"strconv"
	"strings"
	"unicode/utf8"
)

type Kind int

const (
	Null Kind = iota
	Bool
	Int
	Double
	String
	Bytes
	GUID
	DateTime
	List
	Map
	Object
)

var kindNames = []string{"null", "bool", "int", "double", "string", "bytes", "guid", "datetime", "list", "map", "object"}

func (k Kind) String() string { return kindNames[k] }

type Class struct {
	Name   string
	Fields []string
}

type Time struct {
	Year, Month, Day, Hour, Min, Sec, Nsec int
	UTC                                    bool
	HasDate, HasTime                       bool
}

// Node is a neutral value tree. A back-reference in the stream yields the very
// same *Node as its target, so sharing and cycles are represented by identity.
type Node struct {
	Kind  Kind
	B     bool
	I     *big.Int
	F     float64 // Double (NaN and +-Inf included)
	FText string  // the wire text of a Double ("" for N / I+ / I-)
	F32   bool    // FromGo only: the source was a 32-bit float
	BigF  *big.Float
	Prec  uint // FromGo only: the source was a big.Float of this precision
	Alt   bool // FromGo only: a byte string of a user-defined byte type, which may also travel as a list of integers
	S     string
	Bs    []byte
	T     Time
	Elems []*Node // List: elements; Map: k0 v0 k1 v1 ...; Object: field values
	Class *Class
}

// Span marks a token in the input (used to classify read boundaries in C05).
type Span struct {
	Start, End int    // [Start, End)
	What       string // number | length | string | bytes | guid | time | tag
}

type Parser struct {
	b       []byte
	pos     int
	refs    []*Node
	classes []*Class
	Spans   []Span
	// statistics
	RefTags   int   // number of 'r' tags
	RefIdx    []int // their indices
	Referable int
}

func NewParser(b []byte) *Parser { return &Parser{b: b} }

func (p *Parser) Pos() int { return p.pos }

// ResetRefs clears the reference table (RPC segment boundaries). Classes are kept or cleared by the caller.
func (p *Parser) ResetRefs() { p.refs = nil }

// ResetAll clears references and class definitions.
func (p *Parser) ResetAll() { p.refs, p.classes = nil, nil }

func (p *Parser) Refs() []*Node { return p.refs }

type SyntaxError struct {
	Pos int
	Msg string
}

func (e *SyntaxError) Error() string { return fmt.Sprintf("offset %d: %s", e.Pos, e.Msg) }

func (p *Parser) fail(format string, a ...interface{}) error {
	return &SyntaxError{p.pos, fmt.Sprintf(format, a...)}
}

var ErrEOF = errors.New("unexpected end of input")

func (p *Parser) next() (byte, error) {
	if p.pos >= len(p.b) {
		return 0, &SyntaxError{p.pos, ErrEOF.Error()}
	}
	c := p.b[p.pos]
	p.pos++
	return c, nil
}

func (p *Parser) expect(c byte) error {
	g, err := p.next()
	if err != nil {
		return err
	}
	if g != c {
		p.pos--
		return p.fail("expected %q, found %q", c, g)
	}
	return nil
}

// until reads up to (not including) the delimiter and consumes the delimiter.
func (p *Parser) until(delims string) (string, byte, error) {
	start := p.pos
	for p.pos < len(p.b) {
		c := p.b[p.pos]
		if strings.IndexByte(delims, c) >= 0 {
			s := string(p.b[start:p.pos])
			p.pos++
			return s, c, nil
		}
		p.pos++
	}
	return "", 0, &SyntaxError{p.pos, ErrEOF.Error()}
}

var (
	intRe   = regexp.MustCompile(`^-?[0-9]+$`)
	uintRe  = regexp.MustCompile(`^[0-9]+$`)
	floatRe = regexp.MustCompile(`^[+-]?([0-9]+(\.[0-9]*)?|\.[0-9]+)([eE][+-]?[0-9]+)?$`)
	guidRe  = regexp.MustCompile(`^[0-9a-fA-F]{8}-[0-9a-fA-F]{4}-[0-9a-fA-F]{4}-[0-9a-fA-F]{4}-[0-9a-fA-F]{12}$`)
)

// count reads an optional non-negative decimal count terminated by delim.
func (p *Parser) count(delim byte) (int, error) {
	start := p.pos
	s, _, err := p.until(string(delim))
	if err != nil {
		return 0, err
	}
	p.Spans = append(p.Spans, Span{start, p.pos, "length"})
	if s == "" {
		return 0, nil
	}
	if !uintRe.MatchString(s) {
		p.pos = start
		return 0, p.fail("bad count %q", s)
	}
	n, err := strconv.Atoi(s)
	if err != nil || n > len(p.b) {
		p.pos = start
		return 0, p.fail("count %q exceeds the input", s)
	}
	return n, nil
}

func (p *Parser) addRef(n *Node) {
	p.refs = append(p.refs, n)
	p.Referable++
}

// utf8Payload reads a payload of `units` UTF-16 code units of valid UTF-8.
func (p *Parser) utf8Payload(units int) (string, error) {
	start := p.pos
	for u := 0; u < units; {
		if p.pos >= len(p.b) {
			return "", &SyntaxError{p.pos, ErrEOF.Error()}
		}
		r, size := utf8.DecodeRune(p.b[p.pos:])
		if r == utf8.RuneError && size <= 1 {
			return "", p.fail("invalid UTF-8 in string payload")
		}
		if r >= 0x10000 {
			u += 2
			if u > units {
				return "", p.fail("string length splits a surrogate pair")
			}
		} else {
			u++
		}
		p.pos += size
	}
	p.Spans = append(p.Spans, Span{start, p.pos, "string"})
	return string(p.b[start:p.pos]), nil
}

func (p *Parser) readStringBody() (*Node, error) {
	n, err := p.count('"')
	if err != nil {
		return nil, err
	}
	s, err := p.utf8Payload(n)
	if err != nil {
		return nil, err
	}
	if err := p.expect('"'); err != nil {
		return nil, err
	}
	return &Node{Kind: String, S: s}, nil
}

func (p *Parser) digits(n int) (int, error) {
	if p.pos+n > len(p.b) {
		p.pos = len(p.b)
		return 0, &SyntaxError{p.pos, ErrEOF.Error()}
	}
	v := 0
	for i := 0; i < n; i++ {
		c := p.b[p.pos+i]
		if c < '0' || c > '9' {
			p.pos += i
			return 0, p.fail("expected digit, found %q", c)
		}
		v = v*10 + int(c-'0')
	}
	p.pos += n
	return v, nil
}

func (p *Parser) readTimePart(t *Time) error {
	var err error
	if t.Hour, err = p.digits(2); err != nil {
		return err
	}
	if t.Min, err = p.digits(2); err != nil {
		return err
	}
	if t.Sec, err = p.digits(2); err != nil {
		return err
	}
	t.HasTime = true
	if t.Hour > 23 || t.Min > 59 || t.Sec > 60 {
		return p.fail("time of day out of range")
	}
	if p.pos < len(p.b) && p.b[p.pos] == '.' {
		p.pos++
		groups := 0
		for groups < 3 && p.pos < len(p.b) && p.b[p.pos] >= '0' && p.b[p.pos] <= '9' {
			v, err := p.digits(3)
			if err != nil {
				return err
			}
			switch groups {
			case 0:
				t.Nsec += v * 1000000
			case 1:
				t.Nsec += v * 1000
			default:
				t.Nsec += v
			}
			groups++
		}
		if groups == 0 {
			return p.fail("fraction without digits")
		}
	}
	return nil
}

func (p *Parser) readZone(t *Time) error {
	c, err := p.next()
	if err != nil {
		return err
	}
	switch c {
	case 'Z':
		t.UTC = true
	case ';':
	default:
		p.pos--
		return p.fail("expected Z or ; after date/time, found %q", c)
	}
	return nil
}

func daysIn(y, m int) int {
	switch m {
	case 4, 6, 9, 11:
		return 30
	case 2:
		if y%4 == 0 && (y%100 != 0 || y%400 == 0) {
			return 29
		}
		return 28
	}
	return 31
}

// Value parses one value (class definitions preceding it are consumed).
func (p *Parser) Value() (*Node, error) {
	for {
		start := p.pos
		tag, err := p.next()
		if err != nil {
			return nil, err
		}
		switch {
		case tag >= '0' && tag <= '9':
			return &Node{Kind: Int, I: big.NewInt(int64(tag - '0'))}, nil
		}
		switch tag {
		case 'i', 'l':
			s, _, err := p.until(";")
			if err != nil {
				return nil, err
			}
			p.Spans = append(p.Spans, Span{start + 1, p.pos, "number"})
			if !intRe.MatchString(s) {
				p.pos = start + 1
				return nil, p.fail("bad integer %q", s)
			}
			v, _ := new(big.Int).SetString(s, 10)
			if tag == 'i' && (v.Cmp(big.NewInt(math.MinInt32)) < 0 || v.Cmp(big.NewInt(math.MaxInt32)) > 0) {
				p.pos = start + 1
				return nil, p.fail("integer %s does not fit the 32-bit 'i' form", s)
			}
			return &Node{Kind: Int, I: v}, nil
		case 'd':
			s, _, err := p.until(";")
			if err != nil {
				return nil, err
			}
			p.Spans = append(p.Spans, Span{start + 1, p.pos, "number"})
			if !floatRe.MatchString(s) {
				p.pos = start + 1
				return nil, p.fail("bad double %q", s)
			}
			f, _ := strconv.ParseFloat(s, 64)
			bf, _, _ := big.ParseFloat(s, 10, 1024, big.ToNearestEven)
			return &Node{Kind: Double, F: f, FText: s, BigF: bf}, nil
		case 'N':
			return &Node{Kind: Double, F: math.NaN()}, nil
		case 'I':
			c, err := p.next()
			if err != nil {
				return nil, err
			}
			switch c {
			case '+':
				return &Node{Kind: Double, F: math.Inf(1)}, nil
			case '-':
				return &Node{Kind: Double, F: math.Inf(-1)}, nil
			}
			p.pos--
			return nil, p.fail("expected + or - after I")
		case 't':
			return &Node{Kind: Bool, B: true}, nil
		case 'f':
			return &Node{Kind: Bool, B: false}, nil
		case 'n':
			return &Node{Kind: Null}, nil
		case 'e':
			return &Node{Kind: String, S: ""}, nil
		case 'u':
			s, err := p.utf8Payload(1)
			if err != nil {
				return nil, err
			}
			return &Node{Kind: String, S: s}, nil
		case 's':
			n, err := p.readStringBody()
			if err != nil {
				return nil, err
			}
			p.addRef(n)
			return n, nil
		case 'b':
			cnt, err := p.count('"')
			if err != nil {
				return nil, err
			}
			if p.pos+cnt > len(p.b) {
				p.pos = len(p.b)
				return nil, &SyntaxError{p.pos, ErrEOF.Error()}
			}
			n := &Node{Kind: Bytes, Bs: append([]byte{}, p.b[p.pos:p.pos+cnt]...)}
			p.Spans = append(p.Spans, Span{p.pos, p.pos + cnt, "bytes"})
			p.pos += cnt
			if err := p.expect('"'); err != nil {
				return nil, err
			}
			p.addRef(n)
			return n, nil
		case 'g':
			if err := p.expect('{'); err != nil {
				return nil, err
			}
			s, _, err := p.until("}")
			if err != nil {
				return nil, err
			}
			p.Spans = append(p.Spans, Span{start + 1, p.pos, "guid"})
			if !guidRe.MatchString(s) {
				return nil, p.fail("bad guid %q", s)
			}
			n := &Node{Kind: GUID, S: strings.ToLower(s)}
			p.addRef(n)
			return n, nil
		case 'D':
			var t Time
			var err error
			if t.Year, err = p.digits(4); err != nil {
				return nil, err
			}
			if t.Month, err = p.digits(2); err != nil {
				return nil, err
			}
			if t.Day, err = p.digits(2); err != nil {
				return nil, err
			}
			t.HasDate = true
			if t.Month < 1 || t.Month > 12 || t.Day < 1 || t.Day > daysIn(t.Year, t.Month) {
				return nil, p.fail("date out of range")
			}
			if p.pos < len(p.b) && p.b[p.pos] == 'T' {
				p.pos++
				if err := p.readTimePart(&t); err != nil {
					return nil, err
				}
			}
			if err := p.readZone(&t); err != nil {
				return nil, err
			}
			p.Spans = append(p.Spans, Span{start + 1, p.pos, "time"})
			n := &Node{Kind: DateTime, T: t}
			p.addRef(n)
			return n, nil
		case 'T':
			var t Time
			if err := p.readTimePart(&t); err != nil {
				return nil, err
			}
			if err := p.readZone(&t); err != nil {
				return nil, err
			}
			p.Spans = append(p.Spans, Span{start + 1, p.pos, "time"})
			n := &Node{Kind: DateTime, T: t}
			p.addRef(n)
			return n, nil
		case 'a':
			cnt, err := p.count('{')
			if err != nil {
				return nil, err
			}
			n := &Node{Kind: List}
			p.addRef(n)
			for i := 0; i < cnt; i++ {
				e, err := p.Value()
				if err != nil {
					return nil, err
				}
				n.Elems = append(n.Elems, e)
			}
			if err := p.expect('}'); err != nil {
				return nil, err
			}
			return n, nil
		case 'm':
			cnt, err := p.count('{')
			if err != nil {
				return nil, err
			}
			n := &Node{Kind: Map}
			p.addRef(n)
			for i := 0; i < 2*cnt; i++ {
				e, err := p.Value()
				if err != nil {
					return nil, err
				}
				n.Elems = append(n.Elems, e)
			}
			if err := p.expect('}'); err != nil {
				return nil, err
			}
			return n, nil
		case 'c':
			name, err := p.readStringBody()
			if err != nil {
				return nil, err
			}
			cnt, err := p.count('{')
			if err != nil {
				return nil, err
			}
			cls := &Class{Name: name.S}
			for i := 0; i < cnt; i++ {
				f, err := p.Value()
				if err != nil {
					return nil, err
				}
				if f.Kind != String {
					return nil, p.fail("class field name is a %v, not a string", f.Kind)
				}
				cls.Fields = append(cls.Fields, f.S)
			}
			if err := p.expect('}'); err != nil {
				return nil, err
			}
			p.classes = append(p.classes, cls)
			continue // a class definition is followed by a value
		case 'o':
			idx, err := p.count('{')
			if err != nil {
				return nil, err
			}
			if idx >= len(p.classes) {
				return nil, p.fail("object of class #%d before its definition (%d defined)", idx, len(p.classes))
			}
			cls := p.classes[idx]
			n := &Node{Kind: Object, Class: cls}
			p.addRef(n)
			for range cls.Fields {
				e, err := p.Value()
				if err != nil {
					return nil, err
				}
				n.Elems = append(n.Elems, e)
			}
			if err := p.expect('}'); err != nil {
				return nil, err
			}
			return n, nil
		case 'r':
			s, _, err := p.until(";")
			if err != nil {
				return nil, err
			}
			p.Spans = append(p.Spans, Span{start + 1, p.pos, "number"})
			if !uintRe.MatchString(s) {
				return nil, p.fail("bad reference index %q", s)
			}
			i, err := strconv.Atoi(s)
			if err != nil || i >= len(p.refs) {
				return nil, p.fail("reference r%s points past the %d referable items seen so far", s, len(p.refs))
			}
			p.RefTags++
			p.RefIdx = append(p.RefIdx, i)
			return p.refs[i], nil
		}
		p.pos = start
		return nil, p.fail("illegal tag %q in value position", tag)
	}
}

// ParseAll parses a stream of values that must consume the input exactly.
func ParseAll(b []byte) ([]*Node, *Parser, error) {
	p := NewParser(b)
	var out []*Node
	for p.pos < len(b) {
		n, err := p.Value()
		if err != nil {
			return out, p, err
		}
		out = append(out, n)
	}
	return out, p, nil
}

// ParseOne parses exactly one value that must consume the whole input.
func ParseOne(b []byte) (*Node, *Parser, error) {
	p := NewParser(b)
	n, err := p.Value()
	if err != nil {
		return nil, p, err
	}
	if p.pos != len(b) {
		return n, p, p.fail("%d trailing bytes after the value", len(b)-p.pos)
	}
	return n, p, nil
}

// ---------------------------------------------------------------- comparison and printing

// Norm fills in the parts a date-only or time-only form leaves implicit.
func (t Time) Norm() Time {
	if !t.HasDate {
		t.Year, t.Month, t.Day = 1970, 1, 1
	}
	t.HasDate, t.HasTime = true, true
	return t
}

// Relaxed makes Equal treat null and an empty list / map / byte string as the
// same value (the Go library's nil-versus-empty normalisation for round trips).
type Options struct{ NilIsEmpty bool }

// EqualOpt is Equal with options. a is the original, b the value under test.
func EqualOpt(a, b *Node, o Options) bool {
	return (&cmp{o: o, seen: map[[2]*Node]bool{}}).equal(a, b)
}

type cmp struct {
	o    Options
	seen map[[2]*Node]bool
}

func isEmptyish(n *Node) bool {
	switch n.Kind {
	case Null:
		return true
	case List, Map:
		return len(n.Elems) == 0
	case Bytes:
		return len(n.Bs) == 0
	}
	return false
}

// Equal reports whether two node graphs denote the same value: same shape under
// simultaneous traversal (bisimulation, so cycles terminate), maps compared as
// unordered collections of pairs.
func Equal(a, b *Node) bool { return EqualOpt(a, b, Options{}) }

func floatEq(a, b *Node) bool {
	if math.IsNaN(a.F) || math.IsNaN(b.F) {
		return math.IsNaN(a.F) && math.IsNaN(b.F)
	}
	if a.F == 0 && b.F == 0 && a.Prec == 0 && b.Prec == 0 && math.Signbit(a.F) != math.Signbit(b.F) {
		return false // the sign of a zero is part of the value
	}
	if a.F32 || b.F32 {
		return float32(a.F) == float32(b.F)
	}
	if a.Prec > 0 || b.Prec > 0 {
		// a is the original: the other side, rounded to the original's precision, must be the same number
		aInf := math.IsInf(a.F, 0) && (a.BigF == nil || a.BigF.IsInf())
		bInf := math.IsInf(b.F, 0) && (b.BigF == nil || b.BigF.IsInf())
		if aInf || bInf {
			return aInf && bInf && a.F == b.F
		}
		prec := a.Prec
		if prec == 0 {
			prec = b.Prec
		}
		x, y := a.BigF, b.BigF
		if x == nil {
			x = new(big.Float).SetFloat64(a.F)
		}
		if y == nil {
			y = new(big.Float).SetFloat64(b.F)
		}
		x = new(big.Float).SetPrec(prec).SetMode(big.ToNearestEven).Set(x)
		y = new(big.Float).SetPrec(prec).SetMode(big.ToNearestEven).Set(y)
		return x.Cmp(y) == 0
	}
	if a.BigF != nil && b.BigF != nil && a.FText != "" && b.FText != "" {
		return a.BigF.Cmp(b.BigF) == 0
	}
	return a.F == b.F
}

func (c *cmp) equal(a, b *Node) bool {
	seen := c.seen
	if a == nil || b == nil {
		return a == b
	}
	if a.Kind != b.Kind {
		if c.o.NilIsEmpty && isEmptyish(a) && isEmptyish(b) && (a.Kind == Null || b.Kind == Null) {
			return true
		}
		if a.Kind == Bytes && a.Alt && b.Kind == List && len(b.Elems) == len(a.Bs) {
			for i, e := range b.Elems {
				if e.Kind != Int || !e.I.IsInt64() || e.I.Int64() != int64(a.Bs[i]) {
					return false
				}
			}
			return true
		}
		return false
	}
	switch a.Kind {
	case Null:
		return true
	case Bool:
		return a.B == b.B
	case Int:
		return a.I.Cmp(b.I) == 0
	case Double:
		return floatEq(a, b)
	case String, GUID:
		return a.S == b.S
	case Bytes:
		return string(a.Bs) == string(b.Bs)
	case DateTime:
		return a.T.Norm() == b.T.Norm()
	}
	key := [2]*Node{a, b}
	if seen[key] {
		return true
	}
	seen[key] = true
	if len(a.Elems) != len(b.Elems) {
		return false
	}
	switch a.Kind {
	case Object:
		if a.Class.Name != b.Class.Name || strings.Join(a.Class.Fields, "\x00") != strings.Join(b.Class.Fields, "\x00") {
			return false
		}
		fallthrough
	case List:
		for i := range a.Elems {
			if !c.equal(a.Elems[i], b.Elems[i]) {
				return false
			}
		}
		return true
	case Map:
		used := make([]bool, len(b.Elems)/2)
		for i := 0; i < len(a.Elems); i += 2 {
			found := false
			for j := 0; j < len(b.Elems); j += 2 {
				if used[j/2] {
					continue
				}
				// trial comparison must not pollute the visited set on failure
				trial := map[[2]*Node]bool{}
				for k, v := range seen {
					trial[k] = v
				}
				tc := &cmp{o: c.o, seen: trial}
				if tc.equal(a.Elems[i], b.Elems[j]) && tc.equal(a.Elems[i+1], b.Elems[j+1]) {
					for k, v := range trial {
						seen[k] = v
					}
					used[j/2], found = true, true
					break
				}
			}
			if !found {
				return false
			}
		}
		return true
	}
	return false
}

// String renders a node for messages (cycles are cut).
func (n *Node) String() string {
	var b strings.Builder
	n.print(&b, map[*Node]bool{}, 0)
	return b.String()
}

func (n *Node) print(b *strings.Builder, on map[*Node]bool, depth int) {
	if n == nil {
		b.WriteString("<nil>")
		return
	}
	if b.Len() > 4000 {
		b.WriteString("…")
		return
	}
	switch n.Kind {
	case Null:
		b.WriteString("null")
	case Bool:
		fmt.Fprint(b, n.B)
	case Int:
		b.WriteString(n.I.String())
	case Double:
		if n.FText != "" {
			b.WriteString("d" + n.FText)
		} else {
			fmt.Fprintf(b, "d%v", n.F)
		}
	case String:
		fmt.Fprintf(b, "%q", n.S)
	case GUID:
		b.WriteString("g{" + n.S + "}")
	case Bytes:
		fmt.Fprintf(b, "b%q", n.Bs)
	case DateTime:
		t := n.T
		if t.HasDate {
			fmt.Fprintf(b, "D%04d-%02d-%02d", t.Year, t.Month, t.Day)
		}
		if t.HasTime {
			fmt.Fprintf(b, "T%02d:%02d:%02d.%09d", t.Hour, t.Min, t.Sec, t.Nsec)
		}
		if t.UTC {
			b.WriteByte('Z')
		}
	default:
		if on[n] {
			b.WriteString("<cycle>")
			return
		}
		on[n] = true
		switch n.Kind {
		case List:
			b.WriteByte('[')
			for i, e := range n.Elems {
				if i > 0 {
					b.WriteByte(' ')
				}
				e.print(b, on, depth+1)
			}
			b.WriteByte(']')
		case Map:
			// entries in a canonical (sorted) order: a map is unordered
			var entries []string
			for i := 0; i+1 < len(n.Elems); i += 2 {
				var e strings.Builder
				n.Elems[i].print(&e, on, depth+1)
				e.WriteByte(':')
				n.Elems[i+1].print(&e, on, depth+1)
				entries = append(entries, e.String())
			}
			sort.Strings(entries)
			b.WriteString("{" + strings.Join(entries, " ") + "}")
		case Object:
			b.WriteString(n.Class.Name + "{")
			for i, e := range n.Elems {
				if i > 0 {
					b.WriteByte(' ')
				}
				if i < len(n.Class.Fields) {
					b.WriteString(n.Class.Fields[i] + ":")
				}
				e.print(b, on, depth+1)
			}
			b.WriteString("}")
		}
		delete(on, n)
	}
}

// UTF16Len returns the length of s in UTF-16 code units (s must be valid UTF-8).
func UTF16Len(s string) int {
	n := 0
	for _, r := range s {
		if r >= 0x10000 {
			n += 2
		} else {
			n++
		}
	}
	return n
}

// Diff returns a short description of the first difference found (""
// when EqualOpt holds). It is only used for messages.
func Diff(a, b *Node, o Options) string {
	if EqualOpt(a, b, o) {
		return ""
	}
	return diff(a, b, o, "$", 0, map[[2]*Node]bool{})
}

func diff(a, b *Node, o Options, path string, depth int, visited map[[2]*Node]bool) string {
	if depth > 60 {
		return path + ": (too deep)"
	}
	if a != nil && b != nil {
		if visited[[2]*Node{a, b}] {
			return ""
		}
		visited[[2]*Node{a, b}] = true
	}
	if a == nil || b == nil || a.Kind != b.Kind {
		return fmt.Sprintf("%s: %s vs %s", path, short(a), short(b))
	}
	switch a.Kind {
	case List, Object:
		if len(a.Elems) != len(b.Elems) {
			return fmt.Sprintf("%s: %d vs %d elements", path, len(a.Elems), len(b.Elems))
		}
		if a.Kind == Object && (a.Class.Name != b.Class.Name || strings.Join(a.Class.Fields, ",") != strings.Join(b.Class.Fields, ",")) {
			return fmt.Sprintf("%s: class %s%v vs %s%v", path, a.Class.Name, a.Class.Fields, b.Class.Name, b.Class.Fields)
		}
		for i := range a.Elems {
			if !EqualOpt(a.Elems[i], b.Elems[i], o) {
				p := fmt.Sprintf("%s[%d]", path, i)
				if a.Kind == Object && i < len(a.Class.Fields) {
					p = path + "." + a.Class.Fields[i]
				}
				if d := diff(a.Elems[i], b.Elems[i], o, p, depth+1, visited); d != "" {
					return d
				}
			}
		}
	case Map:
		if len(a.Elems) != len(b.Elems) {
			return fmt.Sprintf("%s: %d vs %d entries", path, len(a.Elems)/2, len(b.Elems)/2)
		}
		for i := 0; i < len(a.Elems); i += 2 {
			found := false
			for j := 0; j < len(b.Elems); j += 2 {
				if EqualOpt(a.Elems[i], b.Elems[j], o) {
					found = true
					if !EqualOpt(a.Elems[i+1], b.Elems[j+1], o) {
						if d := diff(a.Elems[i+1], b.Elems[j+1], o, path+"{"+short(a.Elems[i])+"}", depth+1, visited); d != "" {
							return d
						}
					}
				}
			}
			if !found {
				return fmt.Sprintf("%s: key %s missing on the other side", path, short(a.Elems[i]))
			}
		}
	}
	if a.Kind == List || a.Kind == Map || a.Kind == Object {
		return ""
	}
	extra := ""
	if a.Kind == Double && a.Prec > 0 && a.BigF != nil && b.BigF != nil && !a.BigF.IsInf() && !b.BigF.IsInf() {
		y := new(big.Float).SetPrec(a.Prec).SetMode(big.ToNearestEven).Set(b.BigF)
		d := new(big.Float).Sub(a.BigF, y)
		d.Abs(d)
		ulp := new(big.Float).SetMantExp(big.NewFloat(1), a.BigF.MantExp(nil)-int(a.Prec))
		if d.Cmp(ulp) <= 0 {
			extra = " [1 ulp apart at the original precision]"
		}
	}
	return fmt.Sprintf("%s: %s vs %s%s", path, short(a), short(b), extra)
}

func short(n *Node) string {
	if n == nil {
		return "<nil>"
	}
	s := n.String()
	if n.Kind == Double && n.BigF != nil {
		s += fmt.Sprintf("(exact %s, prec %d)", n.BigF.Text('g', 45), n.Prec)
	}
	if len(s) > 200 {
		s = s[:200] + "…"
	}
	return n.Kind.String() + " " + s
}
