package ev
