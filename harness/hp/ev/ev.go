// Package ev is the evidence sink and run-time contract shared by every check.
//
// A test binary is started by /verif/check with these environment variables:
//
//	VERIF_PROP     property id (C01 ...)
//	VERIF_SEED     integer seed (default 1)
//	VERIF_TIER     quick | thorough
//	VERIF_SHARD    shard number, 0-based
//	VERIF_NSHARDS  number of shards
//	VERIF_OUT      directory for this shard's output (evidence.json, case, replay/)
//	VERIF_KF       path of known-findings.txt (read-only)
//	VERIF_REPLAY   path of a replay file (explicit-case replays)
//	VERIF_FINDING  key of a known finding to re-execute
//
// Everything measured (evaluations, distinct non-trivial cases, classes,
// samples, excluded known findings, violations) is counted here and flushed to
// VERIF_OUT/evidence.json periodically and at exit, so that a shard that dies
// still leaves its counts behind.
package ev

import (
	"bufio"
	"context"
	"encoding/json"
	"flag"
	"fmt"
	"hash/fnv"
	"os"
	"os/exec"
	"path/filepath"
	"runtime"
	"sort"
	"strconv"
	"strings"
	"sync"
	"syscall"
	"testing"
	"time"

	"pgregory.net/rapid"
)

const maxHashes = 4_000_000

type excl struct {
	Count   int64  `json:"count"`
	Example string `json:"example"`
}

// Violation is one failing case that no open known finding explains.
type Violation struct {
	Sub    string `json:"sub"`
	Test   string `json:"test"`
	Desc   string `json:"desc"`
	Detail string `json:"detail"`
	Replay string `json:"replay"`
}

type Sink struct {
	mu sync.Mutex

	Prop    string
	Tier    string
	Seed    uint64
	Shard   int
	NShards int
	OutDir  string

	evals      int64
	subEvals   map[string]int64
	hashes     map[uint64]struct{}
	hashCapped bool
	classes    map[string]int64
	first      map[string][]string
	reservoir  map[string][]string
	seen       map[string]int64
	rng        uint64
	excluded   map[string]*excl
	violations []Violation
	notes      map[string]interface{}
	exhaustive map[string]bool
	known      map[string]bool
	caseFile   *os.File
	armedAt    int64 // unix nanos of the last Begin; 0 = no case running (watchdog disarmed)
	armedSub   string
	armedDesc  string
	start      time.Time
	stop       chan struct{}
}

// S is the process-wide sink.
var S *Sink

func envInt(k string, d int) int {
	if v := os.Getenv(k); v != "" {
		if n, err := strconv.Atoi(v); err == nil {
			return n
		}
	}
	return d
}

// Thorough reports whether the thorough tier was requested.
func Thorough() bool { return S.Tier == "thorough" }

// N picks the per-process budget: the tier's total divided by the shard count.
func N(quick, thorough int) int {
	n := quick
	if Thorough() {
		n = thorough
	}
	n = n / S.NShards
	if n < 1 {
		n = 1
	}
	return n
}

// Pick returns q in the quick tier and t in the thorough tier (not divided).
func Pick(q, t int) int {
	if Thorough() {
		return t
	}
	return q
}

func newSink(prop string) *Sink {
	s := &Sink{
		Prop:       prop,
		Tier:       os.Getenv("VERIF_TIER"),
		Shard:      envInt("VERIF_SHARD", 0),
		NShards:    envInt("VERIF_NSHARDS", 1),
		OutDir:     os.Getenv("VERIF_OUT"),
		subEvals:   map[string]int64{},
		first:      map[string][]string{},
		reservoir:  map[string][]string{},
		seen:       map[string]int64{},
		hashes:     map[uint64]struct{}{},
		classes:    map[string]int64{},
		excluded:   map[string]*excl{},
		notes:      map[string]interface{}{},
		exhaustive: map[string]bool{},
		known:      map[string]bool{},
		start:      time.Now(),
		stop:       make(chan struct{}),
	}
	if s.Tier == "" {
		s.Tier = "quick"
	}
	seed, err := strconv.ParseUint(os.Getenv("VERIF_SEED"), 10, 64)
	if err != nil {
		// negative or odd seeds: hash the text
		h := fnv.New64a()
		h.Write([]byte(os.Getenv("VERIF_SEED")))
		seed = h.Sum64()
		if os.Getenv("VERIF_SEED") == "" {
			seed = 1
		}
	}
	s.Seed = seed
	s.rng = mix(seed, uint64(s.Shard)+0x9e37)
	if s.OutDir == "" {
		s.OutDir = filepath.Join(os.TempDir(), fmt.Sprintf("verif-%s-%d", prop, os.Getpid()))
	}
	os.MkdirAll(filepath.Join(s.OutDir, "replay"), 0o755)
	s.caseFile, _ = os.OpenFile(filepath.Join(s.OutDir, "case"), os.O_CREATE|os.O_RDWR|os.O_TRUNC, 0o644)
	s.loadKnown(os.Getenv("VERIF_KF"))
	return s
}

func (s *Sink) loadKnown(path string) {
	if path == "" {
		return
	}
	f, err := os.Open(path)
	if err != nil {
		return
	}
	defer f.Close()
	sc := bufio.NewScanner(f)
	sc.Buffer(make([]byte, 1<<20), 1<<20)
	for sc.Scan() {
		line := strings.TrimSpace(sc.Text())
		if !strings.HasPrefix(line, "finding:") {
			continue
		}
		var prop, key string
		for _, f := range strings.Fields(line) {
			if strings.HasPrefix(f, "property=") {
				prop = f[len("property="):]
			}
			if strings.HasPrefix(f, "key=") {
				key = f[len("key="):]
			}
		}
		if key != "" && (prop == s.Prop || prop == "") {
			s.known[key] = true
		}
	}
}

func mix(a, b uint64) uint64 {
	x := a ^ (b + 0x9e3779b97f4a7c15 + (a << 6) + (a >> 2))
	x ^= x >> 30
	x *= 0xbf58476d1ce4e5b9
	x ^= x >> 27
	x *= 0x94d049bb133111eb
	x ^= x >> 31
	return x
}

func hash64(parts ...string) uint64 {
	h := fnv.New64a()
	for _, p := range parts {
		h.Write([]byte(p))
		h.Write([]byte{0})
	}
	return h.Sum64()
}

// SeedFor derives a non-zero rapid seed for a sub-check from VERIF_SEED and the shard.
func (s *Sink) SeedFor(sub string) uint64 {
	v := mix(mix(s.Seed, uint64(s.Shard)), hash64(sub))
	if v == 0 {
		v = 1
	}
	return v
}

// Known reports whether key is an open entry of known-findings.txt.
func (s *Sink) Known(key string) bool { return s.known[key] }

// Begin records the case about to be executed in the side file, so that a
// process death can be attributed to it.
func (s *Sink) Begin(sub, desc string) {
	s.mu.Lock()
	s.armedAt, s.armedSub, s.armedDesc = time.Now().UnixNano(), sub, desc
	s.mu.Unlock()
	if s.caseFile == nil {
		return
	}
	b := []byte(sub + "\n" + desc + "\n")
	s.caseFile.WriteAt(b, 0)
	s.caseFile.Truncate(int64(len(b)))
}

func trunc(x string, n int) string {
	if len(x) > n {
		return x[:n] + fmt.Sprintf("...(+%d bytes)", len(x)-n)
	}
	return x
}

// Case counts one evaluated case. canon is the canonical encoding used for
// distinctness; nontrivial says whether it satisfies the property's stated
// rule; classes are histogram labels.
func (s *Sink) Case(sub, canon string, nontrivial bool, classes ...string) {
	s.mu.Lock()
	defer s.mu.Unlock()
	s.armedAt = 0
	s.evals++
	s.subEvals[sub]++
	for _, c := range classes {
		s.classes[c]++
	}
	if !nontrivial {
		return
	}
	h := hash64(sub, canon)
	if _, ok := s.hashes[h]; ok {
		return
	}
	if len(s.hashes) < maxHashes {
		s.hashes[h] = struct{}{}
	} else {
		s.hashCapped = true
		return
	}
	sample := sub + ": " + trunc(canon, 600)
	if len(s.first[sub]) < 2 {
		s.first[sub] = append(s.first[sub], sample)
		return
	}
	s.seen[sub]++
	s.rng = mix(s.rng, uint64(s.seen[sub]))
	if len(s.reservoir[sub]) < 2 {
		s.reservoir[sub] = append(s.reservoir[sub], sample)
	} else if j := s.rng % uint64(s.seen[sub]); j < 2 {
		s.reservoir[sub][j] = sample
	}
}

func (s *Sink) samples() []string {
	subs := make([]string, 0, len(s.first))
	for k := range s.first {
		subs = append(subs, k)
	}
	sort.Strings(subs)
	var out []string
	for _, k := range subs {
		out = append(out, s.first[k]...)
		out = append(out, s.reservoir[k]...)
	}
	return out
}

// Class bumps a histogram label without counting an evaluation.
func (s *Sink) Class(c string, n int64) {
	s.mu.Lock()
	s.classes[c] += n
	s.mu.Unlock()
}

// Note stores an extra coverage key.
func (s *Sink) Note(k string, v interface{}) {
	s.mu.Lock()
	s.notes[k] = v
	s.mu.Unlock()
}

// Exhaustive marks a sub-check as having enumerated its finite space completely.
func (s *Sink) Exhaustive(sub string, ok bool) {
	s.mu.Lock()
	s.exhaustive[sub] = ok
	s.mu.Unlock()
}

// Exclude counts a failing case explained by the open known finding key.
func (s *Sink) Exclude(key, example string) {
	s.mu.Lock()
	defer s.mu.Unlock()
	e := s.excluded[key]
	if e == nil {
		e = &excl{Example: trunc(example, 400)}
		s.excluded[key] = e
	}
	e.Count++
}

// Violation records a failing case and writes its replay file. test is the Go
// test name (for rapid fail-file replay); caseData, when non-nil, is a
// self-contained encoding that TestReplay understands.
func (s *Sink) Violation(sub, test, desc, detail string, caseData interface{}) string {
	s.mu.Lock()
	defer s.mu.Unlock()
	name := fmt.Sprintf("%s-%s.json", s.Prop, safe(sub))
	path := filepath.Join(s.OutDir, "replay", name)
	rec := map[string]interface{}{
		"property": s.Prop, "sub": sub, "test": test, "desc": desc, "detail": detail,
		"seed": s.Seed, "shard": s.Shard, "tier": s.Tier,
	}
	if caseData != nil {
		rec["case"] = caseData
	}
	b, _ := json.MarshalIndent(rec, "", " ")
	os.WriteFile(path, b, 0o644)
	// keep only the latest (= most shrunk) per sub
	for i := range s.violations {
		if s.violations[i].Sub == sub {
			s.violations[i] = Violation{sub, test, trunc(desc, 2000), trunc(detail, 2000), path}
			return path
		}
	}
	s.violations = append(s.violations, Violation{sub, test, trunc(desc, 2000), trunc(detail, 2000), path})
	return path
}

func safe(x string) string {
	var b strings.Builder
	for _, r := range x {
		if r >= 'a' && r <= 'z' || r >= 'A' && r <= 'Z' || r >= '0' && r <= '9' || r == '-' || r == '_' {
			b.WriteRune(r)
		} else {
			b.WriteByte('_')
		}
	}
	return b.String()
}

type outFile struct {
	Prop       string                 `json:"property_id"`
	Tier       string                 `json:"tier"`
	Seed       uint64                 `json:"seed"`
	Shard      int                    `json:"shard"`
	Evals      int64                  `json:"evaluations"`
	SubEvals   map[string]int64       `json:"sub_evaluations"`
	Distinct   int                    `json:"distinct_nontrivial"`
	HashCapped bool                   `json:"hash_capped"`
	Classes    map[string]int64       `json:"classes"`
	Samples    []string               `json:"samples"`
	Excluded   map[string]*excl       `json:"excluded"`
	Violations []Violation            `json:"violations"`
	Notes      map[string]interface{} `json:"notes"`
	Exhaustive map[string]bool        `json:"exhaustive"`
	WallS      float64                `json:"wall_s"`
	Done       bool                   `json:"done"`
}

// Flush writes evidence.json and hashes.bin atomically.
func (s *Sink) Flush(done bool) {
	s.mu.Lock()
	defer s.mu.Unlock()
	o := outFile{
		Prop: s.Prop, Tier: s.Tier, Seed: s.Seed, Shard: s.Shard, Evals: s.evals, SubEvals: s.subEvals,
		Distinct: len(s.hashes), HashCapped: s.hashCapped, Classes: s.classes,
		Samples: s.samples(), Excluded: s.excluded,
		Violations: s.violations, Notes: s.notes, Exhaustive: s.exhaustive,
		WallS: time.Since(s.start).Seconds(), Done: done,
	}
	b, err := json.Marshal(o)
	if err != nil {
		return
	}
	tmp := filepath.Join(s.OutDir, "evidence.json.tmp")
	if os.WriteFile(tmp, b, 0o644) == nil {
		os.Rename(tmp, filepath.Join(s.OutDir, "evidence.json"))
	}
	if done {
		hs := make([]uint64, 0, len(s.hashes))
		for h := range s.hashes {
			hs = append(hs, h)
		}
		sort.Slice(hs, func(i, j int) bool { return hs[i] < hs[j] })
		buf := make([]byte, 8*len(hs))
		for i, h := range hs {
			for k := 0; k < 8; k++ {
				buf[8*i+k] = byte(h >> (8 * k))
			}
		}
		os.WriteFile(filepath.Join(s.OutDir, "hashes.bin"), buf, 0o644)
	}
}

// Main is called from TestMain of every property package.
func Main(m *testing.M, prop string) {
	flag.Parse()
	S = newSink(prop)
	go func() {
		t := time.NewTicker(2 * time.Second)
		defer t.Stop()
		for {
			select {
			case <-t.C:
				S.Flush(false)
				S.watchdog()
			case <-S.stop:
				return
			}
		}
	}()
	code := m.Run()
	close(S.stop)
	S.Flush(true)
	if len(S.violations) > 0 && code == 0 {
		code = 1
	}
	os.Exit(code)
}

// Check runs a rapid property with a derived seed and the given number of cases.
func Check(t *testing.T, sub string, checks int, prop func(*rapid.T)) {
	t.Helper()
	if os.Getenv("VERIF_REPLAY_RAPID") != "" {
		checks = 1
	}
	flag.Set("rapid.checks", strconv.Itoa(checks))
	flag.Set("rapid.seed", strconv.FormatUint(S.SeedFor(sub), 10))
	if os.Getenv("VERIF_SHRINKTIME") != "" {
		flag.Set("rapid.shrinktime", os.Getenv("VERIF_SHRINKTIME"))
	}
	rapid.Check(t, prop)
}

// Steps sets the average number of Repeat actions for state-machine checks.
func Steps(n int) { flag.Set("rapid.steps", strconv.Itoa(n)) }

// Fail is the common tail of a rapid property: report the failing case unless
// an open known finding (key != "") explains it. It returns true when the
// caller should fail the rapid case (t.Fatalf) and false when it was excluded.
func (s *Sink) Fail(sub, test, key, desc, detail string) bool {
	if key != "" && s.Known(key) {
		s.Exclude(key, desc+" => "+detail)
		return false
	}
	s.Violation(sub, test, desc, detail, nil)
	return true
}

// ReplayCase loads the "case" member of the replay file named by VERIF_REPLAY.
func ReplayCase(v interface{}) (sub string, ok bool) {
	p := os.Getenv("VERIF_REPLAY")
	if p == "" {
		return "", false
	}
	b, err := os.ReadFile(p)
	if err != nil {
		return "", false
	}
	var rec struct {
		Sub  string          `json:"sub"`
		Case json.RawMessage `json:"case"`
	}
	if json.Unmarshal(b, &rec) != nil || rec.Case == nil {
		return rec.Sub, false
	}
	return rec.Sub, json.Unmarshal(rec.Case, v) == nil
}

// Failed reports whether a violation of another sub-check was already recorded in this process
// (checks whose fixtures are shared may stop early instead of crawling through timeouts).
func (s *Sink) Failed(exceptSub string) bool {
	s.mu.Lock()
	defer s.mu.Unlock()
	for _, v := range s.violations {
		if v.Sub != exceptSub {
			return true
		}
	}
	return false
}

// FindingKey returns the known-finding key the driver asked to re-execute.
func FindingKey() string { return os.Getenv("VERIF_FINDING") }

// FindingResult prints the line the driver looks for.
func FindingResult(key string, reproduced bool, detail string) {
	if reproduced {
		fmt.Printf("FINDING-REPRODUCED key=%s %s\n", key, trunc(detail, 500))
	} else {
		fmt.Printf("FINDING-ABSENT key=%s %s\n", key, trunc(detail, 500))
	}
}

// Idle disarms the hang watchdog (no case is running).
func (s *Sink) Idle() {
	s.mu.Lock()
	s.armedAt = 0
	s.mu.Unlock()
}

// watchdog: a case announced with Begin that has not been counted with Case within
// VERIF_CASE_TIMEOUT seconds (default 120; cases normally take micro- to milliseconds)
// is reported as a hang and the process exits, so that one hanging case does not
// consume the whole budget.
func (s *Sink) watchdog() {
	limit := time.Duration(envInt("VERIF_CASE_TIMEOUT", 120)) * time.Second
	s.mu.Lock()
	at, sub, desc := s.armedAt, s.armedSub, s.armedDesc
	s.mu.Unlock()
	if at == 0 || time.Since(time.Unix(0, at)) < limit {
		return
	}
	buf := make([]byte, 1<<16)
	n := runtime.Stack(buf, true)
	s.Violation(sub, "", desc, fmt.Sprintf("case did not finish within %v (hang); goroutines:\n%s", limit, trunc(string(buf[:n]), 6000)), nil)
	s.Flush(true)
	fmt.Printf("HANG sub=%s case=%s\n", sub, trunc(desc, 500))
	os.Exit(3)
}

// InChild re-executes this test binary, running only the test named testName with the payload in
// the environment variable VERIF_CHILD. It is used for inputs that may kill the process (fatal
// runtime errors cannot be recovered). It returns the child's combined output and whether it
// exited abnormally (non-zero status or killed by the timeout).
func InChild(testName, payload string, timeout time.Duration) (out string, abnormal bool) {
	ctx, cancel := context.WithTimeout(context.Background(), timeout)
	defer cancel()
	cmd := exec.CommandContext(ctx, os.Args[0], "-test.run", "^"+testName+"$", "-test.v")
	cmd.Env = append(os.Environ(), "VERIF_CHILD="+payload, "VERIF_OUT="+filepath.Join(S.OutDir, "child"), "GOTRACEBACK=single")
	cmd.SysProcAttr = &syscall.SysProcAttr{Pdeathsig: syscall.SIGKILL} // never outlive the parent
	b, err := cmd.CombinedOutput()
	return string(b), err != nil
}

// ChildPayload returns the payload when running as a child of InChild.
func ChildPayload() (string, bool) {
	p, ok := os.LookupEnv("VERIF_CHILD")
	return p, ok
}

// Bump adds n evaluations that were executed elsewhere (worker processes) to a sub-check's count.
func (s *Sink) Bump(sub string, n int64) {
	s.mu.Lock()
	s.evals += n
	s.subEvals[sub] += n
	s.mu.Unlock()
}
