// Package tp starts a service on every supported transport (ephemeral loopback ports, socket files
// under the run directory) and hands out client URLs.
package tp

import (
	"context"
	"fmt"
	"net"
	"net/http"
	"os"
	"path/filepath"
	"strconv"
	"strings"
	"sync"
	"sync/atomic"
	"time"

	"github.com/hprose/hprose-golang/v3/rpc"
	"github.com/hprose/hprose-golang/v3/rpc/core"
	hfast "github.com/hprose/hprose-golang/v3/rpc/http/fasthttp"
	"github.com/hprose/hprose-golang/v3/rpc/mock"
	"github.com/valyala/fasthttp"
)

// Kinds of transport. "http"/"ws" use a net/http server, "fasthttp"/"wsfast" a fasthttp server.
var Kinds = []string{"mock", "tcp", "unix", "udp", "ws", "wsfast", "http", "fasthttp"}

// Multiplexed kinds keep one connection and multiplex calls on it.
var Multiplexed = []string{"tcp", "unix", "ws", "wsfast", "udp"}

// FastHTTPClient reports whether this process uses the fasthttp client transport for http URLs (the
// scheme registry is global, so a process uses one of the two).
func FastHTTPClient() bool {
	switch os.Getenv("VERIF_HTTP_CLIENT") {
	case "fasthttp":
		return true
	case "nethttp":
		return false
	}
	// odd shards use the fasthttp client transport
	n, _ := strconv.Atoi(os.Getenv("VERIF_SHARD"))
	return n%2 == 1
}

var once sync.Once

func setup() {
	once.Do(func() {
		if FastHTTPClient() {
			hfast.RegisterTransport()
		}
	})
}

type Server struct {
	Kind    string
	URL     string
	Service *core.Service
	close   func()
}

func (s *Server) Close() {
	if s.close != nil {
		s.close()
	}
}

var seq int64

func sockDir() string {
	d := os.Getenv("VERIF_OUT")
	if d == "" {
		d = os.TempDir()
	}
	// unix socket paths are limited to ~100 bytes
	if len(d) > 60 {
		d = os.TempDir()
	}
	return d
}

// Start binds the service to a fresh server of the given kind, retrying for a while when the machine
// has run out of free ports.
func Start(kind string, service *core.Service) (s *Server, err error) {
	for try := 0; try < 40; try++ {
		if s, err = start(kind, service); err == nil || !ResourceError(err) {
			return
		}
		time.Sleep(250 * time.Millisecond)
	}
	return
}

// ResourceError reports whether err says that the machine has no free port or descriptor left.
func ResourceError(err error) bool {
	if err == nil {
		return false
	}
	m := err.Error()
	for _, x := range []string{"address already in use", "cannot assign requested address", "too many open files", "no buffer space available"} {
		if strings.Contains(m, x) {
			return true
		}
	}
	return false
}

func start(kind string, service *core.Service) (*Server, error) {
	setup()
	_ = rpc.NewClient // make sure the rpc package (transport and handler registration) is linked in
	n := atomic.AddInt64(&seq, 1)
	s := &Server{Kind: kind, Service: service}
	switch kind {
	case "mock":
		addr := fmt.Sprintf("tp-%d-%d", os.Getpid(), n)
		srv := mock.Server{Address: addr}
		if err := service.Bind(srv); err != nil {
			return nil, err
		}
		s.URL, s.close = "mock://"+addr, srv.Close
	case "tcp":
		l, err := net.Listen("tcp", "127.0.0.1:0")
		if err != nil {
			return nil, err
		}
		if err := service.Bind(l); err != nil {
			return nil, err
		}
		s.URL, s.close = "tcp://"+l.Addr().String(), func() { l.Close() }
	case "unix":
		path := filepath.Join(sockDir(), fmt.Sprintf("tp-%d-%d.sock", os.Getpid(), n))
		os.Remove(path)
		l, err := net.Listen("unix", path)
		if err != nil {
			return nil, err
		}
		if err := service.Bind(l); err != nil {
			return nil, err
		}
		s.URL, s.close = "unix://"+path, func() { l.Close(); os.Remove(path) }
	case "udp":
		c, err := net.ListenUDP("udp", &net.UDPAddr{IP: net.IPv4(127, 0, 0, 1)})
		if err != nil {
			return nil, err
		}
		if err := service.Bind(c); err != nil {
			return nil, err
		}
		s.URL, s.close = "udp://"+c.LocalAddr().String(), func() { c.Close() }
	case "http", "ws":
		l, err := net.Listen("tcp", "127.0.0.1:0")
		if err != nil {
			return nil, err
		}
		srv := &http.Server{}
		if err := service.Bind(srv); err != nil {
			return nil, err
		}
		go srv.Serve(l)
		scheme := "http"
		if kind == "ws" {
			scheme = "ws"
		}
		s.URL, s.close = scheme+"://"+l.Addr().String()+"/", func() { srv.Close() }
	case "fasthttp", "wsfast":
		l, err := net.Listen("tcp", "127.0.0.1:0")
		if err != nil {
			return nil, err
		}
		// the server's own body limit (4 MiB by default) is set beyond anything the checks generate
		srv := &fasthttp.Server{MaxRequestBodySize: 256 << 20}
		if err := service.Bind(srv); err != nil {
			return nil, err
		}
		go srv.Serve(l)
		scheme := "http"
		if kind == "wsfast" {
			scheme = "ws"
		}
		s.URL, s.close = scheme+"://"+l.Addr().String()+"/", func() { l.Close(); go srv.Shutdown() }
	default:
		return nil, fmt.Errorf("unknown transport kind %q", kind)
	}
	time.Sleep(2 * time.Millisecond)
	return s, nil
}

// Client returns a client for the server with the given timeout (0 = none).
func (s *Server) Client(timeout time.Duration) *core.Client {
	c := core.NewClient(s.URL)
	c.Timeout = timeout
	return c
}

// SetPool installs a worker pool on the transports that support one.
func SetPool(service *core.Service, pool core.WorkerPool) {
	rpc.SocketHandler(service).Pool = pool
	rpc.UDPHandler(service).Pool = pool
	rpc.WebSocketHandler(service).Pool = pool
}

// GoPool is a bounded worker pool of n goroutines.
type GoPool struct {
	tasks chan func()
}

func NewGoPool(n int) *GoPool {
	p := &GoPool{tasks: make(chan func(), 1024)}
	for i := 0; i < n; i++ {
		go func() {
			for t := range p.tasks {
				t()
			}
		}()
	}
	return p
}

func (p *GoPool) Submit(f func()) { p.tasks <- f }

// Raw sends request bytes through the client's IO chain and transport, bypassing the codec.
func Raw(c *core.Client, request []byte) ([]byte, error) {
	cc := core.NewClientContext()
	cc.Init(c)
	return c.Request(core.WithContext(context.Background(), cc), request)
}
