package uni

import (
	"fmt"
	"reflect"
	"time"

	"pgregory.net/rapid"
)

// Graph node types: pointer, slice, map, array and interface slots that can point anywhere.
type G1 struct {
	Name string
	// members that take a reference slot without being pointers: empty anonymous structs (written as empty maps)
	// and byte arrays with typed destinations; they come before the pointer members so that every later
	// back-reference depends on both sides counting them alike
	Set     map[string]struct{}
	Es      []struct{}
	E       struct{}
	Tag4    [4]byte
	Tags    [][2]byte
	PT      *[8]byte
	A       *G1
	B       *G2
	Kids    []*G1
	M       map[string]*G2
	Arr     [2]*G1
	Any     interface{}
	Clutter interface{}
	An      struct { // a typed anonymous struct (travels as a map, takes a reference index)
		First, Second string
		P             *G1
	}
	Ans  []struct{ Name, Note string }
	Tail string
}

type G2 struct {
	ID   int
	Back *G1
	Peer *G2
	L    *[]*G1
	PM   *map[string]*G1
	PA   *[3]*G1 // pointer to an array: shared between nodes, its elements lead back to them
	T    time.Time
	S    []string
	Pre  interface{}
}

var GraphTypes = []reflect.Type{reflect.TypeOf(G1{}), reflect.TypeOf(G2{})}

// Graph is a generated pointer graph rooted at Root.
type Graph struct {
	Root    *G1
	N1, N2  int
	Cyclic  bool
	Shared  bool
	Desc    string
	Clutter []string
}

// GenGraph draws n nodes and wires every pointer slot to a node chosen among all nodes
// (earlier -> sharing, self -> self-loop, later -> longer cycle) or nil.
func GenGraph(rt *rapid.T, acyclic bool) *Graph {
	n1 := rapid.IntRange(1, 5).Draw(rt, "n1")
	n2 := rapid.IntRange(0, 4).Draw(rt, "n2")
	g1 := make([]*G1, n1)
	g2 := make([]*G2, n2)
	names := []string{"alpha", "beta", "alpha", "n", "", "node-😀", "beta"}
	for i := range g1 {
		g1[i] = &G1{Name: rapid.SampledFrom(names).Draw(rt, "name"), Tail: rapid.SampledFrom(names).Draw(rt, "tail")}
	}
	for i := range g2 {
		g2[i] = &G2{ID: i, T: time.Date(2020+i%2, 5, 6, 7, 8, 9, 0, time.UTC), S: []string{"alpha", rapid.SampledFrom(names).Draw(rt, "s")}}
	}
	g := &Graph{Root: g1[0], N1: n1, N2: n2}
	// in acyclic mode a node may only point at nodes with a higher index (DAG)
	pick1 := func(from int, label string) *G1 {
		lo := 0
		if acyclic {
			lo = from + 1
		}
		if lo >= n1 || rapid.IntRange(0, 3).Draw(rt, label+"nil") == 0 {
			return nil
		}
		return g1[rapid.IntRange(lo, n1-1).Draw(rt, label)]
	}
	pick2 := func(from int, label string) *G2 {
		lo := 0
		if acyclic {
			lo = from + 1
		}
		if lo >= n2 || rapid.IntRange(0, 3).Draw(rt, label+"nil") == 0 {
			return nil
		}
		return g2[rapid.IntRange(lo, n2-1).Draw(rt, label)]
	}
	clutterTypes := ClutterTypes()
	for i, x := range g1 {
		if rapid.IntRange(0, 2).Draw(rt, "fillers") > 0 {
			if rapid.Bool().Draw(rt, "set") {
				x.Set = map[string]struct{}{}
				for k := rapid.IntRange(0, 2).Draw(rt, "setn"); k > 0; k-- {
					x.Set[rapid.SampledFrom(names).Draw(rt, "setk")] = struct{}{}
				}
			}
			x.Es = make([]struct{}, rapid.IntRange(0, 2).Draw(rt, "es"))
			x.Tag4 = [4]byte{byte(i), 1, 2, 3}
			for k := rapid.IntRange(0, 2).Draw(rt, "tags"); k > 0; k-- {
				x.Tags = append(x.Tags, [2]byte{byte(k), byte(i)})
			}
			if rapid.Bool().Draw(rt, "pt") {
				x.PT = &[8]byte{1, 2, 3, 4, 5, 6, 7, byte(i)}
			}
		}
		x.A = pick1(i, "A")
		x.B = pick2(-1, "B")
		for k := rapid.IntRange(0, 3).Draw(rt, "kids"); k > 0; k-- {
			x.Kids = append(x.Kids, pick1(i, "kid"))
		}
		if rapid.Bool().Draw(rt, "hasM") {
			x.M = map[string]*G2{}
			for k := rapid.IntRange(0, 2).Draw(rt, "mn"); k > 0; k-- {
				x.M[rapid.SampledFrom([]string{"k1", "k2", "alpha"}).Draw(rt, "mk")] = pick2(-1, "mv")
			}
		}
		x.Arr[0], x.Arr[1] = pick1(i, "arr0"), pick1(i, "arr1")
		if rapid.Bool().Draw(rt, "hasAn") {
			x.An.First, x.An.Second = rapid.SampledFrom(names).Draw(rt, "an1"), rapid.SampledFrom(names).Draw(rt, "an2")
			x.An.P = pick1(i, "anp")
			for k := rapid.IntRange(0, 3).Draw(rt, "ans"); k > 0; k-- {
				x.Ans = append(x.Ans, struct{ Name, Note string }{rapid.SampledFrom(names).Draw(rt, "ansn"), rapid.SampledFrom(names).Draw(rt, "anso")})
			}
		}
		switch rapid.IntRange(0, 4).Draw(rt, "any") {
		case 0:
			if p := pick1(i, "any1"); p != nil {
				x.Any = p
			}
		case 1:
			if p := pick2(-1, "any2"); p != nil {
				x.Any = p
			}
		case 2:
			x.Any = rapid.SampledFrom(names).Draw(rt, "anys")
		}
		if rapid.IntRange(0, 2).Draw(rt, "clutter") == 0 {
			ct := rapid.SampledFrom(clutterTypes).Draw(rt, "ct")
			if ct == TBigFloatP {
				ct = TBigRatP // a *big.Float in an interface{} slot comes back as float64 under the default RealType
			}
			cv := Gen(rt, ct, 2, Opts{MaxLen: 3, NoBadYears: true, NoLaxUTF8: true, NoBigPrec: true})
			switch cv.Kind() {
			case reflect.Ptr, reflect.Map, reflect.Slice, reflect.Interface:
				if cv.IsNil() {
					continue
				}
			}
			x.Clutter = cv.Interface()
			g.Clutter = append(g.Clutter, ct.String())
		}
	}
	// one array behind a pointer that several G2 nodes may share (cyclic mode only: its elements are G1 nodes)
	var sharedPA *[3]*G1
	if !acyclic && n2 > 0 && rapid.Bool().Draw(rt, "hasPA") {
		sharedPA = &[3]*G1{pick1(-1, "pa0"), pick1(-1, "pa1"), pick1(-1, "pa2")}
	}
	// one backing array of which several G2 nodes hold views of different lengths, each behind its own pointer:
	// distinct lists that start at the same address
	var viewBase []*G1
	if !acyclic && n2 > 1 && rapid.Bool().Draw(rt, "hasViews") {
		viewBase = []*G1{pick1(-1, "v0"), pick1(-1, "v1"), pick1(-1, "v2")}
	}
	for i, y := range g2 {
		// G2 -> G1 edges close cycles; in acyclic mode G2 nodes are leaves towards G1
		if !acyclic {
			if sharedPA != nil && rapid.IntRange(0, 2).Draw(rt, "usePA") > 0 {
				y.PA = sharedPA
			}
			y.Back = pick1(-1, "back")
			if viewBase != nil && rapid.IntRange(0, 2).Draw(rt, "useView") > 0 {
				view := viewBase[:rapid.IntRange(1, 3).Draw(rt, "viewLen")]
				y.L = &view
			} else if rapid.Bool().Draw(rt, "hasL") {
				l := []*G1{pick1(-1, "l0"), pick1(-1, "l1")}
				y.L = &l
			}
			if rapid.Bool().Draw(rt, "hasPM") {
				pm := map[string]*G1{"x": pick1(-1, "pm")}
				y.PM = &pm
			}
		}
		y.Peer = pick2(i, "peer")
		if rapid.IntRange(0, 3).Draw(rt, "pre") == 0 {
			y.Pre = rapid.SampledFrom(names).Draw(rt, "pres")
		}
	}
	g.analyse()
	return g
}

func (g *Graph) analyse() {
	// reachability, in-degree and cycle detection over struct nodes
	indeg := map[interface{}]int{}
	state := map[interface{}]int{}
	var visit func(v reflect.Value)
	var visitNode func(p interface{}, v reflect.Value)
	visitNode = func(p interface{}, v reflect.Value) {
		indeg[p]++
		switch state[p] {
		case 1:
			g.Cyclic = true
			return
		case 2:
			return
		}
		state[p] = 1
		visit(v.Elem())
		state[p] = 2
	}
	visit = func(v reflect.Value) {
		switch v.Kind() {
		case reflect.Ptr:
			if v.IsNil() {
				return
			}
			if t := v.Type().Elem(); t == GraphTypes[0] || t == GraphTypes[1] {
				visitNode(v.Interface(), v)
				return
			}
			visit(v.Elem())
		case reflect.Interface:
			if !v.IsNil() {
				visit(v.Elem())
			}
		case reflect.Struct:
			if v.Type() == TTime {
				return
			}
			for i := 0; i < v.NumField(); i++ {
				if v.Type().Field(i).PkgPath == "" {
					visit(v.Field(i))
				}
			}
		case reflect.Slice, reflect.Array:
			for i := 0; i < v.Len(); i++ {
				visit(v.Index(i))
			}
		case reflect.Map:
			it := v.MapRange()
			for it.Next() {
				visit(it.Value())
			}
		}
	}
	visit(reflect.ValueOf(g.Root))
	for _, d := range indeg {
		if d > 1 {
			g.Shared = true
		}
	}
	g.Desc = fmt.Sprintf("nodes=%d+%d reachable=%d cyclic=%v shared=%v clutter=%v", g.N1, g.N2, len(indeg), g.Cyclic, g.Shared, g.Clutter)
}

// CountStructPointers returns the number of distinct reachable *G1/*G2 (and other struct pointer) identities.
func CountStructPointers(root reflect.Value) int {
	seen := map[uintptr]bool{}
	var visit func(v reflect.Value, depth int)
	visit = func(v reflect.Value, depth int) {
		if depth > 200 {
			return
		}
		switch v.Kind() {
		case reflect.Ptr:
			if v.IsNil() {
				return
			}
			if t := v.Type().Elem(); t == GraphTypes[0] || t == GraphTypes[1] {
				if seen[v.Pointer()] {
					return
				}
				seen[v.Pointer()] = true
			}
			visit(v.Elem(), depth+1)
		case reflect.Interface:
			if !v.IsNil() {
				visit(v.Elem(), depth+1)
			}
		case reflect.Struct:
			if v.Type() == TTime {
				return
			}
			for i := 0; i < v.NumField(); i++ {
				if v.Type().Field(i).PkgPath == "" {
					visit(v.Field(i), depth+1)
				}
			}
		case reflect.Slice, reflect.Array:
			for i := 0; i < v.Len(); i++ {
				visit(v.Index(i), depth+1)
			}
		case reflect.Map:
			it := v.MapRange()
			for it.Next() {
				visit(it.Value(), depth+1)
			}
		}
	}
	visit(root, 0)
	return len(seen)
}
