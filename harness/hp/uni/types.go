// Package uni is the type universe and the value generators shared by the
// serialization checks (C01-C06, C14), together with the Go-value -> neutral-node
// denotation (FromGo) and the normalising comparison (Equiv).
package uni

import (
	"container/list"
	"math/big"
	"reflect"
	"time"

	"github.com/google/uuid"
)

// ---- named scalar twins
type MyBool bool
type MyInt int
type MyInt8 int8
type MyInt16 int16
type MyInt32 int32
type MyInt64 int64
type MyUint uint
type MyUint8 uint8
type MyUint16 uint16
type MyUint32 uint32
type MyUint64 uint64
type MyFloat32 float32
type MyFloat64 float64
type MyString string
type MyBytes []byte
type MyInts []int
type MyStrMap map[string]int

// ---- named structs (static catalogue)
type Plain struct {
	A int
	B string
	C float64
}

type Tagged struct {
	ID    int     `hprose:"identifier"`
	Name  string  `json:"nick,omitempty"`
	Both  int64   `hprose:"hp" json:"js"`
	Skip  string  `hprose:"-"`
	Skip2 float64 `json:"-"`
	Plain bool
}

type Inner struct {
	X int16
	Y string
}

// Café: type name, field names and aliases outside ASCII (1-, 2-, 3- and 4-byte characters): the name lengths
// of the class definition count UTF-16 units like every other string.
type Café struct {
	Prénom string
	Ville  string `hprose:"城市"`
	Ärger  int    `hprose:"😀s"`
	Naïve  *Inner
}

type Embeds struct {
	Inner
	Z uint8
}

type inner2 struct {
	Deep  string
	Deep2 []int
}

type EmbedsUnexported struct {
	inner2
	Top int
}

// EmbedsMiddle and EmbedsLate: the embedded struct does not sit at the start of the outer struct.
type EmbedsMiddle struct {
	A int
	Inner
	D float64
}

type EmbedsLate struct {
	Flag bool
	Note string
	inner2
	EmbedsMiddle
	Last *int
}

type Embeds2 struct {
	Embeds
	W float32
}

type Unexported struct {
	Pub  int
	priv int
	F    func()
	Ch   chan int
	Pub2 string
}

type OnePtr struct{ P *int }
type OneMap struct{ M map[string]int }
type OneArr struct{ A [1]*int }
type OneSlice struct{ S []string }
type OneIface struct{ X interface{} }
type OneStruct struct{ In Inner }
type OneOne struct{ O OnePtr }
type Zero struct{}

type Rec struct {
	V    int
	Next *Rec
}

type Tree struct {
	Name string
	Kids []Tree
	M    map[string]*Tree
}

type MutA struct {
	N string
	B *MutB
}
type MutB struct {
	K int
	A *MutA
	L []*MutA
}

type WithIface struct {
	X interface{}
	L []interface{}
	M map[string]interface{}
}

type WithTime struct {
	T  time.Time
	P  *time.Time
	U  uuid.UUID
	Bi *big.Int
	Bf *big.Float
	Br *big.Rat
	L  *list.List
}

// AllScalars etc. put every leaf type into named-struct field positions.
type AllScalars struct {
	B    bool
	I    int
	I8   int8
	I16  int16
	I32  int32
	I64  int64
	U    uint
	U8   uint8
	U16  uint16
	U32  uint32
	U64  uint64
	Up   uintptr
	F32  float32
	F64  float64
	C64  complex64
	C128 complex128
	S    string
	Bs   []byte
	If   interface{}
}

type AllPtrs struct {
	B    *bool
	I    *int
	I8   *int8
	I16  *int16
	I32  *int32
	I64  *int64
	U    *uint
	U8   *uint8
	U16  *uint16
	U32  *uint32
	U64  *uint64
	Up   *uintptr
	F32  *float32
	F64  *float64
	C64  *complex64
	C128 *complex128
	S    *string
	Bs   *[]byte
	If   *interface{}
	T    *time.Time
	Uu   *uuid.UUID
	St   *Inner
}

type AllSlices struct {
	B    []bool
	I    []int
	I8   []int8
	I16  []int16
	I32  []int32
	I64  []int64
	U    []uint
	U16  []uint16
	U32  []uint32
	U64  []uint64
	F32  []float32
	F64  []float64
	C64  []complex64
	C128 []complex128
	S    []string
	Bs   [][]byte
	If   []interface{}
	St   []Inner
	Sp   []*Inner
}

type AllNamed struct {
	B   MyBool
	I   MyInt
	I8  MyInt8
	U8  MyUint8
	F32 MyFloat32
	F64 MyFloat64
	S   MyString
	Bs  MyBytes
	Is  MyInts
	M   MyStrMap
}

var (
	tBool      = reflect.TypeOf(false)
	tInt       = reflect.TypeOf(int(0))
	tString    = reflect.TypeOf("")
	tBytes     = reflect.TypeOf([]byte(nil))
	TIface     = reflect.TypeOf((*interface{})(nil)).Elem()
	TTime      = reflect.TypeOf(time.Time{})
	TUUID      = reflect.TypeOf(uuid.UUID{})
	TBigInt    = reflect.TypeOf(big.Int{})
	TBigFloat  = reflect.TypeOf(big.Float{})
	TBigRat    = reflect.TypeOf(big.Rat{})
	TListPtr   = reflect.TypeOf((*list.List)(nil))
	TBigIntP   = reflect.PtrTo(TBigInt)
	TBigFloatP = reflect.PtrTo(TBigFloat)
	TBigRatP   = reflect.PtrTo(TBigRat)
)

// Scalars are the built-in scalar leaf types.
var Scalars = []reflect.Type{
	tBool, tInt, reflect.TypeOf(int8(0)), reflect.TypeOf(int16(0)), reflect.TypeOf(int32(0)), reflect.TypeOf(int64(0)),
	reflect.TypeOf(uint(0)), reflect.TypeOf(uint8(0)), reflect.TypeOf(uint16(0)), reflect.TypeOf(uint32(0)), reflect.TypeOf(uint64(0)),
	reflect.TypeOf(uintptr(0)), reflect.TypeOf(float32(0)), reflect.TypeOf(float64(0)),
	reflect.TypeOf(complex64(0)), reflect.TypeOf(complex128(0)), tString,
}

// FastMapTypes are the 15 key/value types of the specialised map writers.
var FastMapTypes = []reflect.Type{
	tString, tInt, reflect.TypeOf(int8(0)), reflect.TypeOf(int16(0)), reflect.TypeOf(int32(0)), reflect.TypeOf(int64(0)),
	reflect.TypeOf(uint(0)), reflect.TypeOf(uint8(0)), reflect.TypeOf(uint16(0)), reflect.TypeOf(uint32(0)), reflect.TypeOf(uint64(0)),
	reflect.TypeOf(float32(0)), reflect.TypeOf(float64(0)), tBool, TIface,
}

// NamedScalars are user-defined types over scalar kinds.
var NamedScalars = []reflect.Type{
	reflect.TypeOf(MyBool(false)), reflect.TypeOf(MyInt(0)), reflect.TypeOf(MyInt8(0)), reflect.TypeOf(MyInt16(0)),
	reflect.TypeOf(MyInt32(0)), reflect.TypeOf(MyInt64(0)), reflect.TypeOf(MyUint(0)), reflect.TypeOf(MyUint8(0)),
	reflect.TypeOf(MyUint16(0)), reflect.TypeOf(MyUint32(0)), reflect.TypeOf(MyUint64(0)), reflect.TypeOf(MyFloat32(0)),
	reflect.TypeOf(MyFloat64(0)), reflect.TypeOf(MyString("")),
}

// Specials are the library-supported non-scalar leaves.
var Specials = []reflect.Type{
	tBytes, TTime, TUUID, TBigIntP, TBigFloatP, TBigRatP, TListPtr, TIface,
	reflect.TypeOf(MyBytes(nil)), reflect.TypeOf(MyInts(nil)), reflect.TypeOf(MyStrMap(nil)),
}

// Structs is the static catalogue of named struct types.
var Structs = []reflect.Type{
	reflect.TypeOf(Plain{}), reflect.TypeOf(Tagged{}), reflect.TypeOf(Inner{}), reflect.TypeOf(Café{}), reflect.TypeOf(Embeds{}),
	reflect.TypeOf(EmbedsUnexported{}), reflect.TypeOf(Embeds2{}), reflect.TypeOf(EmbedsMiddle{}), reflect.TypeOf(EmbedsLate{}), reflect.TypeOf(Unexported{}),
	reflect.TypeOf(OnePtr{}), reflect.TypeOf(OneMap{}), reflect.TypeOf(OneArr{}), reflect.TypeOf(OneSlice{}),
	reflect.TypeOf(OneIface{}), reflect.TypeOf(OneStruct{}), reflect.TypeOf(OneOne{}), reflect.TypeOf(Zero{}),
	reflect.TypeOf(Rec{}), reflect.TypeOf(Tree{}), reflect.TypeOf(MutA{}), reflect.TypeOf(MutB{}),
	reflect.TypeOf(WithIface{}), reflect.TypeOf(WithTime{}),
	reflect.TypeOf(AllScalars{}), reflect.TypeOf(AllPtrs{}), reflect.TypeOf(AllSlices{}), reflect.TypeOf(AllNamed{}),
}

// Leaves is every leaf of the matrix.
func Leaves() []reflect.Type {
	var out []reflect.Type
	out = append(out, Scalars...)
	out = append(out, NamedScalars...)
	out = append(out, Specials...)
	out = append(out, Structs...)
	return out
}

// Hashable reports whether values of t can be map keys for the purposes of the
// checks (pointers are excluded: identity cannot round-trip; floats are allowed).
func Hashable(t reflect.Type) bool {
	switch t.Kind() {
	case reflect.Bool, reflect.Int, reflect.Int8, reflect.Int16, reflect.Int32, reflect.Int64,
		reflect.Uint, reflect.Uint8, reflect.Uint16, reflect.Uint32, reflect.Uint64, reflect.Uintptr,
		reflect.Float32, reflect.Float64, reflect.String:
		return true
	case reflect.Interface:
		return t == TIface
	case reflect.Array:
		return Hashable(t.Elem())
	}
	return false
}

// Position is a way of placing a type T inside a container type.
type Position struct {
	Name  string
	Build func(t reflect.Type) reflect.Type // nil result = not applicable
}

func structOf(name string, ft reflect.Type) reflect.Type {
	return reflect.StructOf([]reflect.StructField{{Name: name, Type: ft}})
}

// Positions of the matrix.
var Positions = []Position{
	{"T", func(t reflect.Type) reflect.Type { return t }},
	{"*T", func(t reflect.Type) reflect.Type { return reflect.PtrTo(t) }},
	{"**T", func(t reflect.Type) reflect.Type { return reflect.PtrTo(reflect.PtrTo(t)) }},
	{"[]T", func(t reflect.Type) reflect.Type { return reflect.SliceOf(t) }},
	{"[][]T", func(t reflect.Type) reflect.Type { return reflect.SliceOf(reflect.SliceOf(t)) }},
	{"[]*T", func(t reflect.Type) reflect.Type { return reflect.SliceOf(reflect.PtrTo(t)) }},
	{"[0]T", func(t reflect.Type) reflect.Type { return reflect.ArrayOf(0, t) }},
	{"[1]T", func(t reflect.Type) reflect.Type { return reflect.ArrayOf(1, t) }},
	{"[3]T", func(t reflect.Type) reflect.Type { return reflect.ArrayOf(3, t) }},
	{"*[]T", func(t reflect.Type) reflect.Type { return reflect.PtrTo(reflect.SliceOf(t)) }},
	{"*[2]T", func(t reflect.Type) reflect.Type { return reflect.PtrTo(reflect.ArrayOf(2, t)) }},
	{"map[string]T", func(t reflect.Type) reflect.Type { return reflect.MapOf(tString, t) }},
	{"map[string]*T", func(t reflect.Type) reflect.Type { return reflect.MapOf(tString, reflect.PtrTo(t)) }},
	{"map[string][]T", func(t reflect.Type) reflect.Type { return reflect.MapOf(tString, reflect.SliceOf(t)) }},
	{"map[int]T", func(t reflect.Type) reflect.Type { return reflect.MapOf(tInt, t) }},
	{"map[T]string", func(t reflect.Type) reflect.Type {
		if !Hashable(t) {
			return nil
		}
		return reflect.MapOf(t, tString)
	}},
	{"struct{F T}", func(t reflect.Type) reflect.Type { return structOf("F", t) }},
	{"struct{F *T}", func(t reflect.Type) reflect.Type { return structOf("F", reflect.PtrTo(t)) }},
	{"struct{F []T}", func(t reflect.Type) reflect.Type { return structOf("F", reflect.SliceOf(t)) }},
	{"struct{F map[string]T}", func(t reflect.Type) reflect.Type { return structOf("F", reflect.MapOf(tString, t)) }},
	{"struct{A int;F T;Z string}", func(t reflect.Type) reflect.Type {
		return reflect.StructOf([]reflect.StructField{{Name: "A", Type: tInt}, {Name: "F", Type: t}, {Name: "Z", Type: tString}})
	}},
}
