package uni

import (
	"math/big"
	"reflect"
	"time"
)

// Features describes what a value contains; known-finding matchers key on these.
type Features struct {
	ComplexIm    bool // a complex with non-zero imaginary part
	ThirdZone    bool // a time that is neither UTC nor Local
	BadYear      bool // a time whose year is outside 0..9999
	BigPrec      bool // a big.Float with more than 64 bits of precision
	BigInf       bool // an infinite big.Float
	BigFloat     bool // any big.Float
	PtrArray     bool // an array type [N]*T (or of another pointer-shaped element)
	BadUTF8      bool // a string that is not valid UTF-8
	LaxUTF8      bool // a string that is not valid UTF-8 but has well-formed lead/continuation structure (overlong, surrogate, > U+10FFFF)
	BigValue     bool // big.Int/Float/Rat held by value
	Types        map[string]bool
	NonZeroLeaf  bool
	BoundaryLeaf bool
	Depth        int
}

func Describe(v reflect.Value) Features {
	f := Features{Types: map[string]bool{}}
	walk(v, &f, 0, map[uintptr]bool{})
	return f
}

func walk(v reflect.Value, f *Features, depth int, seen map[uintptr]bool) {
	if !v.IsValid() {
		return
	}
	if depth > f.Depth {
		f.Depth = depth
	}
	t := v.Type()
	switch t {
	case TTime:
		tm := readable(v).Interface().(time.Time)
		if tm.Location() != time.UTC && tm.Location() != time.Local {
			f.ThirdZone = true
		}
		cmpT := tm
		if tm.Location() != time.UTC {
			cmpT = tm.In(time.Local)
		}
		if y := tm.Year(); y < 0 || y > 9999 || cmpT.Year() < 0 || cmpT.Year() > 9999 {
			f.BadYear = true
		}
		if !tm.IsZero() {
			f.NonZeroLeaf = true
		}
		return
	case TBigFloat, TBigInt, TBigRat:
		f.BigValue = true
		f.NonZeroLeaf = true
		if t == TBigFloat {
			x := readable(v).Interface().(big.Float)
			bigFloatFeatures(&x, f)
		}
		return
	case TBigFloatP:
		if !v.IsNil() {
			bigFloatFeatures(readable(v).Interface().(*big.Float), f)
			f.NonZeroLeaf = true
		}
		return
	case TBigIntP, TBigRatP, TListPtr:
		if !v.IsNil() {
			f.NonZeroLeaf = true
		}
		if t == TListPtr && !v.IsNil() {
			// elements are interface values
		}
		if t != TListPtr {
			return
		}
	}
	switch t.Kind() {
	case reflect.Complex64, reflect.Complex128:
		if imag(v.Complex()) != 0 {
			f.ComplexIm = true
		}
		if v.Complex() != 0 {
			f.NonZeroLeaf = true
		}
	case reflect.String:
		if !validUTF8(v.String()) {
			f.BadUTF8 = true
			if StructurallyUTF8(v.String()) {
				f.LaxUTF8 = true
			}
		}
		if v.Len() > 0 {
			f.NonZeroLeaf = true
		}
		if v.Len() >= 255 {
			f.BoundaryLeaf = true
		}
	case reflect.Bool, reflect.Int, reflect.Int8, reflect.Int16, reflect.Int32, reflect.Int64, reflect.Uint, reflect.Uint8, reflect.Uint16,
		reflect.Uint32, reflect.Uint64, reflect.Uintptr, reflect.Float32, reflect.Float64:
		if !v.IsZero() {
			f.NonZeroLeaf = true
		}
	case reflect.Array:
		if k := t.Elem().Kind(); k == reflect.Ptr || k == reflect.Map || k == reflect.Chan || k == reflect.Func {
			if t.Len() == 1 {
				f.PtrArray = true
			}
		}
		for i := 0; i < v.Len(); i++ {
			walk(v.Index(i), f, depth+1, seen)
		}
	case reflect.Slice:
		if v.Len() > 0 && t.Elem().Kind() == reflect.Uint8 {
			f.NonZeroLeaf = true
		}
		for i := 0; i < v.Len(); i++ {
			walk(v.Index(i), f, depth+1, seen)
		}
	case reflect.Map:
		it := v.MapRange()
		for it.Next() {
			walk(it.Key(), f, depth+1, seen)
			walk(it.Value(), f, depth+1, seen)
		}
	case reflect.Ptr:
		if v.IsNil() {
			return
		}
		if t == TListPtr {
			l := readable(v).Interface()
			_ = l
			lv := v
			front := lv.MethodByName("Front").Call(nil)[0]
			for !front.IsNil() {
				walk(front.Elem().FieldByName("Value"), f, depth+1, seen)
				front = front.MethodByName("Next").Call(nil)[0]
			}
			return
		}
		if seen[v.Pointer()] {
			return
		}
		seen[v.Pointer()] = true
		walk(v.Elem(), f, depth+1, seen)
	case reflect.Interface:
		if !v.IsNil() {
			walk(v.Elem(), f, depth, seen)
		}
	case reflect.Struct:
		for _, fi := range Fields(t) {
			walk(fieldByIndex(v, fi.Index), f, depth+1, seen)
		}
	}
}

func bigFloatFeatures(x *big.Float, f *Features) {
	f.BigFloat = true
	if x.IsInf() {
		f.BigInf = true
	}
	if x.Prec() > 64 {
		f.BigPrec = true
	}
}

// TypeHas reports whether type t contains (at any depth, cutting recursion) a type satisfying pred.
func TypeHas(t reflect.Type, pred func(reflect.Type) bool) bool {
	return typeHas(t, pred, map[reflect.Type]bool{})
}

func typeHas(t reflect.Type, pred func(reflect.Type) bool, seen map[reflect.Type]bool) bool {
	if seen[t] {
		return false
	}
	seen[t] = true
	if pred(t) {
		return true
	}
	switch t.Kind() {
	case reflect.Ptr, reflect.Slice, reflect.Array:
		return typeHas(t.Elem(), pred, seen)
	case reflect.Map:
		return typeHas(t.Key(), pred, seen) || typeHas(t.Elem(), pred, seen)
	case reflect.Struct:
		if t == TTime || t == TBigInt || t == TBigFloat || t == TBigRat {
			return false
		}
		for i := 0; i < t.NumField(); i++ {
			if typeHas(t.Field(i).Type, pred, seen) {
				return true
			}
		}
	}
	return false
}

// StructurallyUTF8 reports whether s consists of lead bytes followed by the right number of
// continuation bytes, without checking for overlong forms, surrogates or values above U+10FFFF.
func StructurallyUTF8(s string) bool {
	c := 0
	for i := 0; i < len(s); i++ {
		a := s[i]
		if c == 0 {
			switch {
			case a&0xe0 == 0xc0:
				c = 1
			case a&0xf0 == 0xe0:
				c = 2
			case a&0xf8 == 0xf0:
				c = 3
			case a&0x80 == 0x80:
				return false
			}
		} else {
			if a&0xc0 != 0x80 {
				return false
			}
			c--
		}
	}
	return c == 0
}
