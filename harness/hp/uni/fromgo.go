package uni

import (
	"container/list"
	"math"
	"math/big"
	"reflect"
	"strings"
	"time"
	"unsafe"

	"github.com/google/uuid"
	"pgregory.net/rapid"
	"verif/hp/ref"
)

// FieldAlias applies the documented naming rule: the hprose tag, else the json tag
// (options after a comma dropped, blanks trimmed), "-" excludes the field, otherwise
// the Go name with its first ASCII letter lower-cased.
func FieldAlias(f reflect.StructField) (alias string, skip bool) {
	for _, tn := range []string{"hprose", "json"} {
		tag := f.Tag.Get(tn)
		if i := strings.Index(tag, ","); i >= 0 {
			tag = tag[:i]
		}
		tag = strings.Trim(tag, " ")
		if tag == "-" {
			return "", true
		}
		if tag != "" {
			return tag, false
		}
	}
	name := f.Name
	if name[0] >= 'A' && name[0] <= 'Z' {
		name = string(name[0]-'A'+'a') + name[1:]
	}
	return name, false
}

// FieldInfo is one serialized field of a struct type (embedded structs flattened).
type FieldInfo struct {
	Alias string
	Index []int
	Type  reflect.Type
}

// Fields lists the serialized fields of struct type t in wire order.
func Fields(t reflect.Type) []FieldInfo {
	var out []FieldInfo
	var walk func(t reflect.Type, prefix []int)
	walk = func(t reflect.Type, prefix []int) {
		for i := 0; i < t.NumField(); i++ {
			f := t.Field(i)
			idx := append(append([]int{}, prefix...), i)
			switch f.Type.Kind() {
			case reflect.Func, reflect.Chan, reflect.UnsafePointer:
				continue
			case reflect.Struct:
				if f.Anonymous {
					walk(f.Type, idx)
					continue
				}
			}
			if f.PkgPath != "" {
				continue
			}
			alias, skip := FieldAlias(f)
			if skip {
				continue
			}
			out = append(out, FieldInfo{alias, idx, f.Type})
		}
	}
	walk(t, nil)
	return out
}

// fieldByIndex reaches a (possibly promoted through an unexported embedded struct) field for reading.
func fieldByIndex(v reflect.Value, index []int) reflect.Value {
	for _, i := range index {
		v = v.Field(i)
	}
	return v
}

func settable(v reflect.Value) reflect.Value {
	if v.CanSet() {
		return v
	}
	return reflect.NewAt(v.Type(), unsafe.Pointer(v.UnsafeAddr())).Elem()
}

func fillUnexportedEmbedded(rt *rapid.T, fv reflect.Value, depth int, o Opts) {
	fv = settable(fv)
	t := fv.Type()
	for i := 0; i < t.NumField(); i++ {
		f := t.Field(i)
		if f.PkgPath != "" {
			continue
		}
		fill(rt, fv.Field(i), depth-1, o)
	}
}

func readable(v reflect.Value) reflect.Value {
	if v.CanInterface() {
		return v
	}
	if v.CanAddr() {
		return reflect.NewAt(v.Type(), unsafe.Pointer(v.UnsafeAddr())).Elem()
	}
	// copy into an addressable value
	c := reflect.New(v.Type()).Elem()
	return c
}

type fromCtx struct {
	memo map[unsafe.Pointer]*ref.Node
}

// FromGo maps a Go value to the neutral node it denotes on the wire.
func FromGo(v reflect.Value) *ref.Node {
	return (&fromCtx{memo: map[unsafe.Pointer]*ref.Node{}}).node(v)
}

func floatNode(f float64, is32 bool) *ref.Node {
	return &ref.Node{Kind: ref.Double, F: f, F32: is32}
}

// TimeNode is the denotation of a time: its wall clock in UTC if it is a UTC time,
// otherwise the wall clock of the same instant in the local zone.
func TimeNode(t time.Time) *ref.Node {
	utc := t.Location() == time.UTC
	if !utc {
		t = t.In(time.Local)
	}
	y, mo, d := t.Date()
	h, mi, s := t.Clock()
	return &ref.Node{Kind: ref.DateTime, T: ref.Time{Year: y, Month: int(mo), Day: d, Hour: h, Min: mi, Sec: s, Nsec: t.Nanosecond(), UTC: utc, HasDate: true, HasTime: true}}
}

func (c *fromCtx) node(v reflect.Value) *ref.Node {
	if !v.IsValid() {
		return &ref.Node{Kind: ref.Null}
	}
	t := v.Type()
	switch t {
	case TTime:
		return TimeNode(readable(v).Interface().(time.Time))
	case TUUID:
		u := readable(v).Interface().(uuid.UUID)
		return &ref.Node{Kind: ref.GUID, S: u.String()}
	case TBigInt:
		x := readable(v).Interface().(big.Int)
		return &ref.Node{Kind: ref.Int, I: new(big.Int).Set(&x)}
	case TBigFloat:
		x := readable(v).Interface().(big.Float)
		return bigFloatNode(&x)
	case TBigRat:
		x := readable(v).Interface().(big.Rat)
		return bigRatNode(&x)
	case TListPtr:
		l := readable(v).Interface().(*list.List)
		if l == nil {
			return &ref.Node{Kind: ref.Null}
		}
		if n, ok := c.memo[unsafe.Pointer(l)]; ok {
			return n
		}
		n := &ref.Node{Kind: ref.List}
		c.memo[unsafe.Pointer(l)] = n
		for e := l.Front(); e != nil; e = e.Next() {
			n.Elems = append(n.Elems, c.node(reflect.ValueOf(e.Value)))
		}
		return n
	}
	switch t.Kind() {
	case reflect.Bool:
		return &ref.Node{Kind: ref.Bool, B: v.Bool()}
	case reflect.Int, reflect.Int8, reflect.Int16, reflect.Int32, reflect.Int64:
		return &ref.Node{Kind: ref.Int, I: big.NewInt(v.Int())}
	case reflect.Uint, reflect.Uint8, reflect.Uint16, reflect.Uint32, reflect.Uint64, reflect.Uintptr:
		return &ref.Node{Kind: ref.Int, I: new(big.Int).SetUint64(v.Uint())}
	case reflect.Float32:
		return floatNode(v.Float(), true)
	case reflect.Float64:
		return floatNode(v.Float(), false)
	case reflect.Complex64, reflect.Complex128:
		is32 := t.Kind() == reflect.Complex64
		z := v.Complex()
		if imag(z) == 0 {
			return floatNode(real(z), is32)
		}
		return &ref.Node{Kind: ref.List, Elems: []*ref.Node{floatNode(real(z), is32), floatNode(imag(z), is32)}}
	case reflect.String:
		s := v.String()
		if !validUTF8(s) {
			return &ref.Node{Kind: ref.Bytes, Bs: []byte(s)}
		}
		return &ref.Node{Kind: ref.String, S: s}
	case reflect.Slice:
		if v.IsNil() {
			return &ref.Node{Kind: ref.Null}
		}
		if t.Elem().Kind() == reflect.Uint8 {
			b := make([]byte, v.Len())
			for i := range b {
				b[i] = byte(v.Index(i).Uint())
			}
			// a user-defined byte-slice type (type MyBytes []byte, []MyUint8) is not documented to
			// travel as a byte string: a list of integers is accepted as well
			return &ref.Node{Kind: ref.Bytes, Bs: b, Alt: t != tBytes}
		}
		n := &ref.Node{Kind: ref.List}
		for i := 0; i < v.Len(); i++ {
			n.Elems = append(n.Elems, c.node(v.Index(i)))
		}
		return n
	case reflect.Array:
		if t.Elem().Kind() == reflect.Uint8 {
			b := make([]byte, v.Len())
			for i := range b {
				b[i] = byte(v.Index(i).Uint())
			}
			return &ref.Node{Kind: ref.Bytes, Bs: b, Alt: t.Elem() != tBytes.Elem()}
		}
		n := &ref.Node{Kind: ref.List}
		for i := 0; i < v.Len(); i++ {
			n.Elems = append(n.Elems, c.node(v.Index(i)))
		}
		return n
	case reflect.Map:
		if v.IsNil() {
			return &ref.Node{Kind: ref.Null}
		}
		key := v.UnsafePointer()
		if n, ok := c.memo[key]; ok {
			return n
		}
		n := &ref.Node{Kind: ref.Map}
		c.memo[key] = n
		it := v.MapRange()
		for it.Next() {
			n.Elems = append(n.Elems, c.node(it.Key()), c.node(it.Value()))
		}
		return n
	case reflect.Ptr:
		if v.IsNil() {
			return &ref.Node{Kind: ref.Null}
		}
		switch t {
		case TBigIntP:
			return &ref.Node{Kind: ref.Int, I: new(big.Int).Set(readable(v).Interface().(*big.Int))}
		case TBigFloatP:
			return bigFloatNode(readable(v).Interface().(*big.Float))
		case TBigRatP:
			return bigRatNode(readable(v).Interface().(*big.Rat))
		}
		key := v.UnsafePointer()
		e := v.Elem()
		identity := t.Elem().Size() > 0 && (e.Kind() == reflect.Struct && e.Type() != TTime || e.Kind() == reflect.Array && e.Type() != TUUID || e.Kind() == reflect.Slice)
		if identity {
			if n, ok := c.memo[key]; ok {
				return n
			}
			// register before descending so that cycles resolve to the same node
			n := &ref.Node{}
			c.memo[key] = n
			*n = *c.node(e)
			return n
		}
		return c.node(e)
	case reflect.Interface:
		if v.IsNil() {
			return &ref.Node{Kind: ref.Null}
		}
		return c.node(v.Elem())
	case reflect.Struct:
		fields := Fields(t)
		if t.Name() == "" {
			n := &ref.Node{Kind: ref.Map}
			for _, f := range fields {
				n.Elems = append(n.Elems, &ref.Node{Kind: ref.String, S: f.Alias}, c.node(fieldByIndex(v, f.Index)))
			}
			return n
		}
		cls := &ref.Class{Name: ClassName(t)}
		n := &ref.Node{Kind: ref.Object, Class: cls}
		for _, f := range fields {
			cls.Fields = append(cls.Fields, f.Alias)
			n.Elems = append(n.Elems, c.node(fieldByIndex(v, f.Index)))
		}
		return n
	}
	return &ref.Node{Kind: ref.Null}
}

// ClassNames lets a check override the wire name of a struct type (RegisterName).
var ClassNames = map[reflect.Type]string{}

func ClassName(t reflect.Type) string {
	if n, ok := ClassNames[t]; ok {
		return n
	}
	return t.Name()
}

func bigFloatNode(x *big.Float) *ref.Node {
	if x.IsInf() {
		return &ref.Node{Kind: ref.Double, F: math.Inf(x.Sign()), Prec: x.Prec()}
	}
	f, _ := x.Float64()
	prec := x.Prec()
	if prec == 0 {
		prec = 53
	}
	return &ref.Node{Kind: ref.Double, F: f, BigF: new(big.Float).Copy(x), Prec: prec}
}

func bigRatNode(x *big.Rat) *ref.Node {
	if x.IsInt() {
		return &ref.Node{Kind: ref.Int, I: new(big.Int).Set(x.Num())}
	}
	return &ref.Node{Kind: ref.String, S: x.String()}
}
