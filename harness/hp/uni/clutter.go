package uni

import (
	"reflect"
	"time"

	"github.com/google/uuid"
)

// ClutterTypes are the kinds of reference-counted items that may precede a back-reference:
// every 2-D fast-path slice, 1-D slices of referable items, maps, structs, big numbers,
// times, uuids, lists and values that are written as lists or strings behind the scenes.
func ClutterTypes() []reflect.Type {
	var out []reflect.Type
	for _, t := range FastMapTypes {
		out = append(out, reflect.SliceOf(reflect.SliceOf(t)), reflect.SliceOf(t))
	}
	out = append(out,
		reflect.TypeOf([][][]byte(nil)), reflect.TypeOf([][]byte(nil)), reflect.TypeOf([]byte(nil)),
		reflect.TypeOf([][]time.Time(nil)), reflect.TypeOf([]time.Time(nil)), reflect.TypeOf([]uuid.UUID(nil)),
		reflect.TypeOf(map[string]string(nil)), reflect.TypeOf(map[string]interface{}(nil)), reflect.TypeOf(map[interface{}]interface{}(nil)),
		reflect.TypeOf(map[string][]string(nil)), reflect.TypeOf(map[int]string(nil)),
		reflect.TypeOf(struct {
			A string
			B []string
		}{}),
		reflect.TypeOf([]struct{ S string }(nil)),
		reflect.TypeOf(Plain{}), reflect.TypeOf([]Plain(nil)), reflect.TypeOf([]*Plain(nil)), reflect.TypeOf(Tagged{}), reflect.TypeOf(Embeds2{}),
		reflect.TypeOf(AllSlices{}), reflect.TypeOf(AllNamed{}), reflect.TypeOf(AllScalars{}), reflect.TypeOf(AllPtrs{}), reflect.TypeOf(WithTime{}), reflect.TypeOf(WithIface{}),
		reflect.TypeOf(Tree{}), reflect.TypeOf(Zero{}), reflect.TypeOf([]Zero(nil)), reflect.TypeOf(OnePtr{}), reflect.TypeOf(OneMap{}),
		TListPtr, TTime, TUUID, TBigIntP, TBigFloatP, TBigRatP, reflect.TypeOf([]*bigRatAlias(nil)),
		reflect.TypeOf(complex128(0)), reflect.TypeOf([]complex128(nil)), reflect.TypeOf([]complex64(nil)), reflect.TypeOf([][]complex128(nil)),
		reflect.TypeOf([2][]string{}), reflect.TypeOf([2][2]string{}), reflect.TypeOf([3]string{}), reflect.TypeOf(&[2]string{}),
		reflect.TypeOf(MyBytes(nil)), reflect.TypeOf(MyInts(nil)), reflect.TypeOf(MyStrMap(nil)), reflect.TypeOf([]MyString(nil)),
		reflect.TypeOf([]interface{}(nil)), reflect.TypeOf([][]interface{}(nil)), reflect.TypeOf([][][]interface{}(nil)), reflect.TypeOf([]map[string]string(nil)),
	)
	return out
}

type bigRatAlias = struct{ R interface{} }
