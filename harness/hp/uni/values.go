package uni

import (
	"container/list"
	"math"
	"math/big"
	"reflect"
	"strings"
	"time"

	"github.com/google/uuid"
	"pgregory.net/rapid"
)

// Zone3 is a fixed zone that is neither UTC nor Local.
var Zone3 = time.FixedZone("VZ3", 3*3600+30*60)

// Opts steer generation; the zero value generates everything.
type Opts struct {
	NoBadUTF8    bool // only valid UTF-8 strings
	NoLaxUTF8    bool // no strings that are invalid UTF-8 yet structurally well-formed (overlong, surrogates): open finding lax-utf8-string of C03
	NoThirdZone  bool // times only in UTC or Local
	NoBadYears   bool // years within 0..9999
	NoComplexIm  bool // complex values with zero imaginary part only
	NoBigPrec    bool // big.Float precision <= 53
	NoPtrArrays  bool
	NoNaN        bool
	JSONSafe     bool
	MaxLen       int // maximum container length (default 4)
	IfaceDynamic []reflect.Type
	NoRepeat     bool // do not bias towards repeating earlier strings / interface values
	NoNilIface   bool // interface{} positions are never nil (a typed-slice ListType setting turns nil elements into zero values)
	pool         *pool
	keyMode      bool // generating a map key: interface{} positions only get hashable scalars that stay distinct on the wire
}

// pool remembers values drawn earlier in the same case so that later positions can repeat
// them (repeated strings, byte strings, times and shared pointers are what reference mode
// turns into back-references).
type pool struct {
	strings []string
	ifaces  []reflect.Value
}

func (o Opts) maxLen() int {
	if o.MaxLen > 0 {
		return o.MaxLen
	}
	return 4
}

var intBounds = []int64{0, 1, -1, 9, 10, -9, -10, 127, 128, -128, -129, 255, 256, 32767, 32768, -32768, -32769, 65535, 65536,
	math.MaxInt32, math.MaxInt32 + 1, math.MinInt32, math.MinInt32 - 1, math.MaxUint32, math.MaxUint32 + 1, math.MaxInt64, math.MinInt64,
	1 << 53, 1<<53 + 1, 1 << 24, 1<<24 + 1, 999999999, 1000000000}

var uintBounds = []uint64{0, 1, 9, 10, 127, 128, 255, 256, 65535, 65536, math.MaxInt32, math.MaxInt32 + 1, math.MaxUint32, math.MaxUint32 + 1,
	math.MaxInt64, math.MaxInt64 + 1, math.MaxUint64, 1 << 53, 1<<53 + 1}

var floatBounds = []float64{0, math.Copysign(0, -1), 1, -1, 0.1, -0.1, 0.5, 1.5, 1e21, 1e-7, 123456789.125, math.MaxFloat64, -math.MaxFloat64,
	math.SmallestNonzeroFloat64, math.MaxFloat32, math.SmallestNonzeroFloat32, float64(float32(0.1)), 16777216, 16777217, 1e15, 1e16, 1e17,
	9007199254740993, 2147483648, -2147483649, 3.141592653589793, 2.718281828459045e-300, math.Inf(1), math.Inf(-1), math.NaN()}

var stringBounds = []string{"", "a", "ab", "0", "7", "12", "true", "-3.5", "你", "你好", "😀", "a😀", "😀b", "é", "\"", "a\"b", "{}", ";", "\x00", "\x7f",
	"\xff", "\xe4\xb8", "a\x80b", "\xf8\x88\x80\x80\x80", "\xc0\xaf", "\xed\xa0\x80", "\xf0\x9f\x98",
	// text cut in the middle of a character (what a byte-limited column or a Latin-1 source produces)
	"\xc3", "a\xc3", "abc\xc3", "STRA\xdf", "é\xc3", "你\xe4", "ab\xf0\x9f", "\xdf\xc3",
	strings.Repeat("x", 255), strings.Repeat("x", 256), strings.Repeat("x", 257), strings.Repeat("你", 86), strings.Repeat("😀", 64), strings.Repeat("ab😀", 200),
	"NaN", "+Inf", "1e5", "2008-11-23"}

func validUTF8(s string) bool { return strings.ToValidUTF8(s, "") == s }

func genInt(rt *rapid.T, bits int, o Opts) int64 {
	lo, hi := int64(math.MinInt64), int64(math.MaxInt64)
	if bits < 64 {
		lo, hi = -(1 << (bits - 1)), 1<<(bits-1)-1
	}
	if o.JSONSafe && bits == 64 {
		lo, hi = -(1 << 53), 1<<53
	}
	if rapid.IntRange(0, 2).Draw(rt, "ib") == 0 {
		for tries := 0; tries < 8; tries++ {
			v := rapid.SampledFrom(intBounds).Draw(rt, "ibound")
			if v >= lo && v <= hi {
				return v
			}
		}
	}
	return rapid.Int64Range(lo, hi).Draw(rt, "i")
}

func genUint(rt *rapid.T, bits int, o Opts) uint64 {
	hi := uint64(math.MaxUint64)
	if bits < 64 {
		hi = 1<<bits - 1
	}
	if o.JSONSafe && bits == 64 {
		hi = 1 << 53
	}
	if rapid.IntRange(0, 2).Draw(rt, "ub") == 0 {
		for tries := 0; tries < 8; tries++ {
			v := rapid.SampledFrom(uintBounds).Draw(rt, "ubound")
			if v <= hi {
				return v
			}
		}
	}
	return rapid.Uint64Range(0, hi).Draw(rt, "u")
}

func genFloat(rt *rapid.T, bits int, o Opts) float64 {
	var f float64
	if rapid.IntRange(0, 2).Draw(rt, "fb") == 0 {
		f = rapid.SampledFrom(floatBounds).Draw(rt, "fbound")
	} else if bits == 32 {
		f = float64(rapid.Float32().Draw(rt, "f32"))
	} else {
		f = rapid.Float64().Draw(rt, "f64")
	}
	if bits == 32 {
		f = float64(float32(f))
	}
	if (o.NoNaN || o.JSONSafe) && (math.IsNaN(f) || math.IsInf(f, 0)) {
		f = 1.25
	}
	return f
}

func genString(rt *rapid.T, o Opts) string {
	var s string
	switch rapid.IntRange(0, 3).Draw(rt, "sk") {
	case 0:
		s = rapid.SampledFrom(stringBounds).Draw(rt, "sbound")
	case 1:
		s = rapid.StringOfN(rapid.RuneFrom([]rune("ab01\"{};,你é😀 ")), 0, 12, -1).Draw(rt, "s")
	case 2:
		s = rapid.StringN(0, 40, -1).Draw(rt, "su")
	default:
		s = rapid.SampledFrom([]string{"alpha", "beta", "gamma", "k", "key", "值"}).Draw(rt, "sword")
	}
	if rapid.IntRange(0, 15).Draw(rt, "cut") == 0 {
		// cut in the middle of a multi-byte character
		r := rapid.SampledFrom([]string{"é", "ß", "你", "😀"}).Draw(rt, "cutChar")
		s += r[:rapid.IntRange(1, len(r)-1).Draw(rt, "cutAt")]
	}
	if (o.NoBadUTF8 || o.JSONSafe) && !validUTF8(s) {
		s = strings.ToValidUTF8(s, "?")
	}
	if o.NoLaxUTF8 && !validUTF8(s) && StructurallyUTF8(s) {
		s = "\xff" + s
	}
	return s
}

func genBytes(rt *rapid.T) []byte {
	switch rapid.IntRange(0, 4).Draw(rt, "bk") {
	case 0:
		return nil
	case 1:
		return []byte{}
	case 2:
		return []byte(rapid.SampledFrom([]string{"abc", "\"", "a\"b", "\x00\xff", "12", strings.Repeat("z", 256), strings.Repeat("\xfe", 300)}).Draw(rt, "bbound"))
	}
	return rapid.SliceOfN(rapid.Byte(), 0, 24).Draw(rt, "b")
}

var timeBounds = []time.Time{
	time.Date(1, 1, 1, 0, 0, 0, 0, time.UTC),
	time.Date(1969, 12, 31, 23, 59, 59, 999999999, time.UTC),
	time.Date(1970, 1, 1, 0, 0, 0, 0, time.UTC),
	time.Date(1970, 1, 1, 12, 34, 56, 0, time.UTC),
	time.Date(1970, 1, 1, 0, 0, 0, 1, time.UTC),
	time.Date(2020, 2, 29, 0, 0, 0, 0, time.UTC),
	time.Date(2020, 2, 22, 0, 0, 0, 1, time.UTC),
	time.Date(2008, 11, 23, 13, 14, 15, 123000000, time.UTC),
	time.Date(2008, 11, 23, 13, 14, 15, 123456000, time.UTC),
	time.Date(2008, 11, 23, 13, 14, 15, 123456789, time.UTC),
	time.Date(2008, 11, 23, 13, 14, 15, 1000, time.UTC),
	time.Date(2008, 11, 23, 13, 14, 15, 1000000, time.UTC),
	time.Date(9999, 12, 31, 23, 59, 59, 999999999, time.UTC),
	time.Date(0, 1, 1, 0, 0, 0, 0, time.UTC),
	time.Date(99, 3, 4, 5, 6, 7, 0, time.UTC),
}

func genTime(rt *rapid.T, o Opts) time.Time {
	var t time.Time
	switch rapid.IntRange(0, 2).Draw(rt, "tk") {
	case 0:
		t = rapid.SampledFrom(timeBounds).Draw(rt, "tbound")
	default:
		y := rapid.IntRange(1, 9999).Draw(rt, "year")
		if !o.NoBadYears && rapid.IntRange(0, 30).Draw(rt, "badyear") == 0 {
			y = rapid.SampledFrom([]int{-1, 10000, 12345, -400}).Draw(rt, "yearX")
		}
		ns := rapid.SampledFrom([]int{0, 0, 1, 1000, 1000000, 123000000, 123456000, 123456789, 999999999}).Draw(rt, "ns")
		h, mi, s := rapid.IntRange(0, 23).Draw(rt, "h"), rapid.IntRange(0, 59).Draw(rt, "mi"), rapid.IntRange(0, 59).Draw(rt, "s")
		if rapid.IntRange(0, 4).Draw(rt, "midnight") == 0 {
			h, mi, s = 0, 0, 0
		}
		t = time.Date(y, time.Month(rapid.IntRange(1, 12).Draw(rt, "mo")), rapid.IntRange(1, 28).Draw(rt, "d"), h, mi, s, ns, time.UTC)
	}
	zones := []*time.Location{time.UTC, time.Local, time.Local}
	if !o.NoThirdZone {
		zones = append(zones, Zone3)
	}
	z := rapid.SampledFrom(zones).Draw(rt, "zone")
	y, mo, d := t.Date()
	h, mi, s := t.Clock()
	return time.Date(y, mo, d, h, mi, s, t.Nanosecond(), z)
}

func genBigInt(rt *rapid.T) *big.Int {
	switch rapid.IntRange(0, 3).Draw(rt, "bik") {
	case 0:
		s := rapid.SampledFrom([]string{"0", "1", "-1", "9", "10", "2147483647", "2147483648", "-2147483649", "9223372036854775807", "9223372036854775808",
			"-9223372036854775809", "18446744073709551616", "1000000000000000000000000000000", "-123456789012345678901234567890"}).Draw(rt, "bibound")
		v, _ := new(big.Int).SetString(s, 10)
		return v
	default:
		v := new(big.Int).SetBytes(rapid.SliceOfN(rapid.Byte(), 0, 20).Draw(rt, "bi"))
		if rapid.Bool().Draw(rt, "bineg") {
			v.Neg(v)
		}
		return v
	}
}

func genBigFloat(rt *rapid.T, o Opts) *big.Float {
	precs := []uint{24, 53, 53, 64}
	if !o.NoBigPrec {
		precs = append(precs, 100, 200)
	}
	prec := rapid.SampledFrom(precs).Draw(rt, "bfprec")
	f := new(big.Float).SetPrec(prec)
	switch rapid.IntRange(0, 3).Draw(rt, "bfk") {
	case 0:
		s := rapid.SampledFrom([]string{"0", "1", "-1", "0.5", "1.5", "1e100", "-1e-100", "0.1", "123456789.123456789", "3.14159265358979323846264338327950288"}).Draw(rt, "bfbound")
		f.SetString(s)
	case 1:
		if !o.NoNaN && rapid.IntRange(0, 3).Draw(rt, "bfinf") == 0 {
			f.SetInf(rapid.Bool().Draw(rt, "bfsign"))
		} else {
			f.SetFloat64(genFloatFinite(rt))
		}
	default:
		f.SetFloat64(genFloatFinite(rt))
		f.Quo(f, new(big.Float).SetPrec(prec).SetInt64(3))
	}
	return f
}

func genFloatFinite(rt *rapid.T) float64 {
	f := rapid.Float64().Draw(rt, "ff")
	if math.IsNaN(f) || math.IsInf(f, 0) {
		return 2.5
	}
	return f
}

func genBigRat(rt *rapid.T) *big.Rat {
	a := rapid.Int64Range(-1000000, 1000000).Draw(rt, "ra")
	b := rapid.SampledFrom([]int64{1, 1, 2, 3, 7, 10, 1000, 9223372036854775807}).Draw(rt, "rb")
	return big.NewRat(a, b)
}

// DefaultDynamic are the dynamic types placed into interface{} positions.
var DefaultDynamic = []reflect.Type{
	tBool, tInt, reflect.TypeOf(int8(0)), reflect.TypeOf(int64(0)), reflect.TypeOf(uint8(0)), reflect.TypeOf(uint32(0)), reflect.TypeOf(uint64(0)),
	reflect.TypeOf(float32(0)), reflect.TypeOf(float64(0)), tString, tBytes, TTime, TUUID, TBigIntP, TBigRatP,
	reflect.TypeOf([]interface{}(nil)), reflect.TypeOf([]int(nil)), reflect.TypeOf([]string(nil)),
	reflect.TypeOf(map[string]interface{}(nil)), reflect.TypeOf(map[interface{}]interface{}(nil)), reflect.TypeOf(map[string]string(nil)),
	reflect.TypeOf(Plain{}), reflect.PtrTo(reflect.TypeOf(Plain{})), reflect.PtrTo(reflect.TypeOf(Inner{})), reflect.PtrTo(reflect.TypeOf(Tagged{})),
	TListPtr, reflect.TypeOf(complex128(0)), reflect.TypeOf(MyInt(0)), reflect.TypeOf(MyString("")),
}

// Gen draws a value of type t. depth bounds container nesting.
func Gen(rt *rapid.T, t reflect.Type, depth int, o Opts) reflect.Value {
	if o.pool == nil && !o.NoRepeat {
		o.pool = &pool{}
	}
	v := reflect.New(t).Elem()
	fill(rt, v, depth, o)
	return v
}

func fill(rt *rapid.T, v reflect.Value, depth int, o Opts) {
	t := v.Type()
	switch t {
	case TTime:
		v.Set(reflect.ValueOf(genTime(rt, o)))
		return
	case TUUID:
		if rapid.IntRange(0, 3).Draw(rt, "uuidnil") == 0 {
			return
		}
		var u uuid.UUID
		copy(u[:], rapid.SliceOfN(rapid.Byte(), 16, 16).Draw(rt, "uuid"))
		v.Set(reflect.ValueOf(u))
		return
	case TBigInt:
		v.Set(reflect.ValueOf(*genBigInt(rt)))
		return
	case TBigFloat:
		v.Set(reflect.ValueOf(*genBigFloat(rt, o)))
		return
	case TBigRat:
		v.Set(reflect.ValueOf(*genBigRat(rt)))
		return
	case TBigIntP:
		if rapid.IntRange(0, 5).Draw(rt, "nilp") != 0 {
			v.Set(reflect.ValueOf(genBigInt(rt)))
		}
		return
	case TBigFloatP:
		if rapid.IntRange(0, 5).Draw(rt, "nilp") != 0 {
			v.Set(reflect.ValueOf(genBigFloat(rt, o)))
		}
		return
	case TBigRatP:
		if rapid.IntRange(0, 5).Draw(rt, "nilp") != 0 {
			v.Set(reflect.ValueOf(genBigRat(rt)))
		}
		return
	case TListPtr:
		switch rapid.IntRange(0, 3).Draw(rt, "listk") {
		case 0:
			return
		default:
			l := list.New()
			n := 0
			if depth > 0 {
				n = rapid.IntRange(0, 3).Draw(rt, "listn")
			}
			for i := 0; i < n; i++ {
				e := Gen(rt, TIface, depth-1, o)
				l.PushBack(e.Interface())
			}
			v.Set(reflect.ValueOf(l))
		}
		return
	}
	switch t.Kind() {
	case reflect.Bool:
		v.SetBool(rapid.Bool().Draw(rt, "bool"))
	case reflect.Int, reflect.Int64:
		v.SetInt(genInt(rt, 64, o))
	case reflect.Int8:
		v.SetInt(genInt(rt, 8, o))
	case reflect.Int16:
		v.SetInt(genInt(rt, 16, o))
	case reflect.Int32:
		v.SetInt(genInt(rt, 32, o))
	case reflect.Uint, reflect.Uint64, reflect.Uintptr:
		v.SetUint(genUint(rt, 64, o))
	case reflect.Uint8:
		v.SetUint(genUint(rt, 8, o))
	case reflect.Uint16:
		v.SetUint(genUint(rt, 16, o))
	case reflect.Uint32:
		v.SetUint(genUint(rt, 32, o))
	case reflect.Float32:
		v.SetFloat(genFloat(rt, 32, o))
	case reflect.Float64:
		v.SetFloat(genFloat(rt, 64, o))
	case reflect.Complex64, reflect.Complex128:
		bits := 64
		if t.Kind() == reflect.Complex64 {
			bits = 32
		}
		re := genFloat(rt, bits, o)
		im := 0.0
		if !o.NoComplexIm && !o.JSONSafe && rapid.IntRange(0, 2).Draw(rt, "im") == 0 {
			im = genFloat(rt, bits, o)
		}
		v.SetComplex(complex(re, im))
	case reflect.String:
		if o.pool != nil && len(o.pool.strings) > 0 && rapid.IntRange(0, 3).Draw(rt, "srepeat") == 0 {
			v.SetString(rapid.SampledFrom(o.pool.strings).Draw(rt, "sprev"))
			return
		}
		sv := genString(rt, o)
		if o.pool != nil && len(sv) > 1 && len(o.pool.strings) < 8 {
			o.pool.strings = append(o.pool.strings, sv)
		}
		v.SetString(sv)
	case reflect.Slice:
		if t.Elem().Kind() == reflect.Uint8 {
			b := genBytes(rt)
			if b == nil {
				return
			}
			nv := reflect.MakeSlice(t, len(b), len(b))
			for i := range b {
				nv.Index(i).SetUint(uint64(b[i]))
			}
			v.Set(nv)
			return
		}
		k := rapid.IntRange(0, 5).Draw(rt, "slk")
		if k == 0 {
			return // nil
		}
		n := 0
		if depth > 0 && k > 1 {
			n = rapid.IntRange(1, o.maxLen()).Draw(rt, "sln")
			if k == 5 && isCheapElem(t.Elem()) {
				n = rapid.SampledFrom([]int{9, 10, 11, 40}).Draw(rt, "slbig")
			}
		}
		nv := reflect.MakeSlice(t, n, n)
		for i := 0; i < n; i++ {
			fill(rt, nv.Index(i), depth-1, o)
		}
		v.Set(nv)
	case reflect.Array:
		for i := 0; i < t.Len(); i++ {
			fill(rt, v.Index(i), depth-1, o)
		}
	case reflect.Map:
		k := rapid.IntRange(0, 4).Draw(rt, "mk")
		if k == 0 {
			return
		}
		nv := reflect.MakeMap(t)
		n := 0
		if depth > 0 && k > 1 {
			n = rapid.IntRange(1, o.maxLen()).Draw(rt, "mn")
		}
		for i := 0; i < n; i++ {
			key := reflect.New(t.Key()).Elem()
			if t.Key() == TIface {
				kt := rapid.SampledFrom([]reflect.Type{tInt, tString, tBool, reflect.TypeOf(float64(0))}).Draw(rt, "ikt")
				ko := o
				ko.NoBadUTF8 = true // an invalid UTF-8 string travels as bytes, and bytes cannot be a Go map key
				kv := Gen(rt, kt, 0, ko)
				if kt.Kind() == reflect.Float64 {
					f := kv.Float()
					if math.IsNaN(f) || f == math.Trunc(f) {
						kv.SetFloat(0.5 + float64(i))
					}
				}
				key.Set(kv)
			} else {
				ko := o
				ko.NoNaN = true
				ko.keyMode = true
				ko.NoBadUTF8 = ko.NoBadUTF8 || TypeHas(t.Key(), func(x reflect.Type) bool { return x == TIface })
				fill(rt, key, 0, ko)
			}
			val := reflect.New(t.Elem()).Elem()
			fill(rt, val, depth-1, o)
			nv.SetMapIndex(key, val)
		}
		v.Set(nv)
	case reflect.Ptr:
		if rapid.IntRange(0, 4).Draw(rt, "nilp") == 0 {
			return
		}
		if depth <= 0 && isRecursive(t.Elem()) {
			return
		}
		p := reflect.New(t.Elem())
		fill(rt, p.Elem(), depth-1, o)
		v.Set(p)
	case reflect.Interface:
		if t != TIface {
			return
		}
		if !o.NoNilIface && rapid.IntRange(0, 6).Draw(rt, "niliface") == 0 {
			return
		}
		if o.keyMode {
			kt := rapid.SampledFrom([]reflect.Type{tInt, tString, tBool}).Draw(rt, "ikt2")
			ko := o
			ko.pool = nil
			v.Set(Gen(rt, kt, 0, ko))
			return
		}
		if o.pool != nil && len(o.pool.ifaces) > 0 && rapid.IntRange(0, 3).Draw(rt, "irepeat") == 0 {
			v.Set(rapid.SampledFrom(o.pool.ifaces).Draw(rt, "iprev"))
			return
		}
		dyn := o.IfaceDynamic
		if dyn == nil {
			dyn = DefaultDynamic
		}
		var dt reflect.Type
		for tries := 0; ; tries++ {
			dt = rapid.SampledFrom(dyn).Draw(rt, "dyn")
			if depth > 0 || !isContainer(dt) || tries > 6 {
				break
			}
		}
		if depth <= 0 && isContainer(dt) {
			dt = tBool
			for _, cand := range dyn {
				if !isContainer(cand) {
					dt = cand
					break
				}
			}
		}
		dv := Gen(rt, dt, depth-1, o)
		if (dt.Kind() == reflect.Ptr || dt.Kind() == reflect.Map || dt.Kind() == reflect.Slice) && dv.IsNil() {
			return // a typed nil inside an interface is written as null and comes back as nil interface
		}
		if o.pool != nil && len(o.pool.ifaces) < 6 {
			o.pool.ifaces = append(o.pool.ifaces, dv)
		}
		v.Set(dv)
	case reflect.Struct:
		for i := 0; i < t.NumField(); i++ {
			f := t.Field(i)
			if f.PkgPath != "" && !f.Anonymous {
				continue
			}
			if f.Anonymous && f.PkgPath != "" {
				// embedded struct of an unexported type: its exported fields are promoted;
				// reflect cannot set through it, use unsafe-free route: skip (stays zero) unless addressable
				fv := v.Field(i)
				if fv.Kind() == reflect.Struct && fv.CanAddr() {
					fillUnexportedEmbedded(rt, fv, depth, o)
				}
				continue
			}
			switch f.Type.Kind() {
			case reflect.Func, reflect.Chan, reflect.UnsafePointer:
				continue
			}
			if alias, skip := FieldAlias(f); skip || alias == "" {
				continue
			}
			fill(rt, v.Field(i), depth-1, o)
		}
	}
}

func isCheapElem(t reflect.Type) bool {
	switch t.Kind() {
	case reflect.Struct, reflect.Map, reflect.Slice, reflect.Ptr, reflect.Interface, reflect.Array:
		return false
	}
	return true
}

func isContainer(t reflect.Type) bool {
	switch t.Kind() {
	case reflect.Slice:
		return t.Elem().Kind() != reflect.Uint8
	case reflect.Map, reflect.Array, reflect.Struct:
		return t != TTime && t != TUUID
	case reflect.Ptr:
		return isContainer(t.Elem())
	}
	return false
}

func isRecursive(t reflect.Type) bool {
	switch t {
	case reflect.TypeOf(Rec{}), reflect.TypeOf(Tree{}), reflect.TypeOf(MutA{}), reflect.TypeOf(MutB{}):
		return true
	}
	return false
}
