// Package svc is a catalogue of service functions covering the signature shapes of the RPC
// properties, each with a local invocation path (the differential oracle) and a recorder.
package svc

import (
	"context"
	"errors"
	"fmt"
	"math/big"
	"reflect"
	"strings"
	"sync"
	"time"

	"github.com/google/uuid"
	"verif/hp/uni"
)

// Fn describes one published function.
type Fn struct {
	Name string
	F    interface{}
	// In are the wire parameters (the context parameter, if any, excluded).
	In       []reflect.Type
	Out      []reflect.Type // results without the trailing error
	Variadic bool
	Ctx      bool
	Err      bool
}

// Recorder notes every invocation of a catalogue function.
type Recorder struct {
	mu    sync.Mutex
	Calls []Call
}

type Call struct {
	Name string
	Args []interface{}
}

func (r *Recorder) note(name string, args ...interface{}) {
	r.mu.Lock()
	r.Calls = append(r.Calls, Call{name, args})
	r.mu.Unlock()
}

func (r *Recorder) Take() []Call {
	r.mu.Lock()
	defer r.mu.Unlock()
	c := r.Calls
	r.Calls = nil
	return c
}

// Rec is the process-wide recorder.
var Rec = &Recorder{}

// ErrTrigger / PanicTrigger: a string argument equal to these makes a function fail.
const ErrTrigger = "!error:"
const PanicTrigger = "!panic:"

func maybeFail(s string) error {
	if strings.HasPrefix(s, ErrTrigger) {
		return errors.New(strings.TrimPrefix(s, ErrTrigger))
	}
	if strings.HasPrefix(s, PanicTrigger) {
		panic(strings.TrimPrefix(s, PanicTrigger))
	}
	return nil
}

func NoArgs() { Rec.note("noargs") }

func Hello(name string) (string, error) {
	Rec.note("hello", name)
	if err := maybeFail(name); err != nil {
		return "", err
	}
	return "hello " + name, nil
}

func Add(a, b int) int { Rec.note("add", a, b); return a + b }

func Scalars(a int8, b uint32, c float64, d string, e []byte, f bool, g float32, h int64, i uint64) (string, int64) {
	Rec.note("scalars", a, b, c, d, e, f, g, h, i)
	return fmt.Sprintf("%d|%d|%v|%s|%x|%v|%v|%d|%d", a, b, c, d, e, f, g, h, i), int64(a) + h
}

func Structs(p uni.Plain, q *uni.Plain, r []uni.Plain, m map[string]uni.Plain) (uni.Plain, *uni.Plain, int) {
	Rec.note("structs", p, q, r, m)
	n := len(r) + len(m)
	return p, q, n
}

func Ptrs(a *int, b *string, c **float64) (*int, *string) { Rec.note("ptrs", a, b, c); return a, b }

func Slices(a []int, b []string, c [][]byte, d []interface{}, e []float64) ([]string, []int) {
	Rec.note("slices", a, b, c, d, e)
	return b, a
}

func Maps(a map[string]int, b map[string]interface{}, c map[int]string) (map[string]int, int) {
	Rec.note("maps", a, b, c)
	return a, len(b) + len(c)
}

func Echo(x interface{}) interface{} { Rec.note("echo", x); return x }

func Join(prefix string, parts ...string) (string, error) {
	Rec.note("join", append([]interface{}{prefix}, toIfaces(parts)...)...)
	if err := maybeFail(prefix); err != nil {
		return "", err
	}
	return prefix + strings.Join(parts, ","), nil
}

func toIfaces(s []string) []interface{} {
	out := make([]interface{}, len(s))
	for i, x := range s {
		out[i] = x
	}
	return out
}

func Sum(nums ...int) int {
	args := make([]interface{}, len(nums))
	t := 0
	for i, n := range nums {
		args[i] = n
		t += n
	}
	Rec.note("sum", args...)
	return t
}

func Any(rest ...interface{}) int { Rec.note("any", rest...); return len(rest) }

func WithCtx(ctx context.Context, a int, s string) (string, error) {
	Rec.note("withctx", a, s)
	if ctx == nil {
		return "", errors.New("no context")
	}
	if err := maybeFail(s); err != nil {
		return "", err
	}
	return fmt.Sprintf("%d:%s", a, s), nil
}

func Special(t time.Time, u uuid.UUID, bi *big.Int, ts []time.Time) (time.Time, uuid.UUID, *big.Int) {
	Rec.note("special", t, u, bi, ts)
	return t, u, bi
}

func Multi(n int) (int, string, []int, error) {
	Rec.note("multi", n)
	if n < 0 {
		return 0, "", nil, fmt.Errorf("negative %d", n)
	}
	return n, fmt.Sprint(n), []int{n, n}, nil
}

func Repeat(s string) (string, string, string) { Rec.note("repeat", s); return s, s + s, s }

func Tree(t uni.Tree) uni.Tree { Rec.note("tree", t); return t }

func Nothing(s string) { Rec.note("nothing", s); _ = maybeFail(s) }

func OnlyErr(s string) error { Rec.note("onlyerr", s); return maybeFail(s) }

func CtxAny(ctx context.Context, tag string, v interface{}) string {
	Rec.note("ctxany", tag, v)
	return fmt.Sprintf("%s:%v:%v", tag, v == nil, ctx != nil)
}

func CtxVar(ctx context.Context, n int, rest ...interface{}) int {
	Rec.note("ctxvar", append([]interface{}{n}, rest...)...)
	nils := 0
	for _, r := range rest {
		if r == nil {
			nils++
		}
	}
	return n*100 + len(rest)*10 + nils
}

func CtxMap(ctx context.Context, m map[string]int, v interface{}, p *int) int {
	Rec.note("ctxmap", m, v, p)
	k := len(m)
	if v == nil {
		k += 1000
	}
	if p == nil {
		k += 10000
	}
	return k
}

var errType = reflect.TypeOf((*error)(nil)).Elem()
var ctxType = reflect.TypeOf((*context.Context)(nil)).Elem()

// DivError is a concrete error type: a function declared to return *DivError hands back a typed nil
// pointer when it succeeds.
type DivError struct{ Msg string }

func (e *DivError) Error() string { return e.Msg }

func Div(a, b int) (int, *DivError) {
	Rec.note("div", a, b)
	if b == 0 {
		return 0, &DivError{fmt.Sprintf("division of %d by zero", a)}
	}
	return a / b, nil
}

func Positive(x int) *DivError {
	Rec.note("positive", x)
	if x <= 0 {
		return &DivError{fmt.Sprintf("%d is not positive", x)}
	}
	return nil
}

// Functions whose argument values can make them fail with a run-time error (index out of range, division
// by zero, nil dereference) rather than with a panic of their own.
func Index(list []int, i int) int { Rec.note("index", list, i); return list[i] }
func Quot(a, b int) int           { Rec.note("quot", a, b); return a / b }
func Deref(p *int) int            { Rec.note("deref", p); return *p }

func mk(name string, f interface{}) Fn {
	t := reflect.TypeOf(f)
	fn := Fn{Name: name, F: f, Variadic: t.IsVariadic()}
	for i := 0; i < t.NumIn(); i++ {
		if i == 0 && t.In(i) == ctxType {
			fn.Ctx = true
			continue
		}
		fn.In = append(fn.In, t.In(i))
	}
	for i := 0; i < t.NumOut(); i++ {
		if i == t.NumOut()-1 && t.Out(i).Implements(errType) {
			fn.Err = true
			continue
		}
		fn.Out = append(fn.Out, t.Out(i))
	}
	return fn
}

// Catalogue is the list of published functions (name as registered, any case on the wire).
var Catalogue = []Fn{
	mk("noArgs", NoArgs), mk("hello", Hello), mk("add", Add), mk("Scalars", Scalars), mk("structs", Structs), mk("ptrs", Ptrs), mk("slices", Slices),
	mk("maps", Maps), mk("echo", Echo), mk("join", Join), mk("sum", Sum), mk("any", Any), mk("withCtx", WithCtx), mk("special", Special), mk("multi", Multi),
	mk("repeat", Repeat), mk("tree", Tree), mk("nothing", Nothing), mk("onlyErr", OnlyErr), mk("名字", Hello), mk("ns_hello", Hello),
	mk("ctxAny", CtxAny), mk("ctxVar", CtxVar), mk("ctxMap", CtxMap),
	// the last result is a concrete error type (a typed nil pointer on success)
	mk("div", Div), mk("positive", Positive),
	mk("index", Index), mk("quot", Quot), mk("deref", Deref),
	// names whose cased letters are not ASCII: lookup is case-insensitive for them too
	mk("привет", Hello), mk("Ärger_ölçüm", Add),
}

// Local invokes the function locally with the given wire arguments. It returns the results (without
// the error), the error, and a recovered panic value.
func (f Fn) Local(args []reflect.Value) (out []reflect.Value, err error, panicked interface{}) {
	defer func() {
		if e := recover(); e != nil {
			panicked = e
		}
	}()
	in := args
	if f.Ctx {
		in = append([]reflect.Value{reflect.ValueOf(context.Background())}, args...)
	}
	res := reflect.ValueOf(f.F).Call(in)
	if f.Err {
		if e := res[len(res)-1]; !e.IsNil() {
			err = e.Interface().(error)
		}
		res = res[:len(res)-1]
	}
	return res, err, nil
}
