// Package peer is a scripted server-side peer for the multiplexed transports: it speaks the frame
// format itself (package wire), hands every received request to the script and sends whatever the
// script says, in whatever order.
package peer

import (
	"errors"
	"fmt"
	"io"
	"net"
	"net/http"
	"os"
	"path/filepath"
	"strings"
	"sync"
	"sync/atomic"
	"time"

	"github.com/fasthttp/websocket"
	"verif/hp/wire"
)

var Kinds = []string{"tcp", "unix", "udp", "ws"}

type Frame struct {
	Index int
	Body  []byte
	Err   bool
	Conn  int // sequence number of the connection it arrived on (0 for udp)
}

type link interface {
	send(f Frame) error
	raw(b []byte) error
	close()
	reset()
	closeRead()
}

type Peer struct {
	Kind  string
	URL   string
	In    chan Frame
	mu    sync.Mutex
	cur   link
	conns int32
	stop  func()
	// OnConnect, if set, is called with the sequence number of every accepted connection.
	OnConnect func(n int)
	closed    int32
	paused    int32
}

// Pause makes the peer stop reading from its connections (the sender's writes eventually block);
// Resume undoes it.
func (p *Peer) Pause()  { atomic.StoreInt32(&p.paused, 1) }
func (p *Peer) Resume() { atomic.StoreInt32(&p.paused, 0) }

func (p *Peer) waitWhilePaused() {
	for atomic.LoadInt32(&p.paused) == 1 && atomic.LoadInt32(&p.closed) == 0 {
		time.Sleep(time.Millisecond)
	}
}

var seq int64

func sockDir() string {
	d := os.Getenv("VERIF_OUT")
	if d == "" || len(d) > 60 {
		d = os.TempDir()
	}
	return d
}

func (p *Peer) setCur(l link) int {
	n := int(atomic.AddInt32(&p.conns, 1))
	p.mu.Lock()
	p.cur = l
	p.mu.Unlock()
	if p.OnConnect != nil {
		p.OnConnect(n)
	}
	return n
}

// Connections returns how many connections were accepted so far.
func (p *Peer) Connections() int { return int(atomic.LoadInt32(&p.conns)) }

func (p *Peer) link() link {
	p.mu.Lock()
	defer p.mu.Unlock()
	return p.cur
}

var ErrNoConn = errors.New("peer: no connection yet")

// Send a response frame on the current connection.
func (p *Peer) Send(f Frame) error {
	l := p.link()
	if l == nil {
		return ErrNoConn
	}
	return l.send(f)
}

// Raw sends raw bytes (a raw datagram / a raw binary message for udp / ws).
func (p *Peer) Raw(b []byte) error {
	l := p.link()
	if l == nil {
		return ErrNoConn
	}
	return l.raw(b)
}

// Drop closes the current connection (orderly); Reset aborts it (RST where the transport has one).
func (p *Peer) Drop() {
	if l := p.link(); l != nil {
		l.close()
	}
}

func (p *Peer) Reset() {
	if l := p.link(); l != nil {
		l.reset()
	}
}

// CloseRead shuts down the receiving side of the current connection and keeps the connection open (stream
// sockets only): on a unix socket the sender's next write fails while its reads just see nothing.
func (p *Peer) CloseRead() {
	if l := p.link(); l != nil {
		l.closeRead()
	}
}

// Recv waits for the next request frame.
func (p *Peer) Recv(timeout time.Duration) (Frame, error) {
	select {
	case f := <-p.In:
		return f, nil
	case <-time.After(timeout):
		return Frame{}, fmt.Errorf("peer: no request within %v", timeout)
	}
}

// RecvN collects n request frames.
func (p *Peer) RecvN(n int, timeout time.Duration) ([]Frame, error) {
	var out []Frame
	deadline := time.Now().Add(timeout)
	for len(out) < n {
		f, err := p.Recv(time.Until(deadline))
		if err != nil {
			return out, fmt.Errorf("peer: %d of %d requests arrived within %v", len(out), n, timeout)
		}
		out = append(out, f)
	}
	return out, nil
}

func (p *Peer) Close() {
	if atomic.CompareAndSwapInt32(&p.closed, 0, 1) {
		p.stop()
		if l := p.link(); l != nil {
			l.close()
		}
	}
}

func (p *Peer) push(f Frame) {
	select {
	case p.In <- f:
	default:
		// the script is not reading: drop rather than block the reader
	}
}

// ---- stream sockets

type streamLink struct {
	c        net.Conn
	mu       sync.Mutex
	keepOpen int32
}

func (l *streamLink) closeRead() {
	atomic.StoreInt32(&l.keepOpen, 1)
	if c, ok := l.c.(interface{ CloseRead() error }); ok {
		c.CloseRead()
	}
}

func (l *streamLink) send(f Frame) error { return l.raw(wire.SocketFrame(f.Index, f.Body, f.Err)) }
func (l *streamLink) raw(b []byte) error {
	l.mu.Lock()
	defer l.mu.Unlock()
	_, err := l.c.Write(b)
	return err
}
func (l *streamLink) close() { l.c.Close() }
func (l *streamLink) reset() {
	if t, ok := l.c.(*net.TCPConn); ok {
		t.SetLinger(0)
	}
	l.c.Close()
}

func (p *Peer) serveStream(ln net.Listener) {
	for {
		c, err := ln.Accept()
		if err != nil {
			return
		}
		l := &streamLink{c: c}
		n := p.setCur(l)
		go func() {
			defer func() {
				if atomic.LoadInt32(&l.keepOpen) == 0 {
					c.Close()
				}
			}()
			for {
				p.waitWhilePaused()
				h := make([]byte, 12)
				if _, err := io.ReadFull(c, h); err != nil {
					return
				}
				length, index, errFlag, ok := wire.ParseSocketHeader(h)
				if !ok {
					return
				}
				body := make([]byte, length)
				if _, err := io.ReadFull(c, body); err != nil {
					return
				}
				p.push(Frame{Index: index, Body: body, Err: errFlag, Conn: n})
			}
		}()
	}
}

// ---- udp

type udpLink struct {
	c    *net.UDPConn
	addr *net.UDPAddr
}

func (l *udpLink) send(f Frame) error { return l.raw(wire.UDPFrame(f.Index, f.Body, f.Err)) }
func (l *udpLink) raw(b []byte) error {
	_, err := l.c.WriteToUDP(b, l.addr)
	return err
}
func (l *udpLink) close()     {}
func (l *udpLink) reset()     {}
func (l *udpLink) closeRead() {}

func (p *Peer) serveUDP(c *net.UDPConn) {
	buf := make([]byte, 65536)
	var last string
	for {
		n, addr, err := c.ReadFromUDP(buf)
		if err != nil {
			return
		}
		if addr.String() != last {
			last = addr.String()
			p.setCur(&udpLink{c: c, addr: addr})
		}
		if n < 8 {
			continue
		}
		length, index, errFlag, ok := wire.ParseUDPHeader(buf[:8])
		if !ok || length != n-8 {
			continue
		}
		p.push(Frame{Index: index, Body: append([]byte(nil), buf[8:n]...), Err: errFlag, Conn: p.Connections()})
	}
}

// ---- websocket

type wsLink struct {
	c  *websocket.Conn
	mu sync.Mutex
}

func (l *wsLink) send(f Frame) error { return l.raw(wire.WSFrame(f.Index, f.Body, f.Err)) }
func (l *wsLink) raw(b []byte) error {
	l.mu.Lock()
	defer l.mu.Unlock()
	return l.c.WriteMessage(websocket.BinaryMessage, b)
}

// Text sends a text message (ignored by a conforming client).
func (l *wsLink) text(b []byte) error {
	l.mu.Lock()
	defer l.mu.Unlock()
	return l.c.WriteMessage(websocket.TextMessage, b)
}
func (l *wsLink) close()     { l.c.Close() }
func (l *wsLink) closeRead() {}
func (l *wsLink) reset() {
	if t, ok := l.c.UnderlyingConn().(*net.TCPConn); ok {
		t.SetLinger(0)
	}
	l.c.Close()
}

func (p *Peer) wsHandler(w http.ResponseWriter, r *http.Request) {
	up := websocket.Upgrader{Subprotocols: []string{"hprose"}, CheckOrigin: func(*http.Request) bool { return true }}
	c, err := up.Upgrade(w, r, nil)
	if err != nil {
		return
	}
	l := &wsLink{c: c}
	n := p.setCur(l)
	defer c.Close()
	for {
		p.waitWhilePaused()
		mt, msg, err := c.ReadMessage()
		if err != nil {
			return
		}
		if mt != websocket.BinaryMessage || len(msg) < 4 {
			continue
		}
		index, errFlag := wire.ParseWSHeader(msg[:4])
		p.push(Frame{Index: index, Body: append([]byte(nil), msg[4:]...), Err: errFlag, Conn: n})
	}
}

// CloseFrame performs the websocket closing handshake from the peer's side with the given status code
// (no-op on other kinds): a close frame is sent, then the connection is closed.
func (p *Peer) CloseFrame(code int) {
	if l, ok := p.link().(*wsLink); ok {
		l.mu.Lock()
		l.c.WriteControl(websocket.CloseMessage, websocket.FormatCloseMessage(code, "bye"), time.Now().Add(time.Second))
		l.mu.Unlock()
		time.Sleep(2 * time.Millisecond)
		l.c.Close()
	}
}

// Text sends a websocket text message on the current connection (no-op elsewhere).
func (p *Peer) Text(b []byte) error {
	if l, ok := p.link().(*wsLink); ok {
		return l.text(b)
	}
	return nil
}

// Start a scripted peer of the given kind. Binding is retried for a while when the machine has run out
// of free ports (many shards opening thousands of short-lived connections).
func Start(kind string) (p *Peer, err error) {
	for try := 0; try < 40; try++ {
		if p, err = start(kind); err == nil || !ResourceError(err) {
			return
		}
		time.Sleep(250 * time.Millisecond)
	}
	return
}

// ResourceError reports whether err says that the machine has no free port or descriptor left.
func ResourceError(err error) bool {
	if err == nil {
		return false
	}
	m := err.Error()
	for _, s := range []string{"address already in use", "cannot assign requested address", "too many open files", "no buffer space available"} {
		if strings.Contains(m, s) {
			return true
		}
	}
	return false
}

func start(kind string) (*Peer, error) {
	p := &Peer{Kind: kind, In: make(chan Frame, 1<<16)}
	n := atomic.AddInt64(&seq, 1)
	switch kind {
	case "tcp":
		ln, err := net.Listen("tcp", "127.0.0.1:0")
		if err != nil {
			return nil, err
		}
		p.URL, p.stop = "tcp://"+ln.Addr().String(), func() { ln.Close() }
		go p.serveStream(ln)
	case "unix":
		path := filepath.Join(sockDir(), fmt.Sprintf("peer-%d-%d.sock", os.Getpid(), n))
		os.Remove(path)
		ln, err := net.Listen("unix", path)
		if err != nil {
			return nil, err
		}
		p.URL, p.stop = "unix://"+path, func() { ln.Close(); os.Remove(path) }
		go p.serveStream(ln)
	case "udp":
		c, err := net.ListenUDP("udp", &net.UDPAddr{IP: net.IPv4(127, 0, 0, 1)})
		if err != nil {
			return nil, err
		}
		p.URL, p.stop = "udp://"+c.LocalAddr().String(), func() { c.Close() }
		go p.serveUDP(c)
	case "ws":
		ln, err := net.Listen("tcp", "127.0.0.1:0")
		if err != nil {
			return nil, err
		}
		srv := &http.Server{Handler: http.HandlerFunc(p.wsHandler)}
		p.URL, p.stop = "ws://"+ln.Addr().String()+"/", func() { srv.Close() }
		go srv.Serve(ln)
	default:
		return nil, fmt.Errorf("peer: unknown kind %q", kind)
	}
	return p, nil
}
