// Package wire is an independent statement of the three frame formats of the multiplexed transports,
// written from the protocol (big-endian fields, CRC-32/IEEE over the bytes after the checksum), used
// by scripted peers and by the byte-level checks.
package wire

import (
	"encoding/binary"
	"hash/crc32"
)

// Socket frame: crc32(4) | length(4, top bit always set) | index(4, top bit = error response) | body.
func SocketHeader(length, index int, errFlag bool) []byte {
	h := make([]byte, 12)
	binary.BigEndian.PutUint32(h[4:], uint32(length)|0x80000000)
	idx := uint32(index) & 0x7fffffff
	if errFlag {
		idx |= 0x80000000
	}
	binary.BigEndian.PutUint32(h[8:], idx)
	binary.BigEndian.PutUint32(h[0:], crc32.ChecksumIEEE(h[4:]))
	return h
}

func ParseSocketHeader(h []byte) (length, index int, errFlag, crcOK bool) {
	crcOK = binary.BigEndian.Uint32(h[0:]) == crc32.ChecksumIEEE(h[4:12])
	length = int(binary.BigEndian.Uint32(h[4:]) & 0x7fffffff)
	idx := binary.BigEndian.Uint32(h[8:])
	return length, int(idx & 0x7fffffff), idx&0x80000000 != 0, crcOK
}

func SocketFrame(index int, body []byte, errFlag bool) []byte {
	return append(SocketHeader(len(body), index, errFlag), body...)
}

// UDP datagram: crc32(4) | length(2) | index(2, top bit = error response) | body.
func UDPHeader(length, index int, errFlag bool) []byte {
	h := make([]byte, 8)
	binary.BigEndian.PutUint16(h[4:], uint16(length))
	idx := uint16(index) & 0x7fff
	if errFlag {
		idx |= 0x8000
	}
	binary.BigEndian.PutUint16(h[6:], idx)
	binary.BigEndian.PutUint32(h[0:], crc32.ChecksumIEEE(h[4:]))
	return h
}

func ParseUDPHeader(h []byte) (length, index int, errFlag, crcOK bool) {
	crcOK = binary.BigEndian.Uint32(h[0:]) == crc32.ChecksumIEEE(h[4:8])
	length = int(binary.BigEndian.Uint16(h[4:]))
	idx := binary.BigEndian.Uint16(h[6:])
	return length, int(idx & 0x7fff), idx&0x8000 != 0, crcOK
}

func UDPFrame(index int, body []byte, errFlag bool) []byte {
	return append(UDPHeader(len(body), index, errFlag), body...)
}

// WebSocket binary message: index(4, top bit = error response) | body.
func WSHeader(index int, errFlag bool) []byte {
	h := make([]byte, 4)
	idx := uint32(index) & 0x7fffffff
	if errFlag {
		idx |= 0x80000000
	}
	binary.BigEndian.PutUint32(h, idx)
	return h
}

func ParseWSHeader(h []byte) (index int, errFlag bool) {
	idx := binary.BigEndian.Uint32(h)
	return int(idx & 0x7fffffff), idx&0x80000000 != 0
}

func WSFrame(index int, body []byte, errFlag bool) []byte {
	return append(WSHeader(index, errFlag), body...)
}
