package c06

import (
	"reflect"
	"time"

	"fmt"
	"github.com/google/uuid"
	"math"
	"math/big"
	"strconv"
	"strings"
	"verif/hp/uni"

	"verif/hp/ref"
)

// Token is one well-formed value on the wire together with what it denotes.
type Token struct {
	Wire  string
	Class string // spelling class, for evidence
	Node  *ref.Node
	// OwnForm says whether this is the spelling the library's own encoder would emit for the value.
	OwnForm bool
}

// templates: tokens containing a back-reference, as a format with one %d for the reference index
// relative to the number of referable items the surrounding wrapper adds (reference mode only).
var templates = map[string]string{"list-with-string-ref": `a2{s2"ab"r%d;}`}

// At returns the wire form when `before` referable items precede the token.
func (t Token) At(before int) string {
	if tm, ok := templates[t.Class]; ok {
		return fmt.Sprintf(tm, 1+before)
	}
	return t.Wire
}

func intNode(v *big.Int) *ref.Node { return &ref.Node{Kind: ref.Int, I: v} }

func strNode(s string) *ref.Node { return &ref.Node{Kind: ref.String, S: s} }

func sTok(s string) string {
	n := ref.UTF16Len(s)
	if n == 0 {
		return `s""`
	}
	return fmt.Sprintf(`s%d"%s"`, n, s)
}

// IntTokens: every spelling of the integer v.
func IntTokens(v *big.Int) []Token {
	var out []Token
	n := intNode(v)
	s := v.String()
	if v.Sign() >= 0 && v.Cmp(big.NewInt(9)) <= 0 {
		out = append(out, Token{s, "int-digit", n, true})
	}
	fits32 := v.Cmp(big.NewInt(math.MinInt32)) >= 0 && v.Cmp(big.NewInt(math.MaxInt32)) <= 0
	if fits32 {
		out = append(out, Token{"i" + s + ";", "int-i", n, !(v.Sign() >= 0 && v.Cmp(big.NewInt(9)) <= 0)})
	}
	out = append(out, Token{"l" + s + ";", "int-l", n, !fits32})
	return out
}

// DoubleTokens: spellings of a finite double given by its decimal text(s).
func DoubleTokens(texts ...string) []Token {
	var out []Token
	for i, t := range texts {
		f, _ := strconv.ParseFloat(t, 64)
		bf, _, _ := big.ParseFloat(t, 10, 1024, big.ToNearestEven)
		out = append(out, Token{"d" + t + ";", "double", &ref.Node{Kind: ref.Double, F: f, FText: t, BigF: bf}, i == 0})
	}
	return out
}

func SpecialDoubles() []Token {
	return []Token{
		{"N", "nan", &ref.Node{Kind: ref.Double, F: math.NaN()}, true},
		{"I+", "inf", &ref.Node{Kind: ref.Double, F: math.Inf(1)}, true},
		{"I-", "inf", &ref.Node{Kind: ref.Double, F: math.Inf(-1)}, true},
	}
}

// StringTokens: every spelling of the string s (valid UTF-8).
func StringTokens(s string) []Token {
	n := strNode(s)
	units := ref.UTF16Len(s)
	var out []Token
	switch units {
	case 0:
		out = append(out, Token{"e", "string-empty-e", n, true}, Token{`s""`, "string-empty-s", n, false})
	case 1:
		out = append(out, Token{"u" + s, "string-char-u", n, true}, Token{sTok(s), "string-char-s", n, false})
	default:
		out = append(out, Token{sTok(s), "string-s", n, true})
	}
	return out
}

func BytesTokens(b []byte) []Token {
	n := &ref.Node{Kind: ref.Bytes, Bs: b}
	if len(b) == 0 {
		return []Token{{`b""`, "bytes-empty", n, true}}
	}
	return []Token{{fmt.Sprintf(`b%d"%s"`, len(b), b), "bytes", n, true}}
}

func SimpleTokens() []Token {
	return []Token{
		{"t", "true", &ref.Node{Kind: ref.Bool, B: true}, true},
		{"f", "false", &ref.Node{Kind: ref.Bool, B: false}, true},
		{"n", "null", &ref.Node{Kind: ref.Null}, true},
	}
}

func GUIDTokens() []Token {
	g := "3f257da1-0b85-48d6-8f5c-6cd13d2d60c9"
	return []Token{
		{"g{" + g + "}", "guid", &ref.Node{Kind: ref.GUID, S: g}, true},
		{"g{" + strings.ToUpper(g) + "}", "guid-upper", &ref.Node{Kind: ref.GUID, S: g}, false},
		{sTok(g), "guid-as-string", strNode(g), false},
	}
}

// TimeTokens: the date/time forms.
func TimeTokens() []Token {
	mk := func(wire, class string, t ref.Time, own bool) Token {
		return Token{wire, class, &ref.Node{Kind: ref.DateTime, T: t}, own}
	}
	return []Token{
		mk("D20081123Z", "date-utc", ref.Time{Year: 2008, Month: 11, Day: 23, UTC: true, HasDate: true}, true),
		mk("D20081123;", "date-local", ref.Time{Year: 2008, Month: 11, Day: 23, HasDate: true}, true),
		mk("T131415Z", "time-utc", ref.Time{Hour: 13, Min: 14, Sec: 15, UTC: true, HasTime: true}, true),
		mk("T131415.123;", "time-ms-local", ref.Time{Hour: 13, Min: 14, Sec: 15, Nsec: 123000000, HasTime: true}, true),
		mk("D20081123T131415Z", "datetime-utc", ref.Time{Year: 2008, Month: 11, Day: 23, Hour: 13, Min: 14, Sec: 15, UTC: true, HasDate: true, HasTime: true}, true),
		mk("D20081123T131415.123456;", "datetime-us-local", ref.Time{Year: 2008, Month: 11, Day: 23, Hour: 13, Min: 14, Sec: 15, Nsec: 123456000, HasDate: true, HasTime: true}, true),
		mk("D20081123T131415.123456789Z", "datetime-ns-utc", ref.Time{Year: 2008, Month: 11, Day: 23, Hour: 13, Min: 14, Sec: 15, Nsec: 123456789, UTC: true, HasDate: true, HasTime: true}, true),
		mk("D20081123T000000Z", "datetime-midnight-long", ref.Time{Year: 2008, Month: 11, Day: 23, UTC: true, HasDate: true, HasTime: true}, false),
		mk("D19700101T131415Z", "datetime-epochday-long", ref.Time{Year: 1970, Month: 1, Day: 1, Hour: 13, Min: 14, Sec: 15, UTC: true, HasDate: true, HasTime: true}, false),
		mk("T131415.100000;", "time-us-trailing-zeros", ref.Time{Hour: 13, Min: 14, Sec: 15, Nsec: 100000000, HasTime: true}, false),
	}
}

// ContainerTokens: lists and maps in several spellings.
func ContainerTokens() []Token {
	i := func(n int64) *ref.Node { return intNode(big.NewInt(n)) }
	list := func(e ...*ref.Node) *ref.Node { return &ref.Node{Kind: ref.List, Elems: e} }
	mp := func(e ...*ref.Node) *ref.Node { return &ref.Node{Kind: ref.Map, Elems: e} }
	return []Token{
		{"a{}", "list-empty", list(), true},
		{"a3{123}", "list-digits", list(i(1), i(2), i(3)), true},
		{"a3{i1;l2;d3;}", "list-mixed-number-forms", list(i(1), i(2), DoubleTokens("3")[0].Node), false},
		{`a2{s2"ab"r1;}`, "list-with-string-ref", list(strNode("ab"), strNode("ab")), true},
		{`a3{uas1"b"e}`, "list-strings-mixed-forms", list(strNode("a"), strNode("b"), strNode("")), false},
		{"m{}", "map-empty", mp(), true},
		{`m2{s1"a"1s1"b"2}`, "map-string-int-longkeys", mp(strNode("a"), i(1), strNode("b"), i(2)), false},
		{`m2{ua1ub2}`, "map-string-int", mp(strNode("a"), i(1), strNode("b"), i(2)), true},
		{`m2{1ua2ub}`, "map-int-string", mp(i(1), strNode("a"), i(2), strNode("b")), true},
		{`a2{a1{1}a{}}`, "list-nested", list(list(i(1)), list()), true},
	}
}

var IntBoundaries = []string{"0", "1", "9", "10", "-1", "-9", "127", "128", "-128", "-129", "255", "256", "32767", "32768", "-32768", "-32769", "65535", "65536",
	"2147483647", "2147483648", "-2147483648", "-2147483649", "4294967295", "4294967296", "9223372036854775807", "9223372036854775808",
	"-9223372036854775808", "-9223372036854775809", "18446744073709551615", "18446744073709551616", "16777216", "16777217", "9007199254740992", "9007199254740993", "300", "-300", "1000000000000000000000000"}

func AllScalarTokens() []Token {
	var out []Token
	for _, s := range IntBoundaries {
		v, _ := new(big.Int).SetString(s, 10)
		out = append(out, IntTokens(v)...)
	}
	out = append(out, DoubleTokens("1.5", "1.50", "15e-1")...)
	out = append(out, DoubleTokens("3", "3.0", "3e0", "0.3e1")...)
	out = append(out, DoubleTokens("-0.1")...)
	out = append(out, DoubleTokens("300")...)
	out = append(out, DoubleTokens("-1")...)
	out = append(out, DoubleTokens("1e10")...)
	out = append(out, DoubleTokens("1e19")...)
	out = append(out, DoubleTokens("1e39")...)
	out = append(out, DoubleTokens("0.1")...)
	out = append(out, DoubleTokens("16777217")...)
	out = append(out, DoubleTokens("-0")...)
	out = append(out, DoubleTokens("2.5e-320")...)
	out = append(out, SpecialDoubles()...)
	for _, s := range []string{"", "a", "7", "你", "ab", "12", "-5", "300", "1.5", "true", "false", "😀", "a😀", "1/3", "9223372036854775808", "1e3", " 12", "0x10", "+7", "NaN", "2008-11-23", "3f257da1-0b85-48d6-8f5c-6cd13d2d60c9", "007", "-0"} {
		out = append(out, StringTokens(s)...)
	}
	out = append(out, BytesTokens(nil)...)
	out = append(out, BytesTokens([]byte("abc"))...)
	out = append(out, BytesTokens([]byte("12"))...)
	out = append(out, BytesTokens([]byte{0xff, 0x00, '"'})...)
	out = append(out, SimpleTokens()...)
	out = append(out, GUIDTokens()...)
	out = append(out, TimeTokens()...)
	out = append(out, ContainerTokens()...)
	return out
}

// Dests are the destination types of the token matrix (also used by the streaming comparison of C05).
var Dests = []reflect.Type{
	reflect.TypeOf(false), reflect.TypeOf(int(0)), reflect.TypeOf(int8(0)), reflect.TypeOf(int16(0)), reflect.TypeOf(int32(0)), reflect.TypeOf(int64(0)),
	reflect.TypeOf(uint(0)), reflect.TypeOf(uint8(0)), reflect.TypeOf(uint16(0)), reflect.TypeOf(uint32(0)), reflect.TypeOf(uint64(0)), reflect.TypeOf(uintptr(0)),
	reflect.TypeOf(float32(0)), reflect.TypeOf(float64(0)), reflect.TypeOf(""),
	reflect.TypeOf(uni.MyInt8(0)), reflect.TypeOf(uni.MyUint16(0)), reflect.TypeOf(uni.MyInt64(0)), reflect.TypeOf(uni.MyFloat32(0)), reflect.TypeOf(uni.MyString("")), reflect.TypeOf(uni.MyBool(false)),
	reflect.TypeOf((*int8)(nil)), reflect.TypeOf((*uint32)(nil)), reflect.TypeOf((*int64)(nil)), reflect.TypeOf((*float64)(nil)), reflect.TypeOf((*string)(nil)), reflect.TypeOf((*bool)(nil)),
	uni.TBigIntP, uni.TBigFloatP, uni.TBigRatP,
	reflect.TypeOf([]byte(nil)), uni.TTime, reflect.TypeOf((*time.Time)(nil)), uni.TUUID, uni.TIface,
	reflect.TypeOf([]int(nil)), reflect.TypeOf([]int8(nil)), reflect.TypeOf([]string(nil)), reflect.TypeOf([]interface{}(nil)), reflect.TypeOf([]float64(nil)),
	reflect.TypeOf([3]int{}), reflect.TypeOf(map[string]int(nil)), reflect.TypeOf(map[string]interface{}(nil)), reflect.TypeOf(map[int]string(nil)),
	reflect.TypeOf(map[interface{}]interface{}(nil)), reflect.TypeOf(uni.Plain{}), reflect.TypeOf((*uni.Plain)(nil)), uni.TListPtr,
	// byte arrays and UUID slices: no value oracle (padding / truncation is not settled), but position independence,
	// reference accounting and (below) streaming independence apply
	reflect.TypeOf([4]byte{}), reflect.TypeOf([16]byte{}), reflect.TypeOf([]uuid.UUID(nil)), reflect.TypeOf(uni.MyBytes(nil)),
}
