// C06 — the decoder accepts every well-formed stream and converts losslessly across types.
package c06

import (
	"container/list"
	"fmt"
	"math"
	"math/big"
	"os"
	"reflect"
	"regexp"
	"strconv"
	"strings"
	"testing"
	"time"
	"unicode/utf8"

	"github.com/google/uuid"
	hio "github.com/hprose/hprose-golang/v3/io"
	"verif/hp/ev"
	"verif/hp/ref"
	"verif/hp/uni"
)

func TestMain(m *testing.M) {
	time.Local = time.FixedZone("VERIF", 8*3600)
	for _, st := range uni.Structs {
		hio.Register(reflect.New(st).Interface())
	}
	ev.Main(m, "C06")
}

var dests = Dests

type verdict int

const (
	unknown verdict = iota
	exact
	reject
)

func intRange(t reflect.Type) (lo, hi *big.Int, ok bool) {
	bits := 0
	signed := false
	switch t.Kind() {
	case reflect.Int, reflect.Int64:
		bits, signed = 64, true
	case reflect.Int8:
		bits, signed = 8, true
	case reflect.Int16:
		bits, signed = 16, true
	case reflect.Int32:
		bits, signed = 32, true
	case reflect.Uint, reflect.Uint64, reflect.Uintptr:
		bits = 64
	case reflect.Uint8:
		bits = 8
	case reflect.Uint16:
		bits = 16
	case reflect.Uint32:
		bits = 32
	default:
		return nil, nil, false
	}
	one := big.NewInt(1)
	if signed {
		hi = new(big.Int).Sub(new(big.Int).Lsh(one, uint(bits-1)), one)
		lo = new(big.Int).Neg(new(big.Int).Lsh(one, uint(bits-1)))
	} else {
		lo = big.NewInt(0)
		hi = new(big.Int).Sub(new(big.Int).Lsh(one, uint(bits)), one)
	}
	return lo, hi, true
}

func isContainer(t reflect.Type) bool {
	switch t.Kind() {
	case reflect.Slice:
		return t.Elem().Kind() != reflect.Uint8
	case reflect.Array:
		return t != uni.TUUID && t.Elem().Kind() != reflect.Uint8
	case reflect.Map:
		return true
	case reflect.Struct:
		return t != uni.TTime
	case reflect.Ptr:
		return t == uni.TListPtr || (t.Elem().Kind() == reflect.Struct && t.Elem() != uni.TTime && t != uni.TBigIntP && t != uni.TBigFloatP && t != uni.TBigRatP)
	}
	return false
}

func floatNode(f float64, is32 bool) *ref.Node { return &ref.Node{Kind: ref.Double, F: f, F32: is32} }

func intInRange(v *big.Int, t reflect.Type) (verdict, *ref.Node) {
	lo, hi, _ := intRange(t)
	if v.Cmp(lo) >= 0 && v.Cmp(hi) <= 0 {
		return exact, intNode(v)
	}
	return reject, nil
}

// expect is the expectation table, written from the statement: what a destination of type t must
// hold after decoding a token that denotes n — or that an error is required — or "unknown" where
// the statement does not settle the conversion (then only position independence is asserted).
func expect(n *ref.Node, t reflect.Type) (verdict, *ref.Node) {
	if t.Kind() == reflect.Ptr && t != uni.TBigIntP && t != uni.TBigFloatP && t != uni.TBigRatP && t != uni.TListPtr {
		if n.Kind == ref.Null {
			return exact, n
		}
		return expect(n, t.Elem())
	}
	if t == uni.TIface {
		switch n.Kind {
		case ref.Int:
			if n.I.IsInt64() {
				return exact, n
			}
			return reject, nil // the default LongType is int
		case ref.Map, ref.List, ref.Object:
			return unknown, nil // handled by dedicated sub-checks
		}
		return exact, n
	}
	if _, _, isInt := intRange(t); isInt {
		switch n.Kind {
		case ref.Int:
			return intInRange(n.I, t)
		case ref.Double:
			if math.IsNaN(n.F) || math.IsInf(n.F, 0) {
				return reject, nil
			}
			if n.BigF != nil && n.BigF.IsInt() {
				v, _ := n.BigF.Int(nil)
				return intInRange(v, t)
			}
			return reject, nil // a fraction cannot be represented
		case ref.String:
			if n.S == "" || strings.HasPrefix(n.S, "+") || n.S == "-0" {
				return unknown, nil // the empty string is deliberately read as zero; a leading plus / minus zero is not settled
			}
			v, ok := new(big.Int).SetString(n.S, 10)
			if !ok || strings.TrimLeft(n.S, "-0123456789") != "" {
				return reject, nil
			}
			return intInRange(v, t)
		case ref.List, ref.Map, ref.Object, ref.GUID:
			return reject, nil
		}
		return unknown, nil
	}
	switch t.Kind() {
	case reflect.Float32, reflect.Float64:
		is32 := t.Kind() == reflect.Float32
		switch n.Kind {
		case ref.Int:
			f, _ := new(big.Float).SetInt(n.I).Float64()
			if is32 {
				f = float64(float32(f))
			}
			if bf := new(big.Float).SetFloat64(f); !math.IsInf(f, 0) && bf.IsInt() {
				if v, _ := bf.Int(nil); v.Cmp(n.I) == 0 {
					return exact, floatNode(f, is32)
				}
			}
			return unknown, nil
		case ref.Double:
			if n.FText == "" {
				return exact, floatNode(n.F, is32)
			}
			bits := 64
			if is32 {
				bits = 32
			}
			f, err := strconv.ParseFloat(n.FText, bits)
			if err != nil {
				return unknown, nil
			}
			return exact, floatNode(f, is32)
		case ref.String:
			bits := 64
			if is32 {
				bits = 32
			}
			if n.S == "" || strings.TrimLeft(n.S, "+-0123456789.eE") != "" {
				if _, err := strconv.ParseFloat(n.S, bits); err != nil && n.S != "" && !strings.HasPrefix(n.S, "0x") {
					return reject, nil
				}
				return unknown, nil // "", NaN, Inf, hex: not settled by the statement
			}
			f, err := strconv.ParseFloat(n.S, bits)
			if err != nil {
				return reject, nil
			}
			return exact, floatNode(f, is32)
		case ref.List, ref.Map, ref.Object, ref.GUID:
			return reject, nil
		}
		return unknown, nil
	case reflect.Bool:
		switch n.Kind {
		case ref.Bool:
			return exact, n
		case ref.List, ref.Map, ref.Object:
			return reject, nil
		}
		return unknown, nil
	case reflect.String:
		switch n.Kind {
		case ref.String:
			return exact, n
		case ref.Int:
			return exact, strNode(n.I.String())
		case ref.Bytes:
			if utf8.Valid(n.Bs) {
				return exact, strNode(string(n.Bs))
			}
			return exact, n
		case ref.Map, ref.Object:
			return reject, nil
		}
		return unknown, nil
	}
	switch t {
	case uni.TBigIntP:
		switch n.Kind {
		case ref.Null:
			return exact, n
		case ref.Int:
			return exact, n
		case ref.Double:
			if n.BigF != nil && n.BigF.IsInt() {
				v, _ := n.BigF.Int(nil)
				return exact, intNode(v)
			}
			return reject, nil
		case ref.String:
			if n.S == "" {
				return unknown, nil
			}
			if v, ok := new(big.Int).SetString(n.S, 10); ok && strings.TrimLeft(n.S, "+-0123456789") == "" {
				return exact, intNode(v)
			}
			return reject, nil
		case ref.List, ref.Map, ref.Object:
			return reject, nil
		}
		return unknown, nil
	case uni.TBigFloatP:
		switch n.Kind {
		case ref.Null:
			return exact, n
		case ref.Int:
			return exact, &ref.Node{Kind: ref.Double, F: 0, BigF: new(big.Float).SetPrec(1024).SetInt(n.I), FText: n.I.String()}
		case ref.Double:
			if math.IsNaN(n.F) {
				return reject, nil
			}
			return exact, n
		case ref.String:
			if n.S == "" || strings.HasPrefix(n.S, "0x") {
				return unknown, nil
			}
			if bf, _, err := big.ParseFloat(n.S, 10, 1024, big.ToNearestEven); err == nil {
				return exact, &ref.Node{Kind: ref.Double, BigF: bf, FText: n.S, F: func() float64 { f, _ := bf.Float64(); return f }()}
			}
			return reject, nil
		case ref.List, ref.Map, ref.Object:
			return reject, nil
		}
		return unknown, nil
	case uni.TBigRatP:
		switch n.Kind {
		case ref.Null, ref.Int:
			return exact, n
		case ref.String:
			if r, ok := new(big.Rat).SetString(n.S); ok && !strings.ContainsAny(n.S, "eE.") {
				if r.IsInt() {
					return exact, intNode(r.Num())
				}
				return exact, strNode(r.String())
			}
			return unknown, nil
		case ref.List, ref.Map, ref.Object:
			return reject, nil
		}
		return unknown, nil
	case uni.TTime:
		switch n.Kind {
		case ref.DateTime:
			return exact, n
		case ref.List, ref.Map, ref.Object:
			return reject, nil
		}
		return unknown, nil
	case uni.TUUID:
		switch n.Kind {
		case ref.GUID:
			return exact, n
		case ref.String:
			if u, err := uuid.Parse(n.S); err == nil && len(n.S) == 36 {
				return exact, &ref.Node{Kind: ref.GUID, S: u.String()}
			}
			return unknown, nil
		case ref.List, ref.Map, ref.Object, ref.Int, ref.Double, ref.Bool, ref.DateTime:
			return reject, nil
		}
		return unknown, nil
	}
	if t.Kind() == reflect.Slice && t.Elem().Kind() == reflect.Uint8 {
		switch n.Kind {
		case ref.Bytes, ref.Null:
			return exact, n
		case ref.Map, ref.Object:
			return reject, nil
		}
		return unknown, nil
	}
	if isContainer(t) {
		switch n.Kind {
		case ref.Int, ref.Double, ref.Bool, ref.GUID, ref.DateTime:
			return reject, nil
		case ref.String:
			if n.S != "" && (t.Kind() == reflect.Slice || t.Kind() == reflect.Array || t.Kind() == reflect.Map) {
				return reject, nil
			}
			return unknown, nil
		case ref.Null:
			if t.Kind() == reflect.Slice || t.Kind() == reflect.Map || t.Kind() == reflect.Ptr {
				return exact, n
			}
			return unknown, nil
		case ref.List:
			if t.Kind() == reflect.Slice {
				out := &ref.Node{Kind: ref.List}
				for _, e := range n.Elems {
					v, en := expect(e, t.Elem())
					if v != exact {
						return v, nil
					}
					out.Elems = append(out.Elems, en)
				}
				return exact, out
			}
			return unknown, nil
		case ref.Map:
			if t.Kind() == reflect.Map {
				out := &ref.Node{Kind: ref.Map}
				for i := 0; i+1 < len(n.Elems); i += 2 {
					kv, kn := expect(n.Elems[i], t.Key())
					vv, vn := expect(n.Elems[i+1], t.Elem())
					if kv != exact || vv != exact {
						if kv == reject || vv == reject {
							return reject, nil
						}
						return unknown, nil
					}
					out.Elems = append(out.Elems, kn, vn)
				}
				return exact, out
			}
			return unknown, nil
		}
	}
	return unknown, nil
}

// ---------------------------------------------------------------- positions

type position struct {
	name    string
	before  int // referable items the wrapper puts in front of the token
	typ     func(t reflect.Type) reflect.Type
	wrap    func(tok string) string
	extract func(v reflect.Value) (reflect.Value, bool)
}

func sf(t reflect.Type) reflect.Type {
	return reflect.StructOf([]reflect.StructField{{Name: "F", Type: t}})
}

var positions = []position{
	{"top", 0, func(t reflect.Type) reflect.Type { return t }, func(s string) string { return s }, func(v reflect.Value) (reflect.Value, bool) { return v, true }},
	{"*T", 0, func(t reflect.Type) reflect.Type { return reflect.PtrTo(t) }, func(s string) string { return s }, func(v reflect.Value) (reflect.Value, bool) {
		if v.IsNil() {
			return reflect.Zero(v.Type().Elem()), false
		}
		return v.Elem(), true
	}},
	{"slice-elem", 1, func(t reflect.Type) reflect.Type { return reflect.SliceOf(t) }, func(s string) string { return "a1{" + s + "}" }, func(v reflect.Value) (reflect.Value, bool) {
		if v.Len() != 1 {
			return reflect.Value{}, false
		}
		return v.Index(0), true
	}},
	{"array-elem", 1, func(t reflect.Type) reflect.Type { return reflect.ArrayOf(1, t) }, func(s string) string { return "a1{" + s + "}" }, func(v reflect.Value) (reflect.Value, bool) { return v.Index(0), true }},
	{"map-value", 1, func(t reflect.Type) reflect.Type { return reflect.MapOf(reflect.TypeOf(""), t) }, func(s string) string { return `m1{uk` + s + "}" }, func(v reflect.Value) (reflect.Value, bool) {
		e := v.MapIndex(reflect.ValueOf("k"))
		return e, e.IsValid()
	}},
	{"struct-field", 1, func(t reflect.Type) reflect.Type { return sf(t) }, func(s string) string { return `m1{uf` + s + "}" }, func(v reflect.Value) (reflect.Value, bool) { return v.Field(0), true }},
	{"ptr-field", 1, func(t reflect.Type) reflect.Type { return sf(reflect.PtrTo(t)) }, func(s string) string { return `m1{uf` + s + "}" }, func(v reflect.Value) (reflect.Value, bool) {
		f := v.Field(0)
		if f.IsNil() {
			return reflect.Zero(f.Type().Elem()), false
		}
		return f.Elem(), true
	}},
}

type outcome struct {
	panicked string
	err      error
	val      reflect.Value
	valid    bool
}

func decodeInto(wire string, t reflect.Type, simple bool) (o outcome) {
	p := reflect.New(t)
	func() {
		defer func() {
			if e := recover(); e != nil {
				o.panicked = fmt.Sprint(e)
			}
		}()
		dec := hio.NewDecoder([]byte(wire)).Simple(simple)
		dec.Decode(p.Interface())
		o.err = dec.Error
	}()
	o.val = p.Elem()
	return
}

func sig(o outcome, ex func(reflect.Value) (reflect.Value, bool)) string {
	if o.panicked != "" || o.err != nil {
		return "rejected"
	}
	v, ok := ex(o.val)
	if !ok {
		return "absent(nil)"
	}
	s := ""
	func() {
		defer func() {
			if e := recover(); e != nil {
				s = "unprintable"
			}
		}()
		s = uni.FromGo(v).String()
	}()
	return "value " + s
}

type finding struct {
	key   string
	match func(tok Token, t reflect.Type, problem string) bool
}

func isIntDest(t reflect.Type) bool {
	for t.Kind() == reflect.Ptr && t != uni.TBigIntP {
		t = t.Elem()
	}
	_, _, ok := intRange(t)
	return ok
}

const silent = "yet decoding reported no error"

var findings = []finding{
	// a double token whose integral value needs more than 64 bits AND a *big.Int destination got the value of its 64-bit approximation
	{"bigfloat-precision", func(tok Token, t reflect.Type, problem string) bool {
		if tok.Node.Kind != ref.Double || tok.Node.BigF == nil || t != uni.TBigIntP || !strings.HasPrefix(problem, "wrong value") {
			return false
		}
		r := new(big.Float).SetPrec(64).SetMode(big.ToNearestEven).Set(tok.Node.BigF)
		return r.Cmp(tok.Node.BigF) != 0
	}},
	// an integer token outside the range of an integer destination (or of the default int of an interface{}) AND it was accepted silently
	{"int-out-of-range-wraps", func(tok Token, t reflect.Type, problem string) bool {
		return tok.Node.Kind == ref.Int && (isIntDest(t) || t == uni.TIface || t.Kind() == reflect.Ptr && t.Elem() == uni.TIface) && strings.Contains(problem, silent)
	}},
	// a double token that is fractional, out of range, NaN or infinite AND an integer (or *big.Int) destination accepted it silently
	{"double-to-int-truncates", func(tok Token, t reflect.Type, problem string) bool {
		return tok.Node.Kind == ref.Double && (isIntDest(t) || t == uni.TBigIntP) && strings.Contains(problem, silent)
	}},
}

func classify(tok Token, t reflect.Type, problem string) string {
	for _, k := range findings {
		if ev.S.Known(k.key) && k.match(tok, t, problem) {
			return k.key
		}
	}
	return ""
}

func checkToken(tb interface{ Fatalf(string, ...interface{}) }, sub, test string, tok Token, t reflect.Type, simple bool) {
	v, want := expect(tok.Node, t)
	canon := fmt.Sprintf("token=%q (%s) dest=%s simple=%v", tok.Wire, tok.Class, t, simple)
	ev.S.Begin(sub, canon)
	var problem string
	if _, hasRef := templates[tok.Class]; hasRef && simple {
		return // a back-reference is not part of a simple-mode stream
	}
	top := decodeInto(tok.At(0), t, simple)
	topSig := sig(top, positions[0].extract)
	switch v {
	case exact:
		switch {
		case top.panicked != "":
			problem = "decoder panicked on a well-formed stream: " + top.panicked
		case top.err != nil:
			problem = fmt.Sprintf("well-formed token whose value %s the destination can hold exactly was rejected: %v", want, top.err)
		default:
			got := uni.FromGo(top.val)
			if !ref.EqualOpt(want, got, ref.Options{NilIsEmpty: true}) {
				problem = fmt.Sprintf("wrong value: the token denotes %s, the destination holds %s (error nil)", want, got)
			}
		}
	case reject:
		if top.panicked == "" && top.err == nil {
			problem = fmt.Sprintf("the destination cannot represent %s, yet decoding reported no error and left %s", tok.Node, uni.FromGo(top.val))
		}
	}
	// position independence (judged separately from the value oracle)
	posProblem := ""
	for _, pos := range positions[1:] {
		pt := pos.typ(t)
		o := decodeInto(pos.wrap(tok.At(pos.before)), pt, simple)
		s := sig(o, pos.extract)
		if s != topSig && !(tok.Node.Kind == ref.Null && (pos.name == "*T" || pos.name == "ptr-field")) {
			posProblem = fmt.Sprintf("outcome depends on the position: top level gives %q, %s gives %q", trunc(topSig), pos.name, trunc(s))
			break
		}
	}
	// reference accounting: in reference mode a string written after the token is referred to by the index it
	// has if the token took exactly the reference slots the grammar gives it; a decoder path that registers too
	// few or too many items for this destination type resolves the back-reference to something else
	if !simple && posProblem == "" && top.panicked == "" && top.err == nil {
		_, p, perr := ref.ParseOne([]byte(tok.At(0)))
		if perr == nil {
			wire := fmt.Sprintf(`m3{uf%sups5"probe"uqr%d;}`, tok.At(1), 1+p.Referable)
			pt := reflect.StructOf([]reflect.StructField{{Name: "F", Type: t}, {Name: "P", Type: reflect.TypeOf("")}, {Name: "Q", Type: reflect.TypeOf("")}})
			o := decodeInto(wire, pt, false)
			switch {
			case o.panicked != "":
				posProblem = "reference accounting: decoding a later back-reference panicked: " + o.panicked
			case o.err != nil:
				posProblem = fmt.Sprintf("reference accounting: a back-reference to the string written after the token failed: %v", o.err)
			case o.val.Field(2).String() != "probe":
				posProblem = fmt.Sprintf("reference accounting: a back-reference to the string written after the token resolved to %q instead of \"probe\"", o.val.Field(2).String())
			}
		}
	}
	ev.S.Case(sub, canon, true, "verdict="+[]string{"unknown", "exact", "reject"}[v], "class="+tok.Class, fmt.Sprintf("own-form=%v", tok.OwnForm))
	for _, pr := range []string{problem, posProblem} {
		if pr == "" {
			continue
		}
		if key := classify(tok, t, pr); key != "" {
			ev.S.Exclude(key, canon+" => "+trunc(pr))
			continue
		}
		if os.Getenv("VERIF_TRIAGE") != "" {
			fmt.Printf("TRIAGE %s | %s\n", trunc(pr), canon)
			continue
		}
		ev.S.Violation(sub, test, canon, pr, nil)
		tb.Fatalf("%s\n=> %s", canon, pr)
	}
}

func trunc(s string) string {
	if len(s) > 300 {
		return s[:300] + "…"
	}
	return s
}

// TestTokenMatrix: every token spelling x every destination x {simple, reference} x every position.
func TestTokenMatrix(t *testing.T) {
	toks := AllScalarTokens()
	i := 0
	for _, tok := range toks {
		for _, d := range dests {
			i++
			if i%ev.S.NShards != ev.S.Shard {
				continue
			}
			for _, simple := range []bool{true, false} {
				checkToken(t, "token-matrix", "TestTokenMatrix", tok, d, simple)
			}
		}
	}
	ev.S.Exhaustive("token-matrix", true)
	ev.S.Note("token_matrix", fmt.Sprintf("%d token spellings x %d destination types x 2 modes x %d positions", len(toks), len(dests), len(positions)))
}

// ---------------------------------------------------------------- objects, maps for objects

type objCase struct {
	Name string
	Wire string
	// the Plain value the stream denotes when read by field name
	A int
	B string
	C float64
	// extra holds field names the class carries that Plain does not have
	Extra bool
}

var objCases = []objCase{
	{"exact-class", `c5"Plain"3{s1"a"s1"b"s1"c"}o0{7s2"xy"d1.5;}`, 7, "xy", 1.5, false},
	{"reordered-fields", `c5"Plain"3{s1"c"s1"a"s1"b"}o0{d1.5;7s2"xy"}`, 7, "xy", 1.5, false},
	{"missing-field", `c5"Plain"2{s1"a"s1"c"}o0{7d1.5;}`, 7, "", 1.5, false},
	{"extra-field", `c5"Plain"4{s1"a"s1"b"s5"extra"s1"c"}o0{7s2"xy"a2{12}d1.5;}`, 7, "xy", 1.5, true},
	{"extra-field-last", `c5"Plain"4{s1"a"s1"b"s1"c"s5"extra"}o0{7s2"xy"d1.5;t}`, 7, "xy", 1.5, true},
	{"field-names-as-chars", `c5"Plain"3{uaubuc}o0{7s2"xy"d1.5;}`, 7, "xy", 1.5, false},
	{"map-for-object", `m3{s1"a"7s1"b"s2"xy"s1"c"d1.5;}`, 7, "xy", 1.5, false},
	{"map-for-object-char-keys", `m3{ua7ubs2"xy"ucd1.5;}`, 7, "xy", 1.5, false},
	{"map-for-object-extra-key", `m4{ua7ubs2"xy"s5"extra"nucd1.5;}`, 7, "xy", 1.5, true},
	{"empty-class", `c5"Plain"{}o0{}`, 0, "", 0, false},
	{"long-form-values", `c5"Plain"3{s1"a"s1"b"s1"c"}o0{l7;s2"xy"d15e-1;}`, 7, "xy", 1.5, false},
	{"two-instances", `a2{c5"Plain"3{s1"a"s1"b"s1"c"}o0{7s2"xy"d1.5;}o0{7r5;d1.5;}}`, 7, "xy", 1.5, false},
}

var objDests = []string{"Plain", "*Plain", "iface", "map[string]iface", "map[iface]iface", "[]Plain-elem", "struct{F Plain}", "map[string]Plain-value"}

// decodeObjChild runs in a child process: payload "<case index>|<dest>"; prints RESULT lines.
func TestObjChild(t *testing.T) {
	payload, ok := ev.ChildPayload()
	if !ok {
		t.Skip("child only")
	}
	var ci int
	var dest string
	fmt.Sscanf(payload, "%d|", &ci)
	dest = payload[strings.Index(payload, "|")+1:]
	fmt.Println("RESULT " + decodeObj(objCases[ci], dest))
}

func plainNode(c objCase) *ref.Node {
	return uni.FromGo(reflect.ValueOf(uni.Plain{A: c.A, B: c.B, C: c.C}))
}

// decodeObj decodes the case into the destination and returns "" when it matches the expectation.
func decodeObj(c objCase, dest string) string {
	wire := c.Wire
	two := c.Name == "two-instances"
	var got reflect.Value
	var err error
	var panicked string
	run := func(p interface{}) {
		defer func() {
			if e := recover(); e != nil {
				panicked = fmt.Sprint(e)
			}
		}()
		dec := hio.NewDecoder([]byte(wire)).Simple(false)
		dec.Decode(p)
		err = dec.Error
	}
	asMap := false
	switch dest {
	case "Plain":
		if two {
			var v []uni.Plain
			run(&v)
			got = reflect.ValueOf(v)
		} else {
			var v uni.Plain
			run(&v)
			got = reflect.ValueOf(v)
		}
	case "*Plain":
		if two {
			var v []*uni.Plain
			run(&v)
			got = reflect.ValueOf(v)
		} else {
			var v *uni.Plain
			run(&v)
			got = reflect.ValueOf(v)
		}
	case "iface":
		var v interface{}
		run(&v)
		got = reflect.ValueOf(&v).Elem()
		asMap = strings.HasPrefix(c.Name, "map-for-object")
	case "map[string]iface":
		asMap = true
		if two {
			var v []map[string]interface{}
			run(&v)
			got = reflect.ValueOf(v)
		} else {
			var v map[string]interface{}
			run(&v)
			got = reflect.ValueOf(v)
		}
	case "map[iface]iface":
		asMap = true
		if two {
			var v []map[interface{}]interface{}
			run(&v)
			got = reflect.ValueOf(v)
		} else {
			var v map[interface{}]interface{}
			run(&v)
			got = reflect.ValueOf(v)
		}
	case "[]Plain-elem":
		wire = "a1{" + shiftRefs(wire, 1) + "}"
		var v [][]uni.Plain
		var v1 []uni.Plain
		if two {
			run(&v)
			if len(v) == 1 {
				got = reflect.ValueOf(v[0])
			}
		} else {
			run(&v1)
			if len(v1) == 1 {
				got = reflect.ValueOf(v1[0])
			}
		}
	case "struct{F Plain}":
		wire = "m1{uf" + shiftRefs(wire, 1) + "}"
		if two {
			var v struct{ F []uni.Plain }
			run(&v)
			got = reflect.ValueOf(v.F)
		} else {
			var v struct{ F uni.Plain }
			run(&v)
			got = reflect.ValueOf(v.F)
		}
	case "map[string]Plain-value":
		wire = "m1{uk" + shiftRefs(wire, 1) + "}"
		if two {
			var v map[string][]uni.Plain
			run(&v)
			got = reflect.ValueOf(v["k"])
		} else {
			var v map[string]uni.Plain
			run(&v)
			got = reflect.ValueOf(v["k"])
		}
	}
	if panicked != "" {
		return "decoder panicked on a well-formed stream: " + panicked
	}
	if err != nil {
		return "well-formed stream rejected: " + err.Error()
	}
	if !got.IsValid() {
		return "nothing was decoded"
	}
	var want *ref.Node
	if asMap {
		want = &ref.Node{Kind: ref.Map}
		add := func(k string, v *ref.Node) { want.Elems = append(want.Elems, strNode(k), v) }
		if c.Name != "empty-class" {
			add("a", intNode(big.NewInt(int64(c.A))))
			if c.Name != "missing-field" {
				add("b", strNode(c.B))
			}
			add("c", floatNode(c.C, false))
		}
		if c.Extra {
			switch c.Name {
			case "extra-field":
				add("extra", &ref.Node{Kind: ref.List, Elems: []*ref.Node{intNode(big.NewInt(1)), intNode(big.NewInt(2))}})
			case "extra-field-last":
				add("extra", &ref.Node{Kind: ref.Bool, B: true})
			default:
				add("extra", &ref.Node{Kind: ref.Null})
			}
		}
	} else {
		want = plainNode(c)
	}
	if two {
		want = &ref.Node{Kind: ref.List, Elems: []*ref.Node{want, want}}
	}
	g := uni.FromGo(got)
	if !ref.EqualOpt(want, g, ref.Options{NilIsEmpty: true}) {
		return fmt.Sprintf("wrong value: the stream denotes %s, the destination holds %s (error nil)", want, g)
	}
	return ""
}

var refRe = regexp.MustCompile(`r([0-9]+);`)

func shiftRefs(wire string, by int) string {
	return refRe.ReplaceAllStringFunc(wire, func(m string) string {
		n, _ := strconv.Atoi(m[1 : len(m)-1])
		return fmt.Sprintf("r%d;", n+by)
	})
}

const kfObjIntoIIMap = "object-into-iface-keyed-map-fatal"

// TestObjects: every class layout x every destination. Each cell runs in a child process because
// one of them is known to kill the process with an unrecoverable runtime error.
func TestObjects(t *testing.T) {
	// all layouts for one destination run in one process, in table order: a decoder that remembers the first
	// layout it saw for a class would misread the later ones
	for di, dest := range objDests {
		if di%ev.S.NShards != ev.S.Shard {
			continue
		}
		for ci, c := range objCases {
			_ = ci
			canon := fmt.Sprintf("objects %s dest=%s wire=%q", c.Name, dest, c.Wire)
			ev.S.Begin("objects", canon)
			problem := decodeObj(c, dest)
			ev.S.Case("objects", canon, true, "objects-"+c.Name, "objdest="+dest)
			if problem == "" {
				continue
			}
			key := ""
			switch {
			case dest == "map[iface]iface" && !strings.HasPrefix(c.Name, "map-for-object") && strings.Contains(problem, "killed the process"):
				key = kfObjIntoIIMap
			}
			if key != "" && ev.S.Known(key) {
				ev.S.Exclude(key, canon+" => "+trunc(problem))
				continue
			}
			if os.Getenv("VERIF_TRIAGE") != "" {
				fmt.Printf("TRIAGE %s | %s\n", trunc(problem), canon)
				continue
			}
			ev.S.Violation("objects", "TestObjects", canon, problem, nil)
			t.Fatalf("%s\n=> %s", canon, problem)
		}
	}
	ev.S.Exhaustive("objects", true)
}

// ---------------------------------------------------------------- decoder settings for interface{} destinations

func TestSettings(t *testing.T) {
	longNames := []string{"int", "uint", "int64", "uint64", "*big.Int"}
	realNames := []string{"float64", "float32", "*big.Float"}
	var toks []Token
	for _, v := range []string{"5", "300", "-7", "2147483648", "-2147483649", "9223372036854775807", "9223372036854775808", "-9223372036854775809", "18446744073709551615"} {
		x, _ := new(big.Int).SetString(v, 10)
		toks = append(toks, IntTokens(x)...)
	}
	toks = append(toks, DoubleTokens("1.5", "0.1", "3", "1e39", "16777217")...)
	toks = append(toks, SpecialDoubles()...)
	toks = append(toks, ContainerTokens()...)
	toks = append(toks, Token{`c5"Plain"3{s1"a"s1"b"s1"c"}o0{7s2"xy"d1.5;}`, "object", uni.FromGo(reflect.ValueOf(uni.Plain{A: 7, B: "xy", C: 1.5})), true})
	toks = append(toks, Token{`a2{c5"Plain"3{s1"a"s1"b"s1"c"}o0{7s2"xy"d1.5;}o0{8s2"zz"d2.5;}}`, "object-list",
		uni.FromGo(reflect.ValueOf([]uni.Plain{{A: 7, B: "xy", C: 1.5}, {A: 8, B: "zz", C: 2.5}})), true})
	toks = append(toks, StringTokens("ab")...)
	idx := 0
	for _, tok := range toks {
		for lt := 0; lt < 5; lt++ {
			for rt := 0; rt < 3; rt++ {
				for mt := 0; mt < 2; mt++ {
					for st := 0; st < 2; st++ {
						for lst := 0; lst < 2; lst++ {
							idx++
							if idx%ev.S.NShards != ev.S.Shard {
								continue
							}
							canon := fmt.Sprintf("settings token=%q (%s) long=%s real=%s map=%d struct=%d list=%d", tok.Wire, tok.Class, longNames[lt], realNames[rt], mt, st, lst)
							ev.S.Begin("settings", canon)
							var v interface{}
							var err error
							panicked := ""
							func() {
								defer func() {
									if e := recover(); e != nil {
										panicked = fmt.Sprint(e)
									}
								}()
								dec := hio.NewDecoder([]byte(tok.Wire)).Simple(false)
								dec.LongType, dec.RealType, dec.MapType, dec.StructType, dec.ListType = hio.LongType(lt), hio.RealType(rt), hio.MapType(mt), hio.StructType(st), hio.ListType(lst)
								dec.Decode(&v)
								err = dec.Error
							}()
							problem := settingsProblem(tok, v, err, panicked, lt, rt, mt, st, lst, longNames, realNames)
							ev.S.Case("settings", canon, true, "settings-"+tok.Class)
							if problem == "" {
								continue
							}
							if key := classify(tok, uni.TIface, problem); key != "" {
								ev.S.Exclude(key, canon+" => "+trunc(problem))
								continue
							}
							if os.Getenv("VERIF_TRIAGE") != "" {
								fmt.Printf("TRIAGE %s | %s\n", trunc(problem), canon)
								continue
							}
							ev.S.Violation("settings", "TestSettings", canon, problem, nil)
							t.Fatalf("%s\n=> %s", canon, problem)
						}
					}
				}
			}
		}
	}
	ev.S.Exhaustive("settings", true)
}

func settingsProblem(tok Token, v interface{}, err error, panicked string, lt, rt, mt, st, lst int, longNames, realNames []string) string {
	n := tok.Node
	if panicked != "" {
		return "decoder panicked on a well-formed stream: " + panicked
	}
	dyn := fmt.Sprintf("%T", v)
	switch n.Kind {
	case ref.Int:
		wantType := "int"
		lo, hi := big.NewInt(math.MinInt64), big.NewInt(math.MaxInt64)
		if strings.HasPrefix(tok.Wire, "l") {
			wantType = longNames[lt]
			switch lt {
			case 1, 3:
				lo, hi = big.NewInt(0), new(big.Int).SetUint64(math.MaxUint64)
			case 4:
				lo, hi = nil, nil
			}
		}
		if lo != nil && (n.I.Cmp(lo) < 0 || n.I.Cmp(hi) > 0) {
			if err == nil {
				return fmt.Sprintf("the destination cannot represent %s as %s, %s and left %v", n, wantType, silent, v)
			}
			return ""
		}
		if err != nil {
			return fmt.Sprintf("well-formed token rejected: %v", err)
		}
		if dyn != wantType {
			return fmt.Sprintf("dynamic type %s, the LongType setting prescribes %s", dyn, wantType)
		}
		if !ref.Equal(n, uni.FromGo(reflect.ValueOf(v))) {
			return fmt.Sprintf("wrong value: the token denotes %s, got %v", n, v)
		}
	case ref.Double:
		if math.IsNaN(n.F) && rt == 2 {
			return "" // NaN has no *big.Float form: an error is the documented outcome
		}
		if rt == 1 && n.FText != "" {
			if _, perr := strconv.ParseFloat(n.FText, 32); perr != nil {
				if err == nil {
					return fmt.Sprintf("%s is out of float32 range, %s", n, silent)
				}
				return ""
			}
		}
		if err != nil {
			return fmt.Sprintf("well-formed token rejected: %v", err)
		}
		if dyn != realNames[rt] {
			return fmt.Sprintf("dynamic type %s, the RealType setting prescribes %s", dyn, realNames[rt])
		}
		want := n
		if rt == 1 && n.FText != "" {
			f, _ := strconv.ParseFloat(n.FText, 32)
			want = floatNode(f, true)
		}
		if !ref.Equal(want, uni.FromGo(reflect.ValueOf(v))) && !(rt == 2 && n.BigF != nil) {
			return fmt.Sprintf("wrong value: the token denotes %s, got %v", n, v)
		}
	case ref.Map:
		if err != nil {
			return fmt.Sprintf("well-formed token rejected: %v", err)
		}
		want := "map[interface {}]interface {}"
		if mt == 1 {
			want = "map[string]interface {}"
		}
		if dyn != want {
			return fmt.Sprintf("dynamic type %s, the MapType setting prescribes %s", dyn, want)
		}
	case ref.Object:
		if err != nil {
			return fmt.Sprintf("well-formed token rejected: %v", err)
		}
		want := "*uni.Plain"
		if st == 1 {
			want = "uni.Plain"
		}
		if dyn != want {
			return fmt.Sprintf("dynamic type %s, the StructType setting prescribes %s", dyn, want)
		}
		if !ref.Equal(n, uni.FromGo(reflect.ValueOf(v))) {
			return fmt.Sprintf("wrong value: the token denotes %s, got %v", n, v)
		}
	case ref.List:
		if err != nil {
			return fmt.Sprintf("well-formed token rejected: %v", err)
		}
		if lst == 0 && dyn != "[]interface {}" {
			return fmt.Sprintf("dynamic type %s, the ListType setting prescribes []interface {}", dyn)
		}
		if tok.Class == "object-list" && lst == 1 {
			want := "[]*uni.Plain"
			if st == 1 {
				want = "[]uni.Plain"
			}
			if dyn != want {
				return fmt.Sprintf("dynamic type %s, the ListType/StructType settings prescribe %s", dyn, want)
			}
		}
		if lt == 0 && rt == 0 && !ref.EqualOpt(n, uni.FromGo(reflect.ValueOf(v)), ref.Options{NilIsEmpty: true}) {
			return fmt.Sprintf("wrong value: the token denotes %s, got %v", n, v)
		}
	case ref.String:
		if err != nil || dyn != "string" || v.(string) != n.S {
			return fmt.Sprintf("string token gave %v (%s), error %v", v, dyn, err)
		}
	}
	return ""
}

// ---------------------------------------------------------------- entry independence

type indepValue struct {
	Name string
	Qty  int
	Tags []string
	Sub  *uni.Inner
	Arr  [2][]int
}

// TestEntryIndependence: containers with several entries whose values are objects, maps standing in for objects,
// lists or arrays; later entries carry fewer members or shorter lists than earlier ones. Every entry must decode to
// what the same token gives when it is decoded on its own at top level: nothing of one entry may show in another.
func TestEntryIndependence(t *testing.T) {
	hio.RegisterName("Indep", (*indepValue)(nil))
	cls := `c5"Indep"5{s4"name"s3"qty"s4"tags"s3"sub"s3"arr"}`
	cls2 := `c5"Indep"2{s4"name"s4"tags"}`
	// entry tokens; %CLS% is replaced by a class definition the first time a class is needed in a stream
	entries := []string{
		`o0{s1"a"7a2{s1"p"s1"q"}m2{uX1uYs2"in"}a2{a3{123}a1{9}}}`,
		`o1{s1"b"a1{s1"r"}}`, // class 1 = the two-member class: qty, sub, arr absent
		`o0{s1"c"0a{}na2{a1{5}a{}}}`,
		`m1{s4"name"s1"d"}`,
		`m3{s4"name"s1"e"s4"tags"a1{s1"t"}s3"sub"m1{uX4}}`,
		`o1{s1"f"a3{s1"u"s1"v"s1"w"}}`,
	}
	type container struct {
		name string
		typ  reflect.Type
		wrap func(items []string) string
		get  func(v reflect.Value, i int) reflect.Value
	}
	vt := reflect.TypeOf(indepValue{})
	containers := []container{
		{"map[string]T", reflect.MapOf(reflect.TypeOf(""), vt), func(items []string) string {
			s := fmt.Sprintf("m%d{", len(items))
			for i, it := range items {
				s += fmt.Sprintf(`s2"k%d"%s`, i, it)
			}
			return s + "}"
		}, func(v reflect.Value, i int) reflect.Value { return v.MapIndex(reflect.ValueOf(fmt.Sprintf("k%d", i))) }},
		{"map[string]*T", reflect.MapOf(reflect.TypeOf(""), reflect.PtrTo(vt)), func(items []string) string {
			s := fmt.Sprintf("m%d{", len(items))
			for i, it := range items {
				s += fmt.Sprintf(`s2"k%d"%s`, i, it)
			}
			return s + "}"
		}, func(v reflect.Value, i int) reflect.Value { return v.MapIndex(reflect.ValueOf(fmt.Sprintf("k%d", i))).Elem() }},
		{"map[int]T from a list", reflect.MapOf(reflect.TypeOf(0), vt), func(items []string) string {
			return fmt.Sprintf("a%d{%s}", len(items), strings.Join(items, ""))
		}, func(v reflect.Value, i int) reflect.Value { return v.MapIndex(reflect.ValueOf(i)) }},
		{"[]T", reflect.SliceOf(vt), func(items []string) string {
			return fmt.Sprintf("a%d{%s}", len(items), strings.Join(items, ""))
		}, func(v reflect.Value, i int) reflect.Value { return v.Index(i) }},
		{"[3]T", reflect.ArrayOf(3, vt), func(items []string) string {
			return fmt.Sprintf("a%d{%s}", len(items), strings.Join(items, ""))
		}, func(v reflect.Value, i int) reflect.Value { return v.Index(i) }},
		{"map[string][2]T", reflect.MapOf(reflect.TypeOf(""), reflect.ArrayOf(2, vt)), func(items []string) string {
			s := fmt.Sprintf("m%d{", len(items))
			for i, it := range items {
				s += fmt.Sprintf(`s2"k%d"a1{%s}`, i, it)
			}
			return s + "}"
		}, func(v reflect.Value, i int) reflect.Value {
			return v.MapIndex(reflect.ValueOf(fmt.Sprintf("k%d", i))).Index(0)
		}},
	}
	k := 0
	for _, c := range containers {
		for a := range entries {
			for b := range entries {
				for c3 := -1; c3 < len(entries); c3 += 3 {
					k++
					if ev.S.NShards > 1 && k%ev.S.NShards != ev.S.Shard {
						continue
					}
					idx := []int{a, b}
					if c3 >= 0 {
						idx = append(idx, c3)
					}
					if c.name == "[3]T" && len(idx) > 3 {
						continue
					}
					var items []string
					for _, i := range idx {
						items = append(items, entries[i])
					}
					for _, simple := range []bool{true} {
						wire := cls + cls2 + c.wrap(items)
						canon := fmt.Sprintf("%s entries=%v", c.name, idx)
						ev.S.Begin("entry-independence", canon)
						o := decodeInto(wire, c.typ, simple)
						problem := ""
						switch {
						case o.panicked != "":
							problem = "decoder panicked on a well-formed stream: " + o.panicked
						case o.err != nil:
							problem = fmt.Sprintf("well-formed stream rejected: %v", o.err)
						default:
							for pos, i := range idx {
								alone := decodeInto(cls+cls2+entries[i], vt, simple)
								if alone.err != nil || alone.panicked != "" {
									problem = fmt.Sprintf("entry %d cannot be decoded on its own: %v %s", i, alone.err, alone.panicked)
									break
								}
								var got reflect.Value
								func() {
									defer func() {
										if e := recover(); e != nil {
											problem = fmt.Sprintf("entry at position %d is missing from the result: %v", pos, e)
										}
									}()
									got = c.get(o.val, pos)
								}()
								if problem != "" {
									break
								}
								if !got.IsValid() {
									problem = fmt.Sprintf("entry at position %d is missing from the result", pos)
									break
								}
								w, g := uni.FromGo(alone.val), uni.FromGo(got)
								if !ref.EqualOpt(w, g, ref.Options{NilIsEmpty: true}) {
									problem = fmt.Sprintf("entry at position %d differs from the same token decoded on its own: at %s; alone %s, in the container %s", pos, ref.Diff(w, g, ref.Options{NilIsEmpty: true}), w, g)
									break
								}
							}
						}
						ev.S.Case("entry-independence", canon, true, "indep="+c.name)
						if problem != "" {
							if os.Getenv("VERIF_TRIAGE") != "" {
								fmt.Printf("TRIAGE %s | %s wire=%q\n", trunc(problem), canon, wire)
								continue
							}
							ev.S.Violation("entry-independence", "TestEntryIndependence", canon+" wire="+wire, problem, nil)
							t.Fatalf("%s\n=> %s", canon, problem)
						}
					}
				}
			}
		}
	}
	ev.S.Exhaustive("entry-independence", true)
}

func TestFinding(t *testing.T) {
	key := ev.FindingKey()
	if r, ok := reproducers[key]; ok {
		reproduced, detail := r()
		ev.FindingResult(key, reproduced, detail)
		return
	}
	t.Skip("no open finding " + key)
}

var reproducers = map[string]func() (bool, string){
	"bigfloat-precision": func() (bool, string) {
		var v *big.Int
		dec := hio.NewDecoder([]byte("d1e39;"))
		dec.Decode(&v)
		want, _ := new(big.Int).SetString("1000000000000000000000000000000000000000", 10)
		return dec.Error == nil && v != nil && v.Cmp(want) != 0, fmt.Sprintf("d1e39; into *big.Int gives %v", v)
	},
	"int-out-of-range-wraps": func() (bool, string) {
		var v int8
		dec := hio.NewDecoder([]byte("i300;"))
		dec.Decode(&v)
		return dec.Error == nil && v == 44, fmt.Sprintf("i300; into int8 gives %d, error %v", v, dec.Error)
	},
	"double-to-int-truncates": func() (bool, string) {
		var v int
		dec := hio.NewDecoder([]byte("d1.5;"))
		dec.Decode(&v)
		return dec.Error == nil && v == 1, fmt.Sprintf("d1.5; into int gives %d, error %v", v, dec.Error)
	},
}

var _ = list.New
