#!/bin/sh
# Build every check's test binary from files on disk only (warms the Go build cache).
cd "$(dirname "$0")"
export GOFLAGS=-mod=mod GOPROXY=off GOSUMDB=off GOTOOLCHAIN=local
rc=0
for id in $(python3 -c "import sys; sys.path.insert(0,'lib'); from props import PROPS; print(' '.join(sorted(PROPS)))"); do
  ./check "$id" --build-only || rc=2
done
exit $rc
