#!/usr/bin/env python3
"""Regenerates /verif/MANIFEST.json from lib/props.py (single source of truth)."""
import json, os, sys
ROOT = os.path.dirname(os.path.dirname(os.path.abspath(__file__)))
sys.path.insert(0, os.path.join(ROOT, "lib"))
from props import PROPS, NOT_APPLICABLE, HOOK_COMMITS

checks = []
for pid in sorted(PROPS):
    c = PROPS[pid]
    checks.append({
        "property_id": pid,
        "quick_cmd": "./check %s --tier quick" % pid,
        "thorough_cmd": "./check %s --tier thorough" % pid,
        "evidence_file": "/verif/evidence/%s.json" % pid,
        "replay_cmd_template": "./check %s --replay {path}" % pid,
        "engine": "rapid-go-harness",
        "level_claimed": {"category": c["level"], "text": c["level_text"], "design_ref": c["design_ref"]},
        "level_note": c["level_note"],
        "technique": c["technique"],
    })
m = {
    "version": 1,
    "setup_cmd": "./setup.sh",
    "hooks": {
        "guard": "verif",
        "enable": "go test -tags verif (the harness module /verif/harness replaces the hprose module with /repo and always builds with -tags verif)",
        "baseline_off_cmd": "cd /repo && go test -p 1 -mod=mod -vet=off -count=1 -timeout 25m ./...",
        "source_commits": HOOK_COMMITS,
        "add_only": True,
    },
    "engines": [{
        "name": "rapid-go-harness", "path": "/verif/harness",
        "serves_properties": sorted(PROPS),
        "kind_free_text": "property-based testing with pgregory.net/rapid v1.3.0 (generators, state machines, shrinking), exhaustive enumeration of small finite spaces, native go fuzzing in thorough tiers; Python driver ./check shards, isolates crashes in child processes and writes evidence",
    }],
    "checks": checks,
    "not_applicable": NOT_APPLICABLE,
    "notes": "All checks rebuild from /repo's working tree through the replace directive in /verif/harness/go.mod. Known findings: /verif/known-findings.txt.",
}
json.dump(m, open(os.path.join(ROOT, "MANIFEST.json"), "w"), indent=1)
open(os.path.join(ROOT, "MANIFEST.json"), "a").write("\n")
print("wrote MANIFEST.json with", len(checks), "checks;", len(NOT_APPLICABLE), "not applicable")
