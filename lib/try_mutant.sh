#!/bin/sh
# usage: try_mutant.sh <ID> <file-relative-to-/repo> <sed-expression> : applies, runs quick check, reverts
id=$1; f=$2; expr=$3
cd /repo || exit 2
git diff --quiet || { echo "repo dirty"; exit 2; }
sed -i "$expr" "$f"
if git diff --quiet; then echo "MUTANT DID NOT CHANGE ANYTHING"; exit 2; fi
git diff | grep '^[-+]' | grep -v '^+++\|^---'
cd /verif && ./check "$id" 2>&1 | grep -E "VIOLATION|failing case|HARNESS|BUILD|evaluations=" | cut -c1-400 | head -6
git -C /repo checkout -- .
