"""Per-property configuration for ./check: test package, shards, budgets, evidence text."""

PROPS = {
    "C20": dict(
        pkg="c20", level="exploration", exhaustive_all=False, design_ref="DESIGN.md section 3, C20",
        technique="exhaustive enumeration of outcome sequences + rapid property tests against a consecutive-failure reference model",
        level_text=("Model-based property testing: the bounded space of outcome sequences x configurations is enumerated "
                    "completely and compared step by step with a reference model written from the statement; rapid extends "
                    "it to long sequences, real recovery times and concurrent callers. Exploration, not proof: sequences "
                    "beyond the bound and schedules are sampled. A further sub-check forwards several calls while the breaker is closed and lets some of them fail after the breaker has opened: the recovery time runs from the last failure."),
        level_note="Trusts the harness model of 'consecutive failures'; timed recovery asserted only within measured clock bounds; concurrency sampled from the Go scheduler.",
        rule=("exhaustive: every outcome sequence over {ok,error,panic} up to the length bound x thresholds x "
              "{zero, 24 h, 290 years, MaxInt64} recovery x mock absent/present (the error kind rotates with the position: plain, cancelled, wrapped cancelled, deadline, "
              "time-out), plus rapid-drawn long sequences, a timed-recovery "
              "variant whose oracle is bounded by measured clock readings, and concurrent callers; each case is run "
              "through a real client with the plugin installed and compared step by step with a consecutive-failure "
              "model. Non-trivial = the sequence drives the failure count past the threshold (a call is rejected, or "
              "would be but for zero recovery); distinct by (config, sequence)."),
        assumptions=["time.Now is monotone enough that a 24h recovery never elapses and a 0 recovery always has",
                     "timed variant asserts only what the harness's own before/after clock readings force"],
        quick=dict(shards=4, timeout=300),
        thorough=dict(shards=16, timeout=1500),
    ),
}

PROPS["C16"] = dict(
    pkg="c16", level="exploration", design_ref="DESIGN.md section 3, C16",
    technique="exhaustive enumeration of outcome scripts x configurations + rapid multi-call histories against a statement-level retry/failover/fan-out model",
    level_text=("The single-call space (scripts x retry x idempotent flags x overrides x servers x modes) and the forking/broadcast "
                "space (outcome assignments x completion orders, forced by the harness) are enumerated completely; rapid adds "
                "multi-call histories on one cluster instance because the failover rotation outlives a call. Exploration with an "
                "exhaustive core; bounds stated in the evidence."),
    level_note="Retry intervals are set to zero; the scripted downstream handler stands for the servers; histories beyond the generated length are not covered.",
    rule=("single: every script in {success,error,panic}^(retry+2) x retry x idempotent (plugin, per-call) x retry override x servers x mode on a fresh "
          "instance; histories: rapid-drawn sequences of 1..6 calls on one instance; fan: every outcome assignment x completion order for "
          "forking/broadcast. Non-trivial = the first attempt fails (single/histories, and for histories more than one call) or some server fails (fan); "
          "distinct by full case text."),
    assumptions=["the scripted IO handler installed inside the cluster plugin is an adequate stand-in for remote servers",
                 "completion order in forking is forced by releasing held handlers one at a time"],
    quick=dict(shards=4, timeout=300),
    thorough=dict(shards=16, timeout=1500),
)

PROPS["C18"] = dict(
    pkg="c18", level="exploration", design_ref="DESIGN.md section 3, C18",
    technique="exhaustive enumeration of weight vectors/outcome histories + rapid state machine holding calls in flight, against per-policy oracles from the statement",
    level_text=("Weight vectors up to a bound and outcome histories up to a bound are enumerated completely for all seven balancers with exact "
                "per-cycle count oracles for the deterministic policies; a rapid state machine holds calls in flight so the true in-flight "
                "vector is known and every least-active pick is checked against its argmin; failure-aware share reduction/restoration is "
                "checked with wide statistical margins; concurrent callers are sampled for validity. For the plain least-active balancer the client's server list "
                "shrinks and grows between steps, also while calls are in flight. Exploration with an exhaustive core. A further sub-check lets a server go down while several cycles of calls are in flight (it collects more failures than its weight) and checks that the servers that never failed keep their proportions afterwards."),
    level_note="Random policies: only validity and bookkeeping are asserted, never a distribution beyond 6-sigma / factor-2 margins; schedules of concurrent callers are sampled.",
    rule=("cycles: every weight vector in the bound x 3 full cycles x balancer; histories: every outcome history up to the bound x weight vectors; "
          "leastactive-model: rapid-drawn start/finish(ok|error|panic) traces with calls held in flight; share: victim server failing for ever or k<w times; "
          "concurrent: G goroutines. Non-trivial = at least 2 servers with non-uniform weights, or a history/trace containing a failure or panic; distinct by case text."),
    assumptions=["global math/rand cannot be seeded from the harness, so random tie-breaks differ between runs; oracles do not depend on them",
                 "share restoration for random policies uses a 6-sigma lower bound over 2000 picks"],
    quick=dict(shards=4, timeout=400),
    thorough=dict(shards=16, timeout=1800),
)

PROPS["C17"] = dict(
    pkg="c17", level="exploration", design_ref="DESIGN.md section 3, C17",
    technique="rapid-generated concurrent workloads with an in-flight gauge and permit conservation; shadow token-bucket over measured clock readings; hook-forced interleaving of the rate limiter's load/store",
    level_text=("Generated workloads (service times chosen to collide with wait time-outs, errors, panics, pre-cancelled callers) run against the real "
                "limiter inside a real client; invariants: in-flight gauge <= limit, rejected requests never run, permits conserved at quiescence, "
                "limiter not wedged. The rate limiter is compared with an interval-arithmetic shadow of its permit clock built from the harness's own "
                "before/after clock readings, and its load/store window is forced with a verif yield point so the racing schedule is data, not luck."),
    level_note="Schedules of the concurrent limiter are sampled from the Go scheduler (volume, not coverage); all time-based assertions are one-sided with >=0.2ms slack; the sampled concurrent rate check is weak by nature (stated in DESIGN.md) and the forced one decides.",
    rule=("concurrent-limiter: rapid-drawn sets of 1..48 requests (start offset, service time, outcome ok/error/panic, optional pre-cancelled context) x limit 1..8 x wait timeout; "
          "non-trivial = the gauge reached the limit while more requests than permits were outstanding or one timed out. rate-sequential: token/idle sequences x rate x burst x timeout; "
          "non-trivial = some call had to wait or was rejected. rate-forced: K acquirers parked between load and store (always non-trivial). Distinct by case text."),
    assumptions=["timers never fire early; clock readings taken by the harness bracket the limiter's own reading of time.Now",
                 "the rate bound charges neither the first nor the last caller of a window (debt semantics of the implementation, documented in DESIGN.md)"],
    quick=dict(shards=4, timeout=400),
    thorough=dict(shards=16, timeout=1800),
)

PROPS["C15"] = dict(
    pkg="c15", level="exploration", design_ref="DESIGN.md section 3, C15",
    technique="rapid state machine over Use/Unuse/Call on a real client and service joined by the mock transport, against a list model of the onion; calls parked inside handlers while chains change",
    level_text=("Model-based stateful testing: every call's recorded enter/exit trace, its result (each invoke handler wraps it on the way back) and its "
                "error must equal the onion computed from a list model of the four chains a call crosses (client invoke, client io, service io, service "
                "invoke). In-flight changes are made while the harness holds a call parked inside a chosen handler, so the order is owned by the harness. "
                "Free-running concurrent Use/Unuse is sampled and checked for structural validity only. Handler lists are also kept by the caller and passed again "
                "(Use(list...), Unuse(list...), the same list on the other side). Handlers may also call next twice (what a retrying plugin does): the layers below must then be passed twice, in order."),
    level_note="Handlers installed twice at the same time are not generated (the statement does not settle their removal semantics). A chain is taken to be obtained per manager when the call reaches it.",
    rule=("onion-seq / onion-aliased: rapid-drawn histories of client/service Use, Unuse (including absent and already removed handlers) and calls with an optional "
          "short-circuit or injected error at any handler; non-trivial = the history contains a call after an Unuse of an installed handler with at least 2 others installed. "
          "onion-inflight: a call parked in a chosen handler while 1..4 Use/Unuse operations run (always non-trivial). onion-race: free-running. Distinct by history text."),
    assumptions=["handlers of the main pool are separately declared functions / distinct plugin types so that each has its own code pointer",
                 "the aliased pool (closures of one literal, instances of one plugin type) exercises the open finding unuse-code-pointer"],
    quick=dict(shards=4, timeout=400),
    thorough=dict(shards=16, timeout=1800),
)

PROPS["C19"] = dict(
    pkg="c19", level="exploration", design_ref="DESIGN.md section 3, C19",
    technique="rapid state machine over the broker's published methods against a per-(id,topic) FIFO model; generated concurrent publisher/consumer/churn workloads with token-conservation and per-publisher order invariants",
    level_text=("(a) Model-based: subscribe/unsubscribe/unicast/multicast/broadcast/poll sequences through real clients over the mock transport; every return "
                "value and every poll result must equal the FIFO model (nothing lost, duplicated, reordered or misdelivered), including polls that time out "
                "and what OnUnsubscribe is handed. (b) Generated concurrent workloads with short poll time-outs so that time-outs race with publishes; the "
                "recorded history must conserve every accepted token exactly once and keep per-publisher order. Schedules in (b) are sampled. (c) forced interleavings "
                "through the verif yield points. (d) The consumer is the library's own Prosumer: it subscribes to topics at generated moments during traffic and the broker "
                "greets each subscription from OnSubscribe; what the callbacks receive is compared with what the broker accepted."),
    level_note="Heartbeat disabled (HeartBeat=0) as the statement presupposes a client that keeps polling; one poller per client id; (b) samples Go scheduler interleavings, it does not enumerate them.",
    rule=("sequential: rapid-drawn histories over 3 client ids x 2 topics; non-trivial = a publish was accepted for an id after one of its polls had timed out. "
          "concurrent: workloads of 1..4 publishers x 5..60 messages, 1..3 consumers, optional subscribe/unsubscribe churn, poll timeout 0.3-3ms; "
          "non-trivial = at least one poll timed out empty and at least one message was delivered. Distinct by history / workload text."),
    assumptions=["the mock transport carries requests in-process; the broker code path (headers, id handling, codec) is the real one",
                 "a poll returning an empty map after the broker's Timeout is a legitimate outcome when nothing is queued"],
    quick=dict(shards=4, timeout=500),
    thorough=dict(shards=16, timeout=1800),
)

PROPS["C01"] = dict(
    pkg="c01", level="exploration", design_ref="DESIGN.md section 3, C01",
    technique="enumerated type x position matrix + rapid random type trees (reflect-built) with boundary-biased value generators; normalising round-trip oracle in neutral-node space",
    level_text=("Round-trip property over a generated type universe: every leaf type (scalars, named scalars, big numbers, time, uuid, list, interface{}, 25 named "
                "structs) is placed in every container position (pointers, slices, arrays, maps, anonymous struct fields) and all 15x15 specialised map types are "
                "enumerated, so each dispatch-table cell is executed with boundary-biased generated values; rapid adds random type trees of depth 3-4. The oracle "
                "maps original and decoded value into an independent neutral node space and grants exactly the normalisations of the statement."),
    level_note="Exploration: finite trees only (cycles are C02); decoder settings for interface{} destinations are the defaults here and varied in C06; the comparison ignores fields the library documents as not serialized.",
    rule=("matrix: leaf x position cells enumerated, 6 (quick) / 60 (thorough) rapid-drawn values per cell x {simple, reference} x 4 entry points; random-types: rapid type trees. "
          "Non-trivial = the value has a non-zero leaf and (nesting depth >= 1 or a boundary-length leaf or a non-struct top level). Distinct by (type, mode, entry, value text)."),
    assumptions=["time.Local is pinned to a fixed +8h zone for the run", "struct types never have two fields with the same alias (documented panic)",
                 "interface{}-keyed maps only get keys that stay distinct on the wire"],
    quick=dict(shards=4, timeout=600),
    thorough=dict(shards=16, timeout=2400),
)

PROPS["C05"] = dict(
    pkg="c05", level="exploration", design_ref="DESIGN.md section 3, C05",
    technique="differential testing: the same bytes decoded from a contiguous slice and from a fragmenting reader (generated chunk sequences, every split position, every chunk size, zero-byte reads) across buffer sizes",
    level_text=("Differential property: for generated valid streams (C01 generator) and their truncations, decoding through a reader that fragments the data must give the "
                "same value (compared in the neutral node space), the same error class and the same final stream position (a sentinel value decoded next) as decoding "
                "from a slice. Fragmentations are generated (fixed sizes 1..300, two-way splits, sizes around the 256-byte buffer, random sequences with zero-byte reads) and, "
                "for each generated stream of up to 700 bytes, every split position and every chunk size is enumerated. Stream types include byte arrays, UUIDs, big numbers, "
                "complex numbers and pointer structs, and a third of the cases decode into a different, convertible destination type. The whole token x destination matrix of C06 "
                "(every spelling of every scalar value into 52 destination types, top level and as list element) is additionally decoded byte by byte and with one split at every offset. Readers that deliver their last bytes together with io.EOF are part of the fragmentations."),
    level_note="A reader that returns (0, nil) for ever is outside io.Reader's contract and not generated (at most 3 in a row). When both sides panic the case is charged to C04, not here.",
    rule=("random: rapid-drawn (stream, truncation, fragmentation, buffer size); every-split: all two-way splits and all fixed chunk sizes of generated streams; boundary: "
          "strings of 1-4 byte characters placed across the 256/512-byte marks. Non-trivial = at least one read boundary fell strictly inside a token span (number, length "
          "prefix, string or byte payload, guid, time) as measured by the independent parser; distinct by (type, stream, fragmentation, buffer)."),
    assumptions=["the slice decoder is the reference; its own correctness is C01/C04/C06's business"],
    quick=dict(shards=4, timeout=600),
    thorough=dict(shards=16, timeout=2400),
)

PROPS["C03"] = dict(
    pkg="c03", level="exploration", design_ref="DESIGN.md section 3, C03",
    technique="generated values (type x position matrix, random types, value sequences) encoded by the library and read back by an independent strict Hprose parser; denotation compared in a neutral node space",
    level_text=("Every generated encoder output must parse under an independent recursive-descent reader of the published grammar (legal tags, UTF-16 string lengths, byte "
                "lengths, counts equal to contents, class definition before instance, back-references only to earlier referable items numbered as the specification "
                "prescribes), be consumed exactly, contain as many values as were written, and each parsed value must equal the neutral-node denotation of the Go value. "
                "Because the reader shares no code with the library, errors the Go encoder and decoder have in common are visible. Two enumerated sub-checks add the reference-clutter table (a marker string and a shared pointer before and after every kind of reference-counted item) and encoder reuse (Reset, mode switches and several messages through one encoder: each message must stand alone)."),
    level_note="The denotation rules (alias naming, anonymous struct = map, invalid UTF-8 string = bytes, complex = [re, im], time normalisation) are written from the library's documentation; a wrong rule would show as a failure on the unchanged tree, none is outstanding.",
    rule=("matrix: every leaf x position cell and all 15x15 specialised maps with 10/80 rapid-drawn values, both modes, Encode and Write; sequences: 1-5 values of random "
          "types written to one encoder without Reset, the last one optionally the very same value as the first. Non-trivial = output longer than one byte containing a "
          "container or a string of >= 2 units; distinct by (mode, entry, types, value text)."),
    assumptions=["hp/ref implements the published grammar; it is exercised against hand-written spellings in C06"],
    quick=dict(shards=4, timeout=600),
    thorough=dict(shards=16, timeout=2400),
)

PROPS["C02"] = dict(
    pkg="c02", level="exploration", design_ref="DESIGN.md section 3, C02",
    technique="generated pointer graphs (sharing, self-loops, longer cycles through slices, maps, arrays and interfaces) with reference-counted clutter; independent reader resolves every back-reference; bisimulation + identity count against the library's decoder",
    level_text=("A graph generator wires every pointer slot of 1-9 nodes to any node (or nil), interleaving items of every reference-counted kind. Oracle: encoding "
                "terminates; the independent reader accepts the stream and its resolved graph is bisimilar to the original, so every back-reference points at the item "
                "the encoder meant even when encoder and decoder share a numbering error; each distinct reachable object is defined exactly once; the library's decoder "
                "returns a bisimilar graph with the same number of distinct nodes (aliasing preserved), into typed and interface{} destinations. Node types also carry members that take a reference slot without being pointers (anonymous and empty structs, typed byte arrays, a shared pointer to an array of pointers), so a numbering error of either side shifts every later back-reference. An enumerated sub-check covers receivers whose struct lacks a member of the sender's class: an item first seen inside the dropped member and referred to again must resolve, for every kind of referable item and shape of the dropped member."),
    level_note="Graph sizes are bounded (<= 9 nodes); cyclic values are only encoded in reference mode (non-termination in simple mode is inherent).",
    rule=("rapid-drawn graphs over two node types with pointer, slice, map, array, *slice, *map and interface slots; 1 in 4 acyclic (DAG); clutter values of the enumerated "
          "kinds in interface slots. Non-trivial = the stream contains at least one r tag; classes has-cycle / has-sharing / clutter=<kind> are recorded. Distinct by (destination, graph text)."),
    assumptions=["node struct types are registered so that interface{} destinations rebuild them"],
    quick=dict(shards=4, timeout=600),
    thorough=dict(shards=16, timeout=2400),
)

PROPS["C06"] = dict(
    pkg="c06", level="exploration", design_ref="DESIGN.md section 3, C06",
    technique="enumerated table of wire token spellings x destination types x container positions x modes, written by hand from the grammar; expectation function (exact / must-reject / unsettled) from the statement; metamorphic position-independence check",
    level_text=("Every token spelling of the grammar (digit/i/l integers at every width boundary, doubles in several decimal spellings, NaN/Inf, e/s\"\" and u/s1 strings, "
                "digit strings, bytes, guids, ten date/time forms, lists and maps in alternative spellings, objects with extra/missing/reordered fields, maps for objects) is "
                "decoded into every destination type at every position. Three oracles: a destination that can hold the denoted value exactly must end up holding exactly it; "
                "one that clearly cannot must report an error (a wrong value with a nil error is the violation); and the outcome for one (token, type) must be the same in all "
                "seven positions, which needs no expectation table and exposes a wrong entry in a dispatch table. Two further sub-checks: a reference-accounting probe (a string written after the token must be reachable under the index the grammar gives it) and entry independence (several object / map / list entries in one container must decode as each does alone)."),
    level_note="Where the statement does not settle a conversion (bool from int, string from double, time from int, ...) the expectation is 'unsettled' and only position independence is asserted; values inside the enumerated table are fixed boundary values, random values are covered by C01.",
    rule=("token-matrix: all token spellings x 48 destination types x {simple, reference} x 7 positions, enumerated; objects: class layouts x struct/map/interface destinations. "
          "Non-trivial = every case (each is a distinct (spelling, destination, mode) cell; spellings the encoder never emits are labelled in the class histogram). Distinct by cell text."),
    assumptions=["decoder settings are the defaults (LongType int, RealType float64, MapType map[interface{}]interface{}) unless a sub-check says otherwise"],
    quick=dict(shards=4, timeout=600),
    thorough=dict(shards=16, timeout=2400),
)

PROPS["C04"] = dict(
    pkg="c04", level="exploration", design_ref="DESIGN.md section 3, C04",
    technique="enumerated mutations of valid streams (every truncation, deletion, alphabet substitution/insertion, grammar-aware count/length/index replacement) + rapid random bytes, decoded in worker processes with recover, allocation metering and death attribution",
    level_text=("For every corpus stream (serialization values, RPC requests and responses, JSON-RPC messages) all single-step mutations are enumerated and each mutant is decoded through "
                "Unmarshal, a reader, Service.Handle, the client codec and the JSON-RPC codecs into rotating (quick) or all (thorough) destination types in both modes. The decode "
                "runs in a worker process with a 4 GiB address-space limit: a panic is recovered and reported, the bytes allocated (runtime/metrics) must stay under 1 MiB + 256 x "
                "input length, a hang trips the watchdog, and when the worker dies the input recorded in its side file is reported and a new worker continues behind it. One sweep entry decodes under non-default decoder settings (StructTypeValue, interface-keyed maps) and the number vocabulary includes hostile exponents."),
    level_note="No legitimate decode comes within two orders of magnitude of the allocation bound; recursion depth is exercised up to a few hundred levels; inputs longer than a few hundred bytes are not generated.",
    rule=("mutations: per (entry, corpus stream) every truncation, single-byte deletion, substitution and insertion over a 48-byte alphabet, adjacent swaps, number replacements by hostile "
          "constants and structural repeats; random-bytes: rapid-drawn strings of up to 64 bytes biased to the tag alphabet. Non-trivial = a mutation set of a corpus stream (counted per set) or a "
          "random input of >= 2 bytes starting with a legal tag; the number of individual decodes is reported as classes['decodes']."),
    assumptions=["a decode that returns any value or error without panicking, dying, hanging or over-allocating is accepted: this property does not judge values"],
    quick=dict(shards=8, timeout=900),
    thorough=dict(shards=16, timeout=3000),
)

PROPS["C07"] = dict(
    pkg="c07", level="exploration", design_ref="DESIGN.md section 3, C07",
    technique="rapid-generated (method, name spelling, argument list, headers, result shape, codec options on both sides) round trips through the real client and service codecs; envelope grammar checked by the independent reader",
    level_text=("Round-trip property over the codec pair: for a catalogue of 21 published functions covering every signature shape, generated argument lists (exact, fewer, surplus, "
                "variadic tails; values of the parameter types from the C01 generators, repeated strings across segments) and headers are encoded by the client codec and decoded by "
                "the service codec under independently drawn options on the two sides; results (none, one, several with values repeated across results, error, panic error) go the "
                "other way. Name, resolved method, headers, argument/result count, dynamic types and values (neutral node space) must agree, and request/response bytes must follow "
                "the envelope grammar with the reference table reset at segment boundaries. The JSON-RPC codec pair is exercised with JSON-representable values."),
    level_note="Values behind interface{} parameters are restricted to those that mean the same under every LongType/RealType/MapType setting; the reserved 'simple' header is excluded from the header comparison as the statement says.",
    rule=("request / response: rapid-drawn cases; non-trivial = at least one argument or header (request) / a value, error or panic (response) and a non-default option on either side. "
          "jsonrpc: JSON-safe values. Classes: argument shape (exact/fewer/surplus/variadic), the four Simple pairs, result kinds. Distinct by case text."),
    assumptions=["struct types of the catalogue are registered", "time.Local pinned to a fixed zone"],
    quick=dict(shards=4, timeout=600),
    thorough=dict(shards=16, timeout=2400),
)

PROPS["C14"] = dict(
    pkg="c14", level="exploration", design_ref="DESIGN.md section 3, C14",
    technique="generated never-before-used type families released through a barrier under the race detector with a computed 'alone' template; buffer-overwrite metamorphic check; rapid state machine of pooled coders against brand-new coders",
    level_text=("(a) 480 generated families of named struct types (nested, pointer, slice and recursive members) are each used for the first time by 2-8 goroutines released "
                "together, mixing encode and decode of the nesting and the nested type; every result must equal the bytes/value computed for that family alone and the binary runs "
                "under the race detector. (b) A decoded value's canonical form must not change after the input buffer is overwritten and pooled coders are recycled. (c) A rapid "
                "state machine interleaves pooled decode/encode operations (both modes, decoder options, failing inputs, double encodes, RPC codec messages with and without the "
                "simple header); each step must behave like a brand-new coder. A further sub-check decodes lists into arrays that are shorter or longer than the list from several goroutines at once and verifies that values handed out earlier do not change."),
    level_note="(a) samples the Go scheduler: each family gives one chance per process for the racing window; volume (families x shards x tiers) makes it reliable for windows as wide as the struct registration. Built with -race in both tiers.",
    rule=("first-use: one case per family (all non-trivial: the first use happens inside the barrier window by construction); aliasing: rapid-drawn (type, value, mode, entry), non-trivial = the "
          "stream contains a string or byte payload; pool-hygiene: rapid histories, non-trivial = a step that follows a failing or reference-mode step; warm: concurrent round trips. Distinct by case text."),
    assumptions=["each family type is touched by no other code in the process before its case", "expected bytes per family are pinned against the library single-threaded (TestATemplateAlone)"],
    quick=dict(shards=4, timeout=900, race=True),
    thorough=dict(shards=16, timeout=2400, race=True),
)

PROPS["C08"] = dict(
    pkg="c08", level="exploration", design_ref="DESIGN.md section 3, C08",
    technique="rapid-generated (transport, worker pool, codec options, function, argument values, proxy/Invoke/namespace, name spelling, induced error or panic) calls over real loopback transports, differential against the local call plus a service-side invocation recorder",
    level_text=("Differential property over real transports: a catalogue of 21 published functions (no/one/many parameters and results, variadic, context-taking, error-returning, "
                "struct/pointer/map/slice/interface parameters, a non-ASCII name, a namespaced name) is served on mock, tcp, unix, udp, websocket (net/http and fasthttp servers), "
                "net/http and fasthttp, with and without a bounded worker pool, and called through UseService proxies, a namespace proxy, or InvokeContext with a generated spelling "
                "of the name under three client codec settings. Every generated call is also made locally: the recorder must show exactly one invocation of the same function with "
                "equal arguments, results must equal the local results, and an induced error or panic must reach the caller as an error carrying the same message. Unknown names must "
                "reach the missing-method handler when installed and be an error otherwise. The catalogue includes context-taking functions with interface, variadic, map and pointer "
                "parameters (nil arguments) and names whose cased letters are not ASCII; one sub-check sends several calls of different functions through one caller context; "
                "another has 2-12 callers on one client at once behind a one-worker pool. The same differential is run in the provider direction: the catalogue published on a "
                "reverse Provider and called from the service side through Caller proxies and Caller.InvokeContext over tcp, unix, websocket and http. A further sub-check publishes an object tree with AddAllMethods (methods and func fields on named, embedded and pointer members, three levels) and net/rpc style methods, and calls them through proxies of the same layout with and without a namespace."),
    level_note="The http client transport is net/http by default; the shard set with VERIF_HTTP_CLIENT=fasthttp uses the fasthttp client transport (the scheme registry is process-global).",
    rule=("remote-vs-local: rapid-drawn calls; non-trivial = at least one non-zero argument. Classes: transport x outcome (ok/error/panic), mode (proxy/invoke/ns), pool, function. "
          "missing-method: generated unknown names x handler installed or not. Distinct by case text."),
    assumptions=["struct types of the catalogue are registered", "time.Local pinned to a fixed zone", "loopback networking and unix sockets are available"],
    quick=dict(shards=4, timeout=600, race_run="^TestConcurrentCalls$"),
    thorough=dict(shards=16, timeout=2400, race_run="^(TestConcurrentCalls|TestRemoteEqualsLocal)$"),
)

PROPS["C09"] = dict(
    pkg="c09", env=dict(VERIF_SHRINKTIME="15s"), level="exploration", design_ref="DESIGN.md section 3, C09",
    technique="rapid-generated concurrent callers on one client with harness-controlled completion order (gated service functions) and scripted peers speaking the frame formats with generated response orders, stray and duplicated identifiers; 15-bit identifier wrap on UDP; reverse calls against real and scripted providers",
    level_text=("(a) 2-12 callers on one client (mock, tcp, unix, udp, websocket on both servers, http, fasthttp; worker pool on/off) call a gated function; the harness completes the "
                "functions in a generated order (in order, reversed, permuted, interleaved; strictly one by one or at once) with quick calls in between; every caller must receive "
                "the response to its own argument. (b) A scripted peer (tcp, unix, udp, websocket) written against the frame formats answers the collected requests in a generated "
                "order, mixing in responses for identifiers that are unused, far away, not yet issued or already answered, duplicates and text messages; callers must get their "
                "own response, a second round on the same connection must succeed and the client must not have reconnected. (c) On UDP one call stays pending while 32767 more calls "
                "wrap the 15-bit identifier and a second pending call is issued; both must get their own response in either release order. (d) Reverse calls: concurrent "
                "Caller.InvokeContext against a real provider with gated functions (some of which panic or fail with a message naming the call), and against a scripted provider returning results in generated batches with unknown and "
                "repeated identifiers; and a forced interleaving (verif yield point in Caller.begin) in which calls are queued exactly while the provider's begin is between its queue "
                "check and its registration; and sequences of reverse calls separated by pauses around and beyond the caller's idle time-out, where the provider must keep serving and no call may be lost in the hand-over between two begins. (e) Websocket connection churn (both servers): short-lived connections ended by the server or abandoned by the client while slow calls are "
                "being answered, 8 at a time. One extra process per run executes (e) and the concurrent-caller sub-checks from a race-detector build, so a connection whose buffers are "
                "still in use when the server recycles them, or any other unsynchronised access on these paths, is reported. A further sub-check has 2-5 concurrent calls with arguments and results of 1-3 MiB each on one client."),
    level_note="Completion order is controlled by the harness (gates inside the service function, scripted peers); the interleaving of the callers' registrations is left to the Go scheduler and sampled.",
    rule=("real-service / reverse-provider: rapid-drawn (endpoint, callers, completion order); all non-trivial (>= 2 concurrent calls). scripted-peer / reverse-scripted: non-trivial = the script contains "
          "at least one stray or duplicate. udp-wrap: fixed scenarios x pool x release order. reverse-forced: transport x earlier calls x calls in the window, all non-trivial. reverse-idle: non-trivial = at least one pause reaches the idle time-out. Distinct by case text."),
    assumptions=["loopback networking and unix sockets are available", "identifier reuse by a stale response arriving after 32768 further calls on UDP is outside the protocol's reach and not generated"],
    quick=dict(shards=4, timeout=900, race_run="^(TestWSChurn|TestRealService|TestScriptedPeer)$"),
    thorough=dict(shards=16, timeout=3000, race_run="^(TestWSChurn|TestRealService|TestScriptedPeer|TestReverseProvider|TestReverseScripted)$"),
)

PROPS["C12"] = dict(
    pkg="c12", env=dict(VERIF_SHRINKTIME="15s"), level="exploration", design_ref="DESIGN.md section 3, C12",
    technique="rapid-generated and swept payload lengths/contents through an IO-level recording service on every transport (byte-exact differential in both directions); exhaustive single-bit header corruption and declared-versus-actual length matrices with hand-made frames against the real server and, through a scripted peer, against the real client",
    level_text=("An IO plugin records the exact request bytes the service is handed and answers with generated bytes of a requested length; raw Client.Request is used on mock, tcp, "
                "unix, udp, websocket (net/http and fasthttp servers), net/http and fasthttp (both client transports). (a) rapid draws request and response lengths with boundary bias "
                "(header sizes, 255/256, 1012/1024, buffer multiples, 65,499/65,507, 64 KiB, 1 MiB) and contents (random, zeros, 0xff, frame-header lookalikes, the too-large text): "
                "service-side bytes and caller-side bytes must be exact; beyond the datagram limit the call must fail and the next call succeed. (b) every length in the boundary "
                "windows in both directions. (c) different payloads in flight at once. (d) hand-made frames to the real server: every single-bit corruption of the socket and UDP "
                "headers, every combination of declared/actual length on UDP after another client's long datagram, short socket bodies then close/half-close/stall, HTTP bodies shorter "
                "than Content-Length and chunked bodies: nothing may be delivered unless consistent. (e) a scripted peer sends the real client corrupted or inconsistent responses: "
                "the caller must get an error, never bytes. (f) A conforming websocket peer sends requests in fragments of 1-7 bytes and messages shorter than the index header. "
                "(g) A caller gives up an 8 MiB request that a slow peer is still reading and reuses its buffer: the service side must receive the submitted bytes or nothing. Two further sub-checks: the service behind a front end that compresses responses for clients announcing gzip (both http clients, compression on and off), and raw peers that pipeline many echo requests on a stream socket and read the responses late, with an echo that returns the request slice itself. Clients whose OnConnect hook wraps the connection (tcp, unix, udp) take part in the round trips."),
    level_note="On stream sockets and HTTP a declared length smaller than what follows is not generated: the surplus is by definition the next message of the same sender.",
    rule=("round-trip: rapid-drawn (endpoint, lengths, content), non-trivial = non-empty message; every-length / header-bit / declared-length / http-bodies / client-side-frames: enumerated, all non-trivial. "
          "Classes: transport, content kind, multi-buffer sizes, over-datagram, declared smaller/larger/equal. Distinct by case text."),
    assumptions=["loopback networking and unix sockets are available"],
    quick=dict(shards=4, timeout=900),
    thorough=dict(shards=16, timeout=3000),
)

PROPS["C13"] = dict(
    pkg="c13", env=dict(VERIF_SHRINKTIME="15s"), level="exploration", design_ref="DESIGN.md section 3, C13",
    technique="rapid-generated (transport, limit, size relative to the limit, call or raw bytes, length declaration) requests against a service with a counting IO plugin and a counting published function; library client for truthful declarations, hand-made HTTP requests, socket frames, datagrams and websocket messages for absent/understated/overstated ones",
    level_text=("MaxRequestLength is set per case to a generated limit (boundary-biased, 0 to 1 MiB; below the datagram size on UDP) and a request of limit-1, limit, limit+1, limit+small or "
                "far above is sent: (a) through the library client on mock, tcp, unix, udp, websocket (both servers), net/http and fasthttp (both client transports), worker pool on/off: "
                "over the limit the IO plugin and the function must see nothing and the caller must get a request-too-large error, then the next call must succeed; at or below the "
                "limit the request must be processed exactly once. (b) hand-made HTTP POST/GET with truthful, chunked (no length) and understated Content-Length on the four HTTP-capable "
                "servers. (c) hand-made socket frames, datagrams and websocket messages with truthful, understated and overstated lengths. In every case nothing longer than the limit "
                "may ever reach the IO plugin. UDP requests just above the datagram capacity must be refused by the client with the same error; limits of 2^31 and above must let everything through."),
    level_note="The limit is changed on the live service between cases (the handlers read it per request); cases on one endpoint are serialised.",
    rule=("rapid-drawn cases; all non-trivial (a limit is set and the size is chosen relative to it). Classes: transport x declaration x over/within, exact edges (size = limit, limit+1), pool, "
          "call versus raw bytes, HTTP method. Distinct by case text."),
    assumptions=["loopback networking and unix sockets are available"],
    quick=dict(shards=4, timeout=900),
    thorough=dict(shards=16, timeout=3000),
)

PROPS["C11"] = dict(
    pkg="c11", env=dict(VERIF_SHRINKTIME="15s"), level="exploration", design_ref="DESIGN.md section 3, C11",
    technique="enumerated fault catalogue x transports x worker pool with sentinel calls in flight on the same and on another client, rapid-generated fault sequences and bursts, scripted peers misbehaving towards the real client; process death of the shard is attributed to the running case by the driver",
    level_text=("A catalogue of about 90 faults - service functions panicking with 13 kinds of values (strings, errors, structs, nil, runtime errors), panicking invoke/IO plugins and "
                "missing-method handler, wrongly typed, surplus or missing arguments, unencodable results, 21 kinds of undecodable request bytes, messages too large for a datagram, and "
                "hand-made malformed frames, datagrams, websocket messages and HTTP requests from a peer of their own (short, bad checksum, lying lengths, error flag, a call in flight "
                "followed by a broken frame) - is run on every transport it applies to (mock, tcp, unix, udp, websocket x2, http, fasthttp; worker pool 0/8; also behind the ExecuteTimeout and Oneway plugins) while a gated call of the same "
                "client and one of another client are in flight: the faulty call must fail, the in-flight calls must complete (the same client's only unless the fault may cost its "
                "connection), calls issued afterwards on both clients must succeed, and the process must survive. On UDP the result sizes around the datagram limit (65470..65500 bytes) are swept one by one. rapid draws sequences and bursts of faults per endpoint; small worker pools "
                "(1, 2) face more dropped raw peers than they have workers. On the client side a scripted peer answers one of two pending calls with 15 kinds of faulty responses. Endpoints also sit behind the ExecuteTimeout and Oneway plugins and behind a concurrent limiter as outermost IO plugin, where after every fault all slots must be available again; a request larger than MaxRequestLength is one of the faults. Two further sub-checks: a child process runs out of file descriptors while a client connects (the listener's accept fails with EMFILE) and must serve that client and later ones once descriptors are free again; behind a 40 ms ExecuteTimeout a function panics after its caller was answered, with calls of the same and of another client around it."),
    level_note="Server, clients and harness share one process per shard: a fault that kills the process is reported by the driver as a violation attributed to the case that was executing.",
    rule=("every-fault: enumerated (endpoint x applicable fault), all non-trivial; fault-sequences: rapid-drawn sequences; small-pool / client-side: enumerated. Classes: transport x fault level "
          "(call / connection / raw peer), pool. Distinct by case text."),
    assumptions=["loopback networking and unix sockets are available"],
    quick=dict(shards=4, timeout=900),
    thorough=dict(shards=16, timeout=3000, race_run="^(TestEveryFault|TestFaultSequences|TestClientSide)$"),
)

PROPS["C10"] = dict(
    pkg="c10", env=dict(VERIF_SHRINKTIME="15s"), level="exploration", design_ref="DESIGN.md section 3, C10",
    technique="rapid-generated (transport, pending calls, client timeout, peer behaviour at each point of the exchange, terminator) cases against scripted peers and real servers with a termination-time oracle, pending-entry/cancel-function accessors and a goroutine-count oracle; forced interleavings of Abort, cancellation and connection loss with registration and enqueue through verif yield points",
    level_text=("(a) A scripted peer (tcp, unix, udp, websocket) or a raw HTTP listener receives 1-4 pending calls and then answers, stays silent, closes, resets, sends part of a header or "
                "body and stalls or closes, announces 2 GiB, sends bad checksums, short messages, error frames or strangers' answers; the client has no timeout, a short one or one far away (30 s) and the calls "
                "are ended by timeout, context cancellation or Abort at a generated moment. Every call must return in time (promptly after loss, abort or cancellation; by its timeout "
                "otherwise) with an error unless answered; afterwards the transport must hold no pending-call entry and the client no cancel function, the next call must succeed, and the "
                "goroutine count must return to its level before the case. (b) The same terminators against real servers on all eight transports with slow (gated) functions, late "
                "completions and a surviving call. (c) 25-150 rounds of failure and recovery per transport and terminator: nothing may accumulate. (d) Yield points in conn.Transport hold a "
                "call before or after its registration while the connection is lost, the client aborted or the context cancelled. (e) A peer that stops reading blocks the sender with a "
                "16 MiB call and two more queue behind it, then reset / abort / cancel. (f) The service-side ExecuteTimeout plugin. Further sub-checks: caller contexts with a far deadline or a per-call time-out; a unix peer that shuts down only its receiving side (the client's write fails, its reads see nothing); a peer that accepts the connection and never completes the exchange (for websocket: the opening handshake), ended by time-out, caller deadline, cancellation or Abort, after which the peer recovers and the client must work; reverse calls given up while no provider listens must leave nothing queued."),
    level_note="Time bounds carry 0.7 s of scheduling slack and 'promptly' means within 1.5 s; a call is declared stuck only when it is still pending 5 s after its bound. Liveness is checked as bounded termination only.",
    rule=("rapid-drawn cases; non-trivial = the peer does not simply answer. forced-races / stalled-sender / no-accumulation / service-timeout: enumerated scenarios. Classes: transport x peer behaviour, "
          "terminator, timeout set or not, yield point x event. Distinct by case text."),
    assumptions=["loopback networking and unix sockets are available", "the machine is not so loaded that a runnable goroutine waits more than 0.7 s"],
    quick=dict(shards=4, timeout=1200, race_run="^(TestRealServer|TestNoAccumulation)$"),
    thorough=dict(shards=8, timeout=3600, race_run="^(TestRealServer|TestNoAccumulation|TestPeerFaults|TestForcedRaces|TestStalledSender)$"),
)

# properties not claimed yet (kept current as checks land)
_ALL = ["C%02d" % i for i in range(1, 21)]
NOT_APPLICABLE = [dict(property_id=p, reason="check not built yet in this revision (planned in DESIGN.md section 3); not a limit of the technique")
                  for p in _ALL if p not in PROPS]
HOOK_COMMITS = ["16e4c9c", "8b4a7e5", "8ae0263", "d615bbe"]
