#!/usr/bin/env python3
"""Rewrites the seed table of DESIGN.md section 9 from seeded/*/meta.json."""
import json, os, re
rows = []
first_missed = 0
for sid in sorted(os.listdir('/verif/seeded')):
    m = json.load(open('/verif/seeded/%s/meta.json' % sid))
    note = (m.get('check_note') or '').replace('|', '/').replace('\n', ' ')
    if 'missed' in note.lower():
        first_missed += 1
    rows.append('| %s | %s |' % (sid, note))
p = '/verif/DESIGN.md'
s = open(p).read()
a = s.index('| Seed | Detected by (and what had to change) |')
b = s.index('\n\n', a)
s = s[:a] + '| Seed | Detected by (and what had to change) |\n|------|--------------------------------------|\n' + '\n'.join(rows) + s[b:]
s = re.sub(r'All \d+ are detected; \d+ were missed', 'All %d are detected; %d were missed' % (len(rows), first_missed), s)
s = re.sub(r'and \d+ independently written property-breaking', 'and %d independently written property-breaking' % len(rows), s)
open(p, 'w').write(s)
print(len(rows), 'seeds,', first_missed, 'missed at first')
