#!/usr/bin/env python3
"""usage: keepseed.py <src-dir> <seed-id> <detected|missed> "<which check/sub-check caught it or why missed>" """
import json, os, shutil, sys
src, sid, status, note = sys.argv[1:5]
dst = os.path.join("/verif/seeded", sid)
os.makedirs(dst, exist_ok=True)
for f in os.listdir(src):
    if f in ("patch.diff", "patch.rebased.diff") or f.endswith(".go"):
        shutil.copy(os.path.join(src, f), os.path.join(dst, f + (".txt" if f.endswith(".go") else "")))
m = json.load(open(os.path.join(src, "meta.json")))
meta = {
    "seed_id": sid,
    "property": m.get("property"),
    "summary": m.get("summary"),
    "needs": m.get("needs"),
    "demo": {"dir": m.get("demo_dir"), "cmd": m.get("demo_cmd"), "file": "demo_test.go.txt (copy into dir as demo_test.go)"},
    "author_suite_result": m.get("suite_result"),
    "confirmed_by_me": "lib/seedtest.py: demo passes on the clean tree and fails with patch.diff applied in a scratch worktree; patch applied to /repo, quick check run, /repo restored",
    "check_result": status,
    "check_note": note,
}
json.dump(meta, open(os.path.join(dst, "meta.json"), "w"), indent=1)
print("kept", dst)
