#!/usr/bin/env python3
"""usage: seedtest.py <src-dir with patch.diff demo_test.go meta.json> <worktree> [check-id ...]
1. in the scratch worktree: demo passes on the clean tree, fails with the patch
2. applies the patch to /repo, runs ./check <id> (quick) for each id, reverts /repo."""
import json, os, shutil, subprocess, sys
src, wt = sys.argv[1], sys.argv[2]
ids = sys.argv[3:]
env = dict(os.environ, GOFLAGS="-mod=mod", GOPROXY="off", GOSUMDB="off", GOTOOLCHAIN="local")
meta = json.load(open(os.path.join(src, "meta.json")))
def sh(cmd, cwd, timeout=900):
    p = subprocess.run(cmd, shell=True, cwd=cwd, env=env, stdout=subprocess.PIPE, stderr=subprocess.STDOUT, text=True, timeout=timeout)
    return p.returncode, p.stdout
def clean():
    sh("git checkout -q -- . && git clean -fdq", wt)
clean()
demo_dir = os.path.join(wt, meta["demo_dir"])
demos = [f for f in os.listdir(src) if f.endswith("_test.go") or (f.endswith(".go") and f != "patch.diff")]
if "demo_test.go" in demos:
    demos = ["demo_test.go"]
cmd = meta["demo_cmd"]
if " cp " not in " " + cmd:   # some demo commands copy the file themselves
    for f in demos:
        shutil.copy(os.path.join(src, f), os.path.join(demo_dir, f))
rc_clean, out_clean = sh(cmd, wt)
print("demo on clean tree: rc=%d" % rc_clean)
if rc_clean != 0:
    print(out_clean[-1500:])
rc, out = sh("git apply " + os.path.join(src, "patch.diff"), wt)
if rc != 0:
    print("patch does not apply to worktree:", out)
rc_mut, out_mut = sh(cmd, wt)
print("demo with mutant: rc=%d" % rc_mut)
if rc_mut == 0:
    print(out_mut[-800:])
else:
    print("   ", "\n    ".join([l for l in out_mut.splitlines() if "FAIL" in l or "Error" in l or "expected" in l][:6]))
clean()
ok = rc_clean == 0 and rc_mut != 0
print("DEMO CONFIRMED" if ok else "DEMO NOT CONFIRMED")
if ids:
    rc, out = sh("git diff --quiet", "/repo")
    if rc != 0:
        print("/repo dirty, not applying"); sys.exit(2)
    pf = os.path.join(src, "patch.rebased.diff")
    if not os.path.exists(pf):
        pf = os.path.join(src, "patch.diff")
    rc, out = sh("git apply " + pf, "/repo")
    if rc != 0:
        rc, out = sh("git apply --3way " + pf, "/repo")
        if rc != 0:
            print("patch does not apply to /repo:", out); sh("git reset -q; git checkout -q -- .", "/repo"); sys.exit(2)
        sh("git reset -q", "/repo")
    try:
        for i in ids:
            tier = os.environ.get("SEED_TIER", "quick")
            rc, out = sh("./check %s --tier %s" % (i, tier), "/verif", timeout=3000)
            lines = [l[:500] for l in out.splitlines() if any(k in l for k in ("VIOLATION", "failing case", "HARNESS", "BUILD", "evaluations="))]
            print("check %s rc=%d %s" % (i, rc, "DETECTED" if rc == 1 else "MISSED" if rc == 0 else "INCONCLUSIVE"))
            print("   ", "\n    ".join(lines[:5]))
    finally:
        sh("git checkout -q -- .", "/repo")
        rc, out = sh("git status --short", "/repo")
        if out.strip():
            print("WARNING /repo not clean:", out)
