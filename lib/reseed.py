#!/usr/bin/env python3
"""Re-runs every kept seeded change against the check of its property (quick tier, or SEED_TIER).
usage: reseed.py [seed-id-prefix ...]   prints one line per seed: DETECTED / MISSED / NOAPPLY"""
import json, os, subprocess, sys
ROOT = "/verif/seeded"
want = sys.argv[1:]
env = dict(os.environ)
def sh(cmd, cwd):
    p = subprocess.run(cmd, shell=True, cwd=cwd, stdout=subprocess.PIPE, stderr=subprocess.STDOUT, text=True, errors="replace")
    return p.returncode, p.stdout
rc, out = sh("git status --short", "/repo")
if out.strip():
    print("/repo is dirty"); sys.exit(2)
res = {}
for sid in sorted(os.listdir(ROOT)):
    if want and not any(sid.startswith(w) for w in want):
        continue
    d = os.path.join(ROOT, sid)
    meta = json.load(open(os.path.join(d, "meta.json")))
    pf = os.path.join(d, "patch.rebased.diff")
    if not os.path.exists(pf):
        pf = os.path.join(d, "patch.diff")
    rc, out = sh("git apply " + pf, "/repo")
    if rc != 0:
        rc, out = sh("git apply --3way " + pf + " && git reset -q", "/repo")
        if rc != 0:
            sh("git reset -q; git checkout -q -- .", "/repo")
            print("%-8s NOAPPLY" % sid); res[sid] = "noapply"; continue
    try:
        prop = meta["property"]
        rc, out = sh("./check %s --tier %s" % (prop, os.environ.get("SEED_TIER", "quick")), "/verif")
        verdict = {0: "MISSED", 1: "DETECTED"}.get(rc, "INCONCLUSIVE rc=%d" % rc)
    finally:
        sh("git checkout -q -- .", "/repo")
    print("%-8s %s" % (sid, verdict)); res[sid] = verdict
    sys.stdout.flush()
missed = [k for k, v in res.items() if v != "DETECTED"]
print("total %d, not detected: %s" % (len(res), missed))
